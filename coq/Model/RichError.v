(* Model of tonic-types/src/richer_error (C20): the ten standard error detail messages, the builder
   methods of ErrorDetails, their conversion to and from `prost_types::Any`, `StatusExt` /
   `RpcStatusExt`.

   Layer A (Section LayerA): the control flow of richer_error/mod.rs over abstract payload
   codecs.  Layer B (after the section): the codecs themselves - the table-driven prost codec of
   Model/ProtoWire.v ([enc_g] / [dec_g]) applied to the tables of (field name, tag, kind) that rs2v
   regenerates from the `#[prost(..)]` attributes (Gen/RichErrorTables.v), plus the field-by-field
   struct <-> message conversions of std_messages/*.rs - and the instantiation of layer A with them.
   No proofs in this file. *)
From Verif Require Import Lib.Bytes Lib.Obs Lib.Utf8 Lib.HeaderMap.
From Verif Require Import Gen.StatusTables Gen.RichErrorTables Model.Status Model.ProtoWire.
From Coq Require Import String.
Close Scope string_scope.
Open Scope N_scope.

Definition str : Type := list N.           (* a Rust String: its UTF-8 bytes *)

(* ---- std_messages/*.rs ---------------------------------------------------------------------- *)
(* std::time::Duration: u64 seconds, nanoseconds below 10^9 *)
Record duration := mkDur { d_secs : N; d_nanos : N }.
Record retry_info := mkRetryInfo { ri_retry_delay : option duration }.
Record debug_info := mkDebugInfo { di_stack_entries : list str; di_detail : str }.
Record quota_violation := mkQuotaViolation { qv_subject : str; qv_description : str }.
Record quota_failure := mkQuotaFailure { qf_violations : list quota_violation }.
(* metadata is a HashMap<String, String>: an association list with distinct keys, listed in the
   iteration order of the implementation's map (any order: it is an input) *)
Record error_info := mkErrorInfo { ei_reason : str; ei_domain : str; ei_metadata : list (str * str) }.
Record precondition_violation :=
  mkPreconditionViolation { pv_type : str; pv_subject : str; pv_description : str }.
Record precondition_failure := mkPreconditionFailure { pf_violations : list precondition_violation }.
Record field_violation := mkFieldViolation { fv_field : str; fv_description : str }.
Record bad_request := mkBadRequest { br_field_violations : list field_violation }.
Record request_info := mkRequestInfo { rq_request_id : str; rq_serving_data : str }.
Record resource_info :=
  mkResourceInfo { rs_resource_type : str; rs_resource_name : str; rs_owner : str; rs_description : str }.
Record help_link := mkHelpLink { hl_description : str; hl_url : str }.
Record help := mkHelp { h_links : list help_link }.
Record localized_message := mkLocalizedMessage { lm_locale : str; lm_message : str }.

(* error_details/vec.rs: enum ErrorDetail *)
Inductive error_detail : Type :=
| DRetryInfo (x : retry_info)
| DDebugInfo (x : debug_info)
| DQuotaFailure (x : quota_failure)
| DErrorInfo (x : error_info)
| DPreconditionFailure (x : precondition_failure)
| DBadRequest (x : bad_request)
| DRequestInfo (x : request_info)
| DResourceInfo (x : resource_info)
| DHelp (x : help)
| DLocalizedMessage (x : localized_message).

(* error_details/mod.rs: struct ErrorDetails *)
Record error_details := mkED {
  ed_retry_info : option retry_info;
  ed_debug_info : option debug_info;
  ed_quota_failure : option quota_failure;
  ed_error_info : option error_info;
  ed_precondition_failure : option precondition_failure;
  ed_bad_request : option bad_request;
  ed_request_info : option request_info;
  ed_resource_info : option resource_info;
  ed_help : option help;
  ed_localized_message : option localized_message }.
Definition ed_empty : error_details := mkED None None None None None None None None None None.

Inductive kind : Type :=
| KRetryInfo | KDebugInfo | KQuotaFailure | KErrorInfo | KPreconditionFailure
| KBadRequest | KRequestInfo | KResourceInfo | KHelp | KLocalizedMessage.
Definition all_kinds : list kind :=
  [KRetryInfo; KDebugInfo; KQuotaFailure; KErrorInfo; KPreconditionFailure;
   KBadRequest; KRequestInfo; KResourceInfo; KHelp; KLocalizedMessage].

Definition kind_of (d : error_detail) : kind :=
  match d with
  | DRetryInfo _ => KRetryInfo | DDebugInfo _ => KDebugInfo | DQuotaFailure _ => KQuotaFailure
  | DErrorInfo _ => KErrorInfo | DPreconditionFailure _ => KPreconditionFailure
  | DBadRequest _ => KBadRequest | DRequestInfo _ => KRequestInfo | DResourceInfo _ => KResourceInfo
  | DHelp _ => KHelp | DLocalizedMessage _ => KLocalizedMessage
  end.

(* <X>::TYPE_URL, regenerated from the source *)
Definition type_url (k : kind) : str :=
  match k with
  | KRetryInfo => TYPE_URL_RetryInfo | KDebugInfo => TYPE_URL_DebugInfo
  | KQuotaFailure => TYPE_URL_QuotaFailure | KErrorInfo => TYPE_URL_ErrorInfo
  | KPreconditionFailure => TYPE_URL_PreconditionFailure | KBadRequest => TYPE_URL_BadRequest
  | KRequestInfo => TYPE_URL_RequestInfo | KResourceInfo => TYPE_URL_ResourceInfo
  | KHelp => TYPE_URL_Help | KLocalizedMessage => TYPE_URL_LocalizedMessage
  end.

(* `match any.type_url.as_str() { RetryInfo::TYPE_URL => .., DebugInfo::TYPE_URL => .., .. , _ => {} }` *)
Definition kind_of_url (u : str) : option kind := find (fun k => bytes_eqb u (type_url k)) all_kinds.

(* prost_types::Any *)
Definition any : Type := (str * list N)%type.
(* pb::Status *)
Record pb_status := mkPbStatus { ps_code : Z; ps_message : str; ps_details : list any }.

(* BytesMut::remaining_mut() of an empty buffer: usize::MAX *)
Definition USIZE_MAX : N := 18446744073709551615.

(* RetryInfo::new: a delay above MAX_RETRY_DELAY is replaced by it *)
Definition dur_gtb (a b : duration) : bool :=
  (d_secs b <? d_secs a) || ((d_secs a =? d_secs b) && (d_nanos b <? d_nanos a)).
Definition MAX_RETRY_DELAY : duration := mkDur max_retry_delay_secs max_retry_delay_nanos.
Definition retry_info_new (d : option duration) : retry_info :=
  mkRetryInfo (match d with
               | Some delay => Some (if dur_gtb delay MAX_RETRY_DELAY then MAX_RETRY_DELAY else delay)
               | None => None
               end).

(* ---- error_details/mod.rs: building an ErrorDetails ------------------------------------------ *)
(* the `set_*` methods (`self.f = Some(F::new(..))`) and the `add_*` methods (push onto the list of
   the detail, or `Some(F::with_violation(..))` when it is not set yet); `ErrorDetails::with_*(..)`
   is `{ f: Some(..), ..ErrorDetails::new() }`: the same operation applied to `new()` *)
Inductive bop : Type :=
| BSetRetryInfo (delay : option duration)
| BSetDebugInfo (stack : list str) (detail : str)
| BSetQuotaFailure (vs : list quota_violation)
| BAddQuotaFailureViolation (subject description : str)
| BSetErrorInfo (reason domain : str) (md : list (str * str))
| BSetPreconditionFailure (vs : list precondition_violation)
| BAddPreconditionFailureViolation (ty subject description : str)
| BSetBadRequest (vs : list field_violation)
| BAddBadRequestViolation (field description : str)
| BSetRequestInfo (request_id serving_data : str)
| BSetResourceInfo (resource_type resource_name owner description : str)
| BSetHelp (links : list help_link)
| BAddHelpLink (description url : str)
| BSetLocalizedMessage (locale message : str).

Definition apply_bop (ed : error_details) (op : bop) : error_details :=
  match ed with
  | mkED a b c e f g h i j k =>
      match op with
      | BSetRetryInfo d => mkED (Some (retry_info_new d)) b c e f g h i j k
      | BSetDebugInfo st dt => mkED a (Some (mkDebugInfo st dt)) c e f g h i j k
      | BSetQuotaFailure vs => mkED a b (Some (mkQuotaFailure vs)) e f g h i j k
      | BAddQuotaFailureViolation s d =>
          mkED a b (Some match c with
                         | Some q => mkQuotaFailure (qf_violations q ++ [mkQuotaViolation s d])   (* add_violation *)
                         | None => mkQuotaFailure [mkQuotaViolation s d]                          (* with_violation *)
                         end) e f g h i j k
      | BSetErrorInfo r d md => mkED a b c (Some (mkErrorInfo r d md)) f g h i j k
      | BSetPreconditionFailure vs => mkED a b c e (Some (mkPreconditionFailure vs)) g h i j k
      | BAddPreconditionFailureViolation t s d =>
          mkED a b c e (Some match f with
                             | Some q => mkPreconditionFailure (pf_violations q ++ [mkPreconditionViolation t s d])
                             | None => mkPreconditionFailure [mkPreconditionViolation t s d]
                             end) g h i j k
      | BSetBadRequest vs => mkED a b c e f (Some (mkBadRequest vs)) h i j k
      | BAddBadRequestViolation fl d =>
          mkED a b c e f (Some match g with
                               | Some q => mkBadRequest (br_field_violations q ++ [mkFieldViolation fl d])
                               | None => mkBadRequest [mkFieldViolation fl d]
                               end) h i j k
      | BSetRequestInfo x y => mkED a b c e f g (Some (mkRequestInfo x y)) i j k
      | BSetResourceInfo x y z w => mkED a b c e f g h (Some (mkResourceInfo x y z w)) j k
      | BSetHelp ls => mkED a b c e f g h i (Some (mkHelp ls)) k
      | BAddHelpLink d u =>
          mkED a b c e f g h i (Some match j with
                                     | Some q => mkHelp (h_links q ++ [mkHelpLink d u])
                                     | None => mkHelp [mkHelpLink d u]
                                     end) k
      | BSetLocalizedMessage l m => mkED a b c e f g h i j (Some (mkLocalizedMessage l m))
      end
  end.
(* `ErrorDetails::new()` followed by the operations (the first of them possibly as `with_*`) *)
Definition ed_build (ops : list bop) : error_details := fold_left apply_bop ops ed_empty.

(* has_quota_failure_violations, has_precondition_failure_violations, has_bad_request_violations, has_help_links *)
Definition nonempty {A} (l : list A) : bool := match l with [] => false | _ :: _ => true end.
Definition ed_has (ed : error_details) : list bool :=
  [match ed_quota_failure ed with Some q => nonempty (qf_violations q) | None => false end;
   match ed_precondition_failure ed with Some q => nonempty (pf_violations q) | None => false end;
   match ed_bad_request ed with Some q => nonempty (br_field_violations q) | None => false end;
   match ed_help ed with Some q => nonempty (h_links q) | None => false end].

(* ============================================================================================ *)
Section LayerA.
  (* IntoAny: `pb::X::from(x).encode_to_vec()`, FromAnyRef: `pb::X::decode(&any.value)?.into()` *)
  Variable enc_detail : error_detail -> res (list N).
  Variable dec_detail : kind -> list N -> res error_detail.
  (* prost: pb::Status::encode_raw, pb::Status::decode *)
  Variable enc_status : pb_status -> list N.
  Variable dec_status : list N -> res pb_status.

  Definition into_any (d : error_detail) : res any :=
    bind (enc_detail d) (fun b => Ok (type_url (kind_of d), b)).

  (* gen_details_bytes: `status.encode(&mut buf).unwrap()`; encode fails iff
     encoded_len() > buf.remaining_mut() *)
  Definition gen_details_bytes (code : N) (message : str) (details : list any) : res (list N) :=
    let b := enc_status (mkPbStatus (Z.of_N code) message details) in
    if nlen b <=? USIZE_MAX then Ok b else Panic.

  (* the bytes gen_details_bytes has to write for a list of details *)
  Definition status_bytes (code : N) (message : str) (ds : list error_detail) : res (list N) :=
    bind (map_res into_any ds) (fun conv => Ok (enc_status (mkPbStatus (Z.of_N code) message conv))).

  Definition with_error_details_vec_and_metadata (code : N) (message : str) (ds : list error_detail) (md : hm)
    : res status :=
    bind (map_res into_any ds) (fun conv =>
    bind (gen_details_bytes code message conv) (fun details =>
    Ok (mkStatus code message details md))).

  (* with_error_details_and_metadata: ten times
     `if let Some(x) = details.f { conv_details.push(x.into_any()); }`, in the order of the source *)
  Definition push_opt {A} (f : A -> error_detail) (o : option A) (conv : res (list any)) : res (list any) :=
    bind conv (fun l =>
      match o with
      | Some x => bind (into_any (f x)) (fun a => Ok (l ++ [a]))
      | None => Ok l
      end).
  Definition conv_details (ed : error_details) : res (list any) :=
    push_opt DLocalizedMessage (ed_localized_message ed)
   (push_opt DHelp (ed_help ed)
   (push_opt DResourceInfo (ed_resource_info ed)
   (push_opt DRequestInfo (ed_request_info ed)
   (push_opt DBadRequest (ed_bad_request ed)
   (push_opt DPreconditionFailure (ed_precondition_failure ed)
   (push_opt DErrorInfo (ed_error_info ed)
   (push_opt DQuotaFailure (ed_quota_failure ed)
   (push_opt DDebugInfo (ed_debug_info ed)
   (push_opt DRetryInfo (ed_retry_info ed) (Ok [])))))))))).
  Definition with_error_details_and_metadata (code : N) (message : str) (ed : error_details) (md : hm)
    : res status :=
    bind (conv_details ed) (fun conv =>
    bind (gen_details_bytes code message conv) (fun details =>
    Ok (mkStatus code message details md))).

  (* specification only: the details a set stands for, in the order they are pushed *)
  Definition opt_list {A} (f : A -> error_detail) (o : option A) : list error_detail :=
    match o with Some x => [f x] | None => [] end.
  Definition pushed (ed : error_details) : list error_detail :=
    opt_list DRetryInfo (ed_retry_info ed) ++ opt_list DDebugInfo (ed_debug_info ed) ++
    opt_list DQuotaFailure (ed_quota_failure ed) ++ opt_list DErrorInfo (ed_error_info ed) ++
    opt_list DPreconditionFailure (ed_precondition_failure ed) ++ opt_list DBadRequest (ed_bad_request ed) ++
    opt_list DRequestInfo (ed_request_info ed) ++ opt_list DResourceInfo (ed_resource_info ed) ++
    opt_list DHelp (ed_help ed) ++ opt_list DLocalizedMessage (ed_localized_message ed).

  (* RpcStatusExt for pb::Status *)
  Definition set_detail (ed : error_details) (d : error_detail) : error_details :=
    match ed with
    | mkED a b c e f g h i j k =>
        match d with
        | DRetryInfo x => mkED (Some x) b c e f g h i j k
        | DDebugInfo x => mkED a (Some x) c e f g h i j k
        | DQuotaFailure x => mkED a b (Some x) e f g h i j k
        | DErrorInfo x => mkED a b c (Some x) f g h i j k
        | DPreconditionFailure x => mkED a b c e (Some x) g h i j k
        | DBadRequest x => mkED a b c e f (Some x) h i j k
        | DRequestInfo x => mkED a b c e f g (Some x) i j k
        | DResourceInfo x => mkED a b c e f g h (Some x) j k
        | DHelp x => mkED a b c e f g h i (Some x) k
        | DLocalizedMessage x => mkED a b c e f g h i j (Some x)
        end
    end.
  (* one turn of `for any in self.details.iter() { match url { K::TYPE_URL => .. from_any_ref(any)? .., _ => {} } }` *)
  Definition step {S} (upd : S -> error_detail -> S) (s : S) (a : any) : res S :=
    match kind_of_url (fst a) with
    | Some k => bind (dec_detail k (snd a)) (fun d => Ok (upd s d))
    | None => Ok s
    end.
  Definition rpc_check_error_details (ps : pb_status) : res error_details :=
    fold_res (step set_detail) (ps_details ps) ed_empty.
  Definition rpc_check_error_details_vec (ps : pb_status) : res (list error_detail) :=
    fold_res (step (fun acc d => acc ++ [d])) (ps_details ps) [].
  (* get_details_<k>: the first entry with the URL of k that decodes *)
  Fixpoint rpc_get_details (k : kind) (l : list any) : res (option error_detail) :=
    match l with
    | [] => Ok None
    | a :: r =>
        if bytes_eqb (fst a) (type_url k) then
          match dec_detail k (snd a) with
          | Ok d => Ok (Some d)
          | Err => rpc_get_details k r
          | Panic => Panic
          | Fuel => Fuel
          end
        else rpc_get_details k r
    end.

  (* Result::unwrap_or_default *)
  Definition unwrap_or {A} (dflt : A) (r : res A) : res A :=
    match r with Ok x => Ok x | Err => Ok dflt | Panic => Panic | Fuel => Fuel end.

  (* StatusExt for tonic::Status *)
  Definition check_error_details (st : status) : res error_details :=
    bind (dec_status (st_details st)) rpc_check_error_details.
  Definition get_error_details (st : status) : res error_details :=
    unwrap_or ed_empty (check_error_details st).
  Definition check_error_details_vec (st : status) : res (list error_detail) :=
    bind (dec_status (st_details st)) rpc_check_error_details_vec.
  Definition get_error_details_vec (st : status) : res (list error_detail) :=
    unwrap_or [] (check_error_details_vec st).
  Definition get_details (k : kind) (st : status) : res (option error_detail) :=
    match dec_status (st_details st) with                  (* `.ok()?` *)
    | Ok ps => rpc_get_details k (ps_details ps)
    | Err => Ok None
    | Panic => Panic
    | Fuel => Fuel
    end.
End LayerA.

(* ============================================================================================ *)
(* Layer B: the payload codecs *)

(* ---- prost_types::Duration and its conversions (prost-types duration.rs) -------------------- *)
Record pb_duration := mkPbDur { pd_seconds : Z; pd_nanos : Z }.      (* i64, i32 *)
Definition NANOS_PER_SECOND : Z := 1000000000.
Definition NANOS_MAX : Z := 999999999.
Definition I64_MAX : Z := 9223372036854775807.
Definition I64_MIN : Z := (-9223372036854775808)%Z.
Definition checked_i64 (z : Z) : option Z := if ((I64_MIN <=? z) && (z <=? I64_MAX))%Z then Some z else None.

Open Scope Z_scope.
(* Duration::normalize.  The two inner `else` branches hold a debug_assert that is false whenever
   they are reached with the sign tested just before: explicit Panic. *)
Definition normalize (d : pb_duration) : res pb_duration :=
  let (s0, n0) := d in
  let '(s, n) :=
    if (n0 <=? - NANOS_PER_SECOND) || (n0 >=? NANOS_PER_SECOND) then
      match checked_i64 (s0 + Z.quot n0 NANOS_PER_SECOND) with
      | Some s' => (s', Z.rem n0 NANOS_PER_SECOND)
      | None => if n0 <? 0 then (I64_MIN, - NANOS_MAX) else (I64_MAX, NANOS_MAX)
      end
    else (s0, n0) in
  if (s <? 0) && (n >? 0) then
    match checked_i64 (s + 1) with
    | Some s' => Ok (mkPbDur s' (n - NANOS_PER_SECOND))
    | None => Panic
    end
  else if (s >? 0) && (n <? 0) then
    match checked_i64 (s - 1) with
    | Some s' => Ok (mkPbDur s' (n + NANOS_PER_SECOND))
    | None => Panic
    end
  else Ok (mkPbDur s n).
Close Scope Z_scope.

(* time::Duration::new: nanoseconds of a second or more are carried, `expect("overflow in
   Duration::new")` on the carry *)
Definition duration_new (secs nanos : N) : res duration :=
  if nanos <? 1000000000 then Ok (mkDur secs nanos)
  else let s := secs + nanos / 1000000000 in
       if s <? U64 then Ok (mkDur s (nanos mod 1000000000)) else Panic.

(* TryFrom<time::Duration> for prost_types::Duration: None = Err(OutOfRange) *)
Definition pb_of_std (d : duration) : res (option pb_duration) :=
  if d_secs d <? U63 then
    bind (normalize (mkPbDur (Z.of_N (d_secs d)) (Z.of_N (d_nanos d)))) (fun p => Ok (Some p))
  else Ok None.

(* From<RetryInfo> for pb::RetryInfo *)
Definition pb_retry_delay (d : duration) : res pb_duration :=
  bind (pb_of_std d) (fun o =>
    Ok (match o with
        | Some p => p
        | None => mkPbDur (Z.of_N fallback_delay_secs) (Z.of_N fallback_delay_nanos)
        end)).

(* From<pb::RetryInfo> for RetryInfo (after fix 8e72956b): normalize, negative => ZERO *)
Definition std_of_pb (p : pb_duration) : res duration :=
  bind (normalize p) (fun q =>
    if ((pd_seconds q <? 0) || (pd_nanos q <? 0))%Z then Ok (mkDur 0 0)
    else duration_new (Z.to_N (pd_seconds q)) (Z.to_N (pd_nanos q))).

(* ---- the message tables --------------------------------------------------------------------- *)
(* Gen/RichErrorTables.v lists, for every prost message, (field name, tag, kind) as written in the
   `#[prost(..)]` attributes.  [schema_of] turns such a table into the table of Model/ProtoWire.v:
   the type names of message-typed fields are resolved, and the fields are put in tag order as
   prost-derive does.  The wire codec of all ten detail messages, of google.rpc.Status, Any and
   Duration is [enc_g] / [dec_g] of ITS table - nothing about tags, kinds or field order is written
   by hand below; the hand-written part is which Rust field goes into which prost field (by name). *)
Local Open Scope string_scope.
Definition skind_of (k : pkind) : option skind :=
  match k with
  | P_int32 => Some SInt32 | P_int64 => Some SInt64 | P_string => Some SString | P_bytes => Some SBytes
  | _ => None
  end.
Definition flat_of (t : list (string * N * pkind)) : flat :=
  sort_by_tag (flat_map (fun e => match skind_of (snd e) with Some k => [(fst e, k)] | None => [] end) t).
(* the message types that occur as field types *)
Definition resolve (ty : string) : list (string * N * pkind) :=
  if String.eqb ty "prost_types::Any" then fields_Any
  else if String.eqb ty "prost_types::Duration" then fields_Duration
  else if String.eqb ty "quota_failure::Violation" then fields_quota_failure_Violation
  else if String.eqb ty "precondition_failure::Violation" then fields_precondition_failure_Violation
  else if String.eqb ty "bad_request::FieldViolation" then fields_bad_request_FieldViolation
  else if String.eqb ty "help::Link" then fields_help_Link
  else [].
Definition fkind_of (k : pkind) : fkind :=
  match k with
  | P_int32 => FScalar SInt32 | P_int64 => FScalar SInt64 | P_string => FScalar SString | P_bytes => FScalar SBytes
  | P_string_rep => FStringRep
  | P_msg_opt ty => FMsgOpt (flat_of (resolve ty))
  | P_msg_rep ty => FMsgRep (flat_of (resolve ty))
  | P_map_string_string => FMapSS
  end.
Definition schema_of (t : list (string * N * pkind)) : schema :=
  sort_by_tag (map (fun e => (fst e, fkind_of (snd e))) t).
(* a nested message type is known and all of its fields are scalars (so [flat_of] drops nothing) *)
Definition nested_ok (t : list (string * N * pkind)) : bool :=
  forallb (fun e => match snd e with
                    | P_msg_opt ty | P_msg_rep ty =>
                        negb (Nat.eqb (List.length (resolve ty)) 0) &&
                        forallb (fun e' => match skind_of (snd e') with Some _ => true | None => false end) (resolve ty)
                    | _ => true
                    end) t.

Definition S_Status : schema := Eval vm_compute in schema_of fields_Status.
Definition S_RetryInfo : schema := Eval vm_compute in schema_of fields_RetryInfo.
Definition S_DebugInfo : schema := Eval vm_compute in schema_of fields_DebugInfo.
Definition S_QuotaFailure : schema := Eval vm_compute in schema_of fields_QuotaFailure.
Definition S_ErrorInfo : schema := Eval vm_compute in schema_of fields_ErrorInfo.
Definition S_PreconditionFailure : schema := Eval vm_compute in schema_of fields_PreconditionFailure.
Definition S_BadRequest : schema := Eval vm_compute in schema_of fields_BadRequest.
Definition S_RequestInfo : schema := Eval vm_compute in schema_of fields_RequestInfo.
Definition S_ResourceInfo : schema := Eval vm_compute in schema_of fields_ResourceInfo.
Definition S_Help : schema := Eval vm_compute in schema_of fields_Help.
Definition S_LocalizedMessage : schema := Eval vm_compute in schema_of fields_LocalizedMessage.
Definition F_Any : flat := Eval vm_compute in flat_of fields_Any.
Definition F_Duration : flat := Eval vm_compute in flat_of fields_Duration.
Definition F_QuotaViolation : flat := Eval vm_compute in flat_of fields_quota_failure_Violation.
Definition F_PreconditionViolation : flat := Eval vm_compute in flat_of fields_precondition_failure_Violation.
Definition F_FieldViolation : flat := Eval vm_compute in flat_of fields_bad_request_FieldViolation.
Definition F_HelpLink : flat := Eval vm_compute in flat_of fields_help_Link.

Definition S_of (k : kind) : schema :=
  match k with
  | KRetryInfo => S_RetryInfo | KDebugInfo => S_DebugInfo | KQuotaFailure => S_QuotaFailure
  | KErrorInfo => S_ErrorInfo | KPreconditionFailure => S_PreconditionFailure | KBadRequest => S_BadRequest
  | KRequestInfo => S_RequestInfo | KResourceInfo => S_ResourceInfo | KHelp => S_Help
  | KLocalizedMessage => S_LocalizedMessage
  end.

(* ---- Rust struct <-> prost message, field by field (the `From` impls of std_messages/*.rs) ---- *)
(* total accessors of a generic value *)
Definition sv_of (v : val) : sval := match v with VS x => x | _ => VBs [] end.
Definition strs_of (v : val) : list (list N) := match v with VStrs l => l | _ => [] end.
Definition opt_of (v : val) : option (list sval) := match v with VOpt o => o | _ => None end.
Definition rep_of (v : val) : list (list sval) := match v with VRep l => l | _ => [] end.
Definition map_of (v : val) : list (str * str) := match v with VMap m => m | _ => [] end.
Definition vstr (s : str) : val := VS (VBs s).
(* the string field [n] of a top-level / of a flat message *)
Definition str_field (s : schema) (vs : list val) (n : string) : str := bs_of (sv_of (by_name s vs n (vstr []))).
Definition col (f : flat) (x : list sval) (n : string) : str := bs_of (by_name f x n (VBs [])).
Definition row (f : flat) (named : list (string * str)) : list sval :=
  arrange f dflt_s (map (fun p => (fst p, VBs (snd p))) named).

Definition g_of_qv (v : quota_violation) : list sval :=
  row F_QuotaViolation [("subject", qv_subject v); ("description", qv_description v)].
Definition qv_of_g (x : list sval) : quota_violation :=
  mkQuotaViolation (col F_QuotaViolation x "subject") (col F_QuotaViolation x "description").
Definition g_of_pv (v : precondition_violation) : list sval :=
  row F_PreconditionViolation [("type", pv_type v); ("subject", pv_subject v); ("description", pv_description v)].
Definition pv_of_g (x : list sval) : precondition_violation :=
  mkPreconditionViolation (col F_PreconditionViolation x "type") (col F_PreconditionViolation x "subject")
                          (col F_PreconditionViolation x "description").
Definition g_of_fv (v : field_violation) : list sval :=
  row F_FieldViolation [("field", fv_field v); ("description", fv_description v)].
Definition fv_of_g (x : list sval) : field_violation :=
  mkFieldViolation (col F_FieldViolation x "field") (col F_FieldViolation x "description").
Definition g_of_hl (v : help_link) : list sval :=
  row F_HelpLink [("description", hl_description v); ("url", hl_url v)].
Definition hl_of_g (x : list sval) : help_link :=
  mkHelpLink (col F_HelpLink x "description") (col F_HelpLink x "url").
Definition g_of_dur (p : pb_duration) : list sval :=
  arrange F_Duration dflt_s [("seconds", VInt (pd_seconds p)); ("nanos", VInt (pd_nanos p))].
Definition dur_of_g (x : list sval) : pb_duration :=
  mkPbDur (int_of (by_name F_Duration x "seconds" (VInt 0))) (int_of (by_name F_Duration x "nanos" (VInt 0))).

(* IntoAny: `pb::X::from(x)`; only RetryInfo's conversion can fail (panic sites of normalize) *)
Definition g_of_detail (d : error_detail) : res (list val) :=
  match d with
  | DRetryInfo x =>
      match ri_retry_delay x with
      | Some dl => bind (pb_retry_delay dl) (fun p =>
                     Ok (arrange S_RetryInfo dflt_f [("retry_delay", VOpt (Some (g_of_dur p)))]))
      | None => Ok (arrange S_RetryInfo dflt_f [("retry_delay", VOpt None)])
      end
  | DDebugInfo x =>
      Ok (arrange S_DebugInfo dflt_f [("stack_entries", VStrs (di_stack_entries x)); ("detail", vstr (di_detail x))])
  | DQuotaFailure x => Ok (arrange S_QuotaFailure dflt_f [("violations", VRep (map g_of_qv (qf_violations x)))])
  | DErrorInfo x =>
      Ok (arrange S_ErrorInfo dflt_f [("reason", vstr (ei_reason x)); ("domain", vstr (ei_domain x));
                                      ("metadata", VMap (ei_metadata x))])
  | DPreconditionFailure x =>
      Ok (arrange S_PreconditionFailure dflt_f [("violations", VRep (map g_of_pv (pf_violations x)))])
  | DBadRequest x => Ok (arrange S_BadRequest dflt_f [("field_violations", VRep (map g_of_fv (br_field_violations x)))])
  | DRequestInfo x =>
      Ok (arrange S_RequestInfo dflt_f [("request_id", vstr (rq_request_id x)); ("serving_data", vstr (rq_serving_data x))])
  | DResourceInfo x =>
      Ok (arrange S_ResourceInfo dflt_f [("resource_type", vstr (rs_resource_type x)); ("resource_name", vstr (rs_resource_name x));
                                         ("owner", vstr (rs_owner x)); ("description", vstr (rs_description x))])
  | DHelp x => Ok (arrange S_Help dflt_f [("links", VRep (map g_of_hl (h_links x)))])
  | DLocalizedMessage x =>
      Ok (arrange S_LocalizedMessage dflt_f [("locale", vstr (lm_locale x)); ("message", vstr (lm_message x))])
  end.

(* FromAnyRef: `pb::X::decode(..)?.into()` - the `.into()` half *)
Definition detail_of_g (k : kind) (vs : list val) : res error_detail :=
  match k with
  | KRetryInfo =>
      match opt_of (by_name S_RetryInfo vs "retry_delay" (VOpt None)) with
      | Some x => bind (std_of_pb (dur_of_g x)) (fun d => Ok (DRetryInfo (mkRetryInfo (Some d))))
      | None => Ok (DRetryInfo (mkRetryInfo None))
      end
  | KDebugInfo =>
      Ok (DDebugInfo (mkDebugInfo (strs_of (by_name S_DebugInfo vs "stack_entries" (VStrs [])))
                                  (str_field S_DebugInfo vs "detail")))
  | KQuotaFailure =>
      Ok (DQuotaFailure (mkQuotaFailure (map qv_of_g (rep_of (by_name S_QuotaFailure vs "violations" (VRep []))))))
  | KErrorInfo =>
      Ok (DErrorInfo (mkErrorInfo (str_field S_ErrorInfo vs "reason") (str_field S_ErrorInfo vs "domain")
                                  (map_of (by_name S_ErrorInfo vs "metadata" (VMap [])))))
  | KPreconditionFailure =>
      Ok (DPreconditionFailure
            (mkPreconditionFailure (map pv_of_g (rep_of (by_name S_PreconditionFailure vs "violations" (VRep []))))))
  | KBadRequest =>
      Ok (DBadRequest (mkBadRequest (map fv_of_g (rep_of (by_name S_BadRequest vs "field_violations" (VRep []))))))
  | KRequestInfo =>
      Ok (DRequestInfo (mkRequestInfo (str_field S_RequestInfo vs "request_id") (str_field S_RequestInfo vs "serving_data")))
  | KResourceInfo =>
      Ok (DResourceInfo (mkResourceInfo (str_field S_ResourceInfo vs "resource_type") (str_field S_ResourceInfo vs "resource_name")
                                        (str_field S_ResourceInfo vs "owner") (str_field S_ResourceInfo vs "description")))
  | KHelp => Ok (DHelp (mkHelp (map hl_of_g (rep_of (by_name S_Help vs "links" (VRep []))))))
  | KLocalizedMessage =>
      Ok (DLocalizedMessage (mkLocalizedMessage (str_field S_LocalizedMessage vs "locale")
                                                (str_field S_LocalizedMessage vs "message")))
  end.

(* ---- the payload of an Any, by kind ---- *)
Definition enc_detail_c (d : error_detail) : res (list N) :=
  bind (g_of_detail d) (fun vs => Ok (enc_g (S_of (kind_of d)) vs)).
Definition dec_detail_c (k : kind) (b : list N) : res error_detail :=
  bind (dec_g (S_of k) b) (detail_of_g k).

(* ---- google.rpc.Status and Any ---- *)
Definition g_of_any (a : any) : list sval := arrange F_Any dflt_s [("type_url", VBs (fst a)); ("value", VBs (snd a))].
Definition any_of_g (x : list sval) : any := (col F_Any x "type_url", col F_Any x "value").
Definition g_of_status (ps : pb_status) : list val :=
  arrange S_Status dflt_f [("code", VS (VInt (ps_code ps))); ("message", vstr (ps_message ps));
                           ("details", VRep (map g_of_any (ps_details ps)))].
Definition status_of_g (vs : list val) : pb_status :=
  mkPbStatus (int_of (sv_of (by_name S_Status vs "code" (VS (VInt 0))))) (str_field S_Status vs "message")
             (map any_of_g (rep_of (by_name S_Status vs "details" (VRep [])))).
Definition enc_status_c (ps : pb_status) : list N := enc_g S_Status (g_of_status ps).
Definition dec_status_c (b : list N) : res pb_status :=
  bind (dec_g S_Status b) (fun vs => Ok (status_of_g vs)).
Local Close Scope string_scope.

(* ---- layer A instantiated ---- *)
Definition into_any_c := into_any enc_detail_c.
Definition with_error_details_c := with_error_details_and_metadata enc_detail_c enc_status_c.
Definition with_error_details_vec_c := with_error_details_vec_and_metadata enc_detail_c enc_status_c.
Definition check_error_details_c := check_error_details dec_detail_c dec_status_c.
Definition get_error_details_c := get_error_details dec_detail_c dec_status_c.
Definition check_error_details_vec_c := check_error_details_vec dec_detail_c dec_status_c.
Definition get_error_details_vec_c := get_error_details_vec dec_detail_c dec_status_c.
Definition get_details_c := get_details dec_detail_c dec_status_c.

(* ============================================================================================ *)
(* observables.  Coq spends its time elaborating the literals of a case, not evaluating the
   model, so the observable is made compact - losslessly, by the same rules on both sides:
   long byte strings are shown by length and digests ([obs_bytes]), long inputs are written
   15 bytes to a (hexadecimal) number ([unpack]), and a sub-result equal to one already
   shown is replaced by a reference to it. *)
Definition obs_res {A} (f : A -> tr) (r : res A) : tr :=
  match r with
  | Ok a => Nd [Nn 0; f a]
  | Err => Nd [Nn 1]
  | Panic => Nd [Nn 99]
  | Fuel => Nd [Nn 98]
  end.

(* byte strings of more than 96 bytes are shown as their length and two polynomial digests
   modulo 2^61 (multipliers 263 and 1009); shorter ones as they are *)
Definition DIGEST_MASK : N := 2305843009213693951.
Definition digest (a : N) (l : list N) : N := fold_left (fun h b => N.land (h * a + b + 1) DIGEST_MASK) l 0.
Definition obs_bytes (b : list N) : tr :=
  if nlen b <=? 96 then Bs b
  else Nd [Nn 76; Nn (nlen b); Nn (digest 263 b); Nn (digest 1009 b)].
(* long inputs: [unpack len chunks], 15 bytes (big endian) to a chunk *)
Fixpoint be_bytes (n : nat) (v : N) (acc : list N) : list N :=
  match n with O => acc | S k => be_bytes k (v / 256) ((v mod 256) :: acc) end.
Fixpoint unpack_nat (rem : nat) (cs : list N) : list N :=
  match cs with
  | [] => []
  | c :: r => let k := Nat.min 15 rem in be_bytes k c [] ++ unpack_nat (rem - k) r
  end.
Definition unpack (len : N) (cs : list N) : list N := unpack_nat (N.to_nat len) cs.

(* a HashMap is observed as its pairs sorted by key *)
Fixpoint insert_pair (p : str * str) (l : list (str * str)) : list (str * str) :=
  match l with
  | [] => [p]
  | q :: r => if bytes_ltb (fst q) (fst p) then q :: insert_pair p r else p :: l
  end.
Definition sort_pairs (l : list (str * str)) : list (str * str) := fold_right insert_pair [] l.

Definition obs_dur (d : duration) : tr := Nd [Nn (d_secs d); Nn (d_nanos d)].
Definition obs_detail (d : error_detail) : tr :=
  let B := obs_bytes in
  match d with
  | DRetryInfo x => tag 0 [oopt obs_dur (ri_retry_delay x)]
  | DDebugInfo x => tag 1 [olist B (di_stack_entries x); B (di_detail x)]
  | DQuotaFailure x => tag 2 [olist (fun v => Nd [B (qv_subject v); B (qv_description v)]) (qf_violations x)]
  | DErrorInfo x =>
      tag 3 [B (ei_reason x); B (ei_domain x);
             olist (fun kv => Nd [B (fst kv); B (snd kv)]) (sort_pairs (ei_metadata x))]
  | DPreconditionFailure x =>
      tag 4 [olist (fun v => Nd [B (pv_type v); B (pv_subject v); B (pv_description v)]) (pf_violations x)]
  | DBadRequest x => tag 5 [olist (fun v => Nd [B (fv_field v); B (fv_description v)]) (br_field_violations x)]
  | DRequestInfo x => tag 6 [B (rq_request_id x); B (rq_serving_data x)]
  | DResourceInfo x =>
      tag 7 [B (rs_resource_type x); B (rs_resource_name x); B (rs_owner x); B (rs_description x)]
  | DHelp x => tag 8 [olist (fun v => Nd [B (hl_description v); B (hl_url v)]) (h_links x)]
  | DLocalizedMessage x => tag 9 [B (lm_locale x); B (lm_message x)]
  end.

(* references: [Nd [Nn 78; Nn i]] = "equal to item i of the list shown by check_error_details_vec",
   [Nd [Nn 79]] = "equal to the result shown just before" *)
Fixpoint index_first (t : tr) (l : list tr) (i : N) : option N :=
  match l with [] => None | x :: r => if tr_eqb x t then Some i else index_first t r (i + 1) end.
Fixpoint index_last (t : tr) (l : list tr) (i : N) (acc : option N) : option N :=
  match l with [] => acc | x :: r => index_last t r (i + 1) (if tr_eqb x t then Some i else acc) end.
Definition ref_first (items : list tr) (t : tr) : tr :=
  match index_first t items 0 with Some i => Nd [Nn 78; Nn i] | None => t end.
Definition ref_last (items : list tr) (t : tr) : tr :=
  match index_last t items 0 None with Some i => Nd [Nn 78; Nn i] | None => t end.
Definition same_or (prev t : tr) : tr := if tr_eqb prev t then Nd [Nn 79] else t.

Definition obs_ed (items : list tr) (ed : error_details) : tr :=
  let R := ref_last items in
  Nd [oopt (fun x => R (obs_detail (DRetryInfo x))) (ed_retry_info ed);
      oopt (fun x => R (obs_detail (DDebugInfo x))) (ed_debug_info ed);
      oopt (fun x => R (obs_detail (DQuotaFailure x))) (ed_quota_failure ed);
      oopt (fun x => R (obs_detail (DErrorInfo x))) (ed_error_info ed);
      oopt (fun x => R (obs_detail (DPreconditionFailure x))) (ed_precondition_failure ed);
      oopt (fun x => R (obs_detail (DBadRequest x))) (ed_bad_request ed);
      oopt (fun x => R (obs_detail (DRequestInfo x))) (ed_request_info ed);
      oopt (fun x => R (obs_detail (DResourceInfo x))) (ed_resource_info ed);
      oopt (fun x => R (obs_detail (DHelp x))) (ed_help ed);
      oopt (fun x => R (obs_detail (DLocalizedMessage x))) (ed_localized_message ed)].

(* the embedded google.rpc.Status: code (as u32), message, the type URL of every detail (a
   standard URL is shown as the number of its kind) *)
Definition kind_index (k : kind) : N :=
  match k with
  | KRetryInfo => 0 | KDebugInfo => 1 | KQuotaFailure => 2 | KErrorInfo => 3 | KPreconditionFailure => 4
  | KBadRequest => 5 | KRequestInfo => 6 | KResourceInfo => 7 | KHelp => 8 | KLocalizedMessage => 9
  end.
Definition obs_url (u : str) : tr :=
  match kind_of_url u with Some k => Nn (kind_index k) | None => obs_bytes u end.
Definition obs_embedded (ps : pb_status) : tr :=
  Nd [Nn (Z.to_N (ps_code ps mod Z.of_N U32)); obs_bytes (ps_message ps); olist obs_url (map fst (ps_details ps))].

(* everything the decode side of StatusExt says about a status: check_error_details_vec,
   get_error_details_vec, check_error_details, get_error_details, the ten get_details_*, and
   the embedded status.  (The six functions all start with the same pb::Status::decode, which
   is evaluated once here; Proofs/RichError.v, [obs_decode_spec], restates this observable
   with the functions themselves.) *)
Definition obs_decode (st : status) : tr :=
  let r := dec_status_c (st_details st) in
  let cv := bind r (rpc_check_error_details_vec dec_detail_c) in
  let cs := bind r (rpc_check_error_details dec_detail_c) in
  let items := match cv with Ok l => map obs_detail l | _ => [] end in
  let cv_t := obs_res (fun _ => Nd items) cv in
  let cs_t := obs_res (obs_ed items) cs in
  Nd [cv_t;
      same_or cv_t (obs_res (olist obs_detail) (unwrap_or [] cv));
      cs_t;
      same_or cs_t (obs_res (obs_ed items) (unwrap_or ed_empty cs));
      Nd (map (fun k => obs_res (oopt (fun d => ref_first items (obs_detail d)))
                          (match r with
                           | Ok ps => rpc_get_details dec_detail_c k (ps_details ps)
                           | Err => Ok None | Panic => Panic | Fuel => Fuel
                           end)) all_kinds);
      obs_res obs_embedded r].

(* a status is written to a header map, read back, and its details are decoded; the metadata that
   arrives with it (the user metadata given to with_error_details*_and_metadata, minus the reserved
   names) is part of the observable *)
Definition obs_via_headers (r : res status) : tr :=
  match r with
  | Ok st =>
      match to_header_map st with
      | None => Nd [Nn 1]
      | Some m =>
          match from_header_map m with
          | None => Nd [Nn 2]
          | Some st' =>
              let raw := obs_bytes (st_details st) in
              Nd [Nn 0; raw; Nn (st_code st'); obs_bytes (st_msg st');
                  same_or raw (obs_bytes (st_details st')); hm_canon (st_md st'); obs_decode st']
          end
      end
  | Err => Nd [Nn 3]
  | Panic => Nd [Nn 99]
  | Fuel => Nd [Nn 98]
  end.

Definition obs_set (code : N) (message : str) (ed : error_details) (md : hm) : tr :=
  obs_via_headers (with_error_details_c code message ed md).
Definition obs_vec (code : N) (message : str) (ds : list error_detail) (md : hm) : tr :=
  obs_via_headers (with_error_details_vec_c code message ds md).
(* an ErrorDetails built step by step through its public methods, then attached as a set *)
Definition obs_built (code : N) (message : str) (ops : list bop) (md : hm) : tr :=
  let ed := ed_build ops in
  Nd [olist obool (ed_has ed); obs_via_headers (with_error_details_c code message ed md)].
(* arbitrary bytes as details *)
Definition obs_hostile (code : N) (message : str) (details : list N) : tr :=
  obs_via_headers (Ok (mkStatus code message details [])).
Definition obs_hostile_direct (details : list N) : tr := obs_decode (mkStatus 2 [] details []).
