(* Model of tonic/src/service/interceptor.rs - InterceptedService (poll_ready, call),
   ResponseFuture (poll), ResponseBody (poll_frame, size_hint, is_end_stream), InterceptorLayer -
   with the pieces of request.rs (Request::from_http, into_parts, from_parts, into_http) and
   status.rs (Status::into_http) it goes through.  Extensions, request bodies, the inner
   service, its futures and its response bodies are abstract: the code moves them or delegates
   to them without looking inside, so they are interfaces (records of functions over a state). *)
From Verif Require Import Lib.Bytes Lib.Obs Lib.HeaderMap.
From Verif Require Import Gen.StatusTables Model.Status Model.Metadata.
Open Scope N_scope.

(* http::Request<B>: method, uri and version as opaque values (bytes / a number) *)
Record http_request (E B : Type) : Type := mkHttpReq {
  rq_method : list N; rq_uri : list N; rq_version : N; rq_headers : hm; rq_ext : E; rq_body : B }.
Arguments mkHttpReq {E B}.
Arguments rq_method {E B}. Arguments rq_uri {E B}. Arguments rq_version {E B}.
Arguments rq_headers {E B}. Arguments rq_ext {E B}. Arguments rq_body {E B}.

(* tonic::Request<T> *)
Record t_request (E T : Type) : Type := mkReq { tr_md : metadata; tr_ext : E; tr_msg : T }.
Arguments mkReq {E T}.
Arguments tr_md {E T}. Arguments tr_ext {E T}. Arguments tr_msg {E T}.

(* Request::from_http *)
Definition request_from_http {E B} (r : http_request E B) : t_request E B :=
  mkReq (from_headers (rq_headers r)) (rq_ext r) (rq_body r).
(* Request::into_http(uri, method, version, sanitize_headers) *)
Definition request_into_http {E B} (r : t_request E B) (uri method : list N) (version : N)
    (sanitize_yes : bool) : http_request E B :=
  mkHttpReq method uri version (request_headers sanitize_yes (tr_md r)) (tr_ext r) (tr_msg r).

(* ------------------------------------------------------------------ interfaces *)
(* std::task::Poll *)
Inductive poll (A : Type) : Type := PPending | PReady (a : A).
Arguments PPending {A}.
Arguments PReady {A} a.
Definition poll_map {A B} (f : A -> B) (p : poll A) : poll B :=
  match p with PPending => PPending | PReady a => PReady (f a) end.

(* a Future over a state Fut: one poll gives a result and the next state *)
Definition fut_impl (Fut Out : Type) : Type := Fut -> poll Out * Fut.

(* http_body::Body over a state RB.  poll_frame: Pending / None / Some(Ok(frame)) / Some(Err);
   size_hint: (lower, upper) *)
Inductive pf (F Er : Type) : Type := PfPending | PfNone | PfFrame (f : F) | PfErr (e : Er).
Arguments PfPending {F Er}.
Arguments PfNone {F Er}.
Arguments PfFrame {F Er} f.
Arguments PfErr {F Er} e.
Definition size_hint : Type := (N * option N)%type.
Record body_impl (RB F Er : Type) : Type := mkBodyImpl {
  bi_poll : RB -> pf F Er * RB; bi_end : RB -> bool; bi_hint : RB -> size_hint }.
Arguments mkBodyImpl {RB F Er}.
Arguments bi_poll {RB F Er}. Arguments bi_end {RB F Er}. Arguments bi_hint {RB F Er}.

(* tower_service::Service over a state S.  poll_ready: Pending / Ready(Ok(())) = PReady (inl tt)
   / Ready(Err e) = PReady (inr e); call hands out a future *)
Record svc_impl (S Rq Err Fut : Type) : Type := mkSvc {
  sv_ready : S -> poll (unit + Err) * S; sv_call : S -> Rq -> Fut * S }.
Arguments mkSvc {S Rq Err Fut}.
Arguments sv_ready {S Rq Err Fut}. Arguments sv_call {S Rq Err Fut}.

(* ------------------------------------------------------------------ ResponseBody<B> *)
(* enum ResponseBodyKind { Empty, Wrap(B) } and its http_body::Body impl *)
Inductive response_body (RB : Type) : Type := RbEmpty | RbWrap (b : RB).
Arguments RbEmpty {RB}.
Arguments RbWrap {RB} b.
Definition rb_poll_frame {RB F Er} (bi : body_impl RB F Er) (b : response_body RB)
    : pf F Er * response_body RB :=
  match b with
  | RbEmpty => (PfNone, RbEmpty)
  | RbWrap x => let '(r, x') := bi_poll bi x in (r, RbWrap x')
  end.
Definition rb_size_hint {RB F Er} (bi : body_impl RB F Er) (b : response_body RB) : size_hint :=
  match b with RbEmpty => (0, Some 0) (* SizeHint::with_exact(0) *) | RbWrap x => bi_hint bi x end.
Definition rb_is_end_stream {RB F Er} (bi : body_impl RB F Er) (b : response_body RB) : bool :=
  match b with RbEmpty => true | RbWrap x => bi_end bi x end.
Definition rb_impl {RB F Er} (bi : body_impl RB F Er) : body_impl (response_body RB) F Er :=
  mkBodyImpl (rb_poll_frame bi) (rb_is_end_stream bi) (rb_size_hint bi).

(* what a user of a body can do with it, in any order *)
Inductive bop : Type := BPoll | BEnd | BHint.
Inductive bobs (F Er : Type) : Type := OPoll (r : pf F Er) | OEnd (b : bool) | OHint (h : size_hint).
Arguments OPoll {F Er} r.
Arguments OEnd {F Er} b.
Arguments OHint {F Er} h.
Fixpoint body_run {RB F Er} (bi : body_impl RB F Er) (b : RB) (ops : list bop) : list (bobs F Er) :=
  match ops with
  | [] => []
  | BPoll :: r => let '(x, b') := bi_poll bi b in OPoll x :: body_run bi b' r
  | BEnd :: r => OEnd (bi_end bi b) :: body_run bi b r
  | BHint :: r => OHint (bi_hint bi b) :: body_run bi b r
  end.

(* ------------------------------------------------------------------ responses *)
(* what the caller of the intercepted service gets back: the inner service's error, or a
   response whose head is the inner service's (any type P) or the one Status::into_http builds *)
Inductive resp_head (P : Type) : Type :=
| HInner (p : P)
| HStatus (code version : N) (headers : hm).
Arguments HInner {P} p.
Arguments HStatus {P} code version headers.
Definition http_response (P RB : Type) : Type := (resp_head P * response_body RB)%type.

Definition HTTP_200 : N := 200.
Definition HTTP_11 : N := 11.      (* http::Response::new leaves the default version HTTP/1.1 *)

(* http::HeaderMap holds at most 24576 distinct names (MAX_SIZE = 32768 slots at a load factor
   of 3/4); HeaderMap::extend / insert beyond that panic ("size overflows MAX_SIZE").  Repeated
   values of one name live in a side table and are not limited.  Status::add_header adds names
   (extend, insert) and only at its very end - for a status WITHOUT details, fix ed827503 of
   finding F-C04e - removes one, grpc-status-details-bin; a removal cannot panic.  So it panics
   iff the map as it was BEFORE that removal would hold more names than that: the names of the
   finished map plus the one removed, if the custom metadata had an entry of that name. *)
Definition HEADER_MAP_MAX_NAMES : N := 24576.
Definition names_count (m : hm) : N := N.of_nat (length (sorted_keys m)).
Definition removed_names (st : status) : N :=
  match st_details st with
  | [] => if hm_contains (st_md st) hdr_grpc_status_details then 1 else 0
  | _ => 0
  end.
(* Status::into_http::<()>(): Response::new, insert content-type, add_header(..).unwrap() *)
Definition status_into_http (st : status) : res hm :=
  match status_into_http_headers st with
  | Val h => if HEADER_MAP_MAX_NAMES <? names_count h + removed_names st then Panic else Val h
  | Panic => Panic
  end.

(* ------------------------------------------------------------------ ResponseFuture<F> *)
(* enum Kind { Future(F), Status(Option<Status>) } *)
Inductive rf_kind (Fut : Type) : Type := KFuture (f : Fut) | KStatus (s : option status).
Arguments KFuture {Fut} f.
Arguments KStatus {Fut} s.
Definition response_future_future {Fut} (f : Fut) : rf_kind Fut := KFuture f.
Definition response_future_status {Fut} (st : status) : rf_kind Fut := KStatus (Some st).

(* map_ok(|res| res.map(ResponseBody::wrap)) *)
Definition wrap_inner {Err P RB} (r : Err + (P * RB)) : Err + http_response P RB :=
  match r with
  | inl e => inl e
  | inr (p, b) => inr (HInner p, RbWrap b)
  end.

(* ResponseFuture::poll *)
Definition rf_poll {Fut Err P RB} (fp : fut_impl Fut (Err + (P * RB))) (k : rf_kind Fut)
    : res (poll (Err + http_response P RB)) * rf_kind Fut :=
  match k with
  | KFuture f => let '(r, f') := fp f in (Val (poll_map wrap_inner r), KFuture f')
  | KStatus s =>
      (* status.take().unwrap().into_http::<()>() *)
      match s with
      | None => (Panic, KStatus None)
      | Some st =>
          match status_into_http st with
          | Val h => (Val (PReady (inr (HStatus HTTP_200 HTTP_11 h, RbEmpty))), KStatus None)
          | Panic => (Panic, KStatus None)
          end
      end
  end.
(* poll a future [n] times, whatever it answers *)
Fixpoint fut_run {Fut Out} (fp : fut_impl Fut Out) (f : Fut) (n : nat) : list (poll Out) :=
  match n with
  | O => []
  | S n' => let '(r, f') := fp f in r :: fut_run fp f' n'
  end.
Fixpoint rf_run {Fut Err P RB} (fp : fut_impl Fut (Err + (P * RB))) (k : rf_kind Fut) (n : nat)
    : list (res (poll (Err + http_response P RB))) :=
  match n with
  | O => []
  | S n' => let '(r, k') := rf_poll fp k in r :: rf_run fp k' n'
  end.

(* ------------------------------------------------------------------ InterceptedService<S, I> *)
(* trait Interceptor { fn call(&mut self, Request<()>) -> Result<Request<()>, Status> }: any
   FnMut, so a function of its own state IS *)
Definition interceptor (IS E : Type) : Type :=
  IS -> t_request E unit -> (t_request E unit + status) * IS.

(* Service::poll_ready: self.inner.poll_ready(cx) *)
Definition intercepted_poll_ready {IS SS Rq Err Fut} (inner : svc_impl SS Rq Err Fut) (s : IS * SS)
    : poll (unit + Err) * (IS * SS) :=
  let '(r, ss') := sv_ready inner (snd s) in (r, (fst s, ss')).

(* Service::call *)
Definition intercepted_call {IS SS E B Err Fut} (f : interceptor IS E)
    (inner : svc_impl SS (http_request E B) Err Fut) (s : IS * SS) (req : http_request E B)
    : rf_kind Fut * (IS * SS) :=
  let uri := rq_uri req in
  let method := rq_method req in
  let version := rq_version req in
  let r := request_from_http req in
  let metadata := tr_md r in
  let extensions := tr_ext r in
  let msg := tr_msg r in
  let '(out, is') := f (fst s) (mkReq metadata extensions tt) in
  match out with
  | inl r' =>
      let req' := request_into_http (mkReq (tr_md r') (tr_ext r') msg) uri method version false in
      let '(fut, ss') := sv_call inner (snd s) req' in
      (response_future_future fut, (is', ss'))
  | inr st => (response_future_status st, (is', snd s))
  end.

(* InterceptedService::new / InterceptorLayer::layer: the wrapped service is a Service again *)
Definition intercepted_service {IS SS E B Err Fut} (f : interceptor IS E)
    (inner : svc_impl SS (http_request E B) Err Fut)
    : svc_impl (IS * SS) (http_request E B) Err (rf_kind Fut) :=
  mkSvc (intercepted_poll_ready inner) (intercepted_call f inner).

(* any sequence of uses of a Service *)
Inductive sop (Rq : Type) : Type := SReady | SCall (rq : Rq).
Arguments SReady {Rq}.
Arguments SCall {Rq} rq.
Inductive sres (Err Fut : Type) : Type := RReady (r : poll (unit + Err)) | RCall (f : Fut).
Arguments RReady {Err Fut} r.
Arguments RCall {Err Fut} f.
Fixpoint svc_run {S Rq Err Fut} (sv : svc_impl S Rq Err Fut) (s : S) (ops : list (sop Rq))
    : list (sres Err Fut) * S :=
  match ops with
  | [] => ([], s)
  | SReady :: r =>
      let '(x, s') := sv_ready sv s in
      let '(l, s'') := svc_run sv s' r in (RReady x :: l, s'')
  | SCall rq :: r =>
      let '(fu, s') := sv_call sv s rq in
      let '(l, s'') := svc_run sv s' r in (RCall fu :: l, s'')
  end.

(* what the interceptor alone decides about a sequence of uses: a poll_ready is passed on, a
   call is passed on with the rebuilt request or answered with the status *)
Inductive verdict (E B : Type) : Type :=
| VReady | VAccept (req' : http_request E B) | VReject (st : status).
Arguments VReady {E B}.
Arguments VAccept {E B} req'.
Arguments VReject {E B} st.
Fixpoint verdicts {IS E B} (f : interceptor IS E) (is : IS) (ops : list (sop (http_request E B)))
    : list (verdict E B) * IS :=
  match ops with
  | [] => ([], is)
  | SReady :: r => let '(l, is') := verdicts f is r in (VReady :: l, is')
  | SCall req :: r =>
      let '(out, is1) := f is (mkReq (from_headers (rq_headers req)) (rq_ext req) tt) in
      let v := match out with
               | inl r' => VAccept (mkHttpReq (rq_method req) (rq_uri req) (rq_version req)
                                              (into_headers (tr_md r')) (tr_ext r') (rq_body req))
               | inr st => VReject st
               end in
      let '(l, is') := verdicts f is1 r in (v :: l, is')
  end.
(* the uses of the inner service that result: a rejected call is absent *)
Fixpoint inner_ops {E B} (vs : list (verdict E B)) : list (sop (http_request E B)) :=
  match vs with
  | [] => []
  | VReady :: r => SReady :: inner_ops r
  | VAccept q :: r => SCall q :: inner_ops r
  | VReject _ :: r => inner_ops r
  end.
(* the caller's results, given the inner service's *)
Fixpoint outer_results {E B Err Fut} (vs : list (verdict E B)) (ir : list (sres Err Fut))
    : list (sres Err (rf_kind Fut)) :=
  match vs with
  | [] => []
  | VReject st :: r => RCall (response_future_status st) :: outer_results r ir
  | _ :: r =>
      match ir with
      | RReady x :: ir' => RReady x :: outer_results r ir'
      | RCall fu :: ir' => RCall (response_future_future fu) :: outer_results r ir'
      | [] => []
      end
  end.

(* ------------------------------------------------------------------ scripted interceptors *)
(* the harness describes an interceptor by what it does: start from the incoming metadata or
   from an empty map, apply typed-API mutations (Model/Metadata.v apply_op), optionally replace
   the extensions, optionally reject *)
Record action (E : Type) : Type := mkAction {
  a_fresh : bool; a_ops : list (N * (list N * list N)); a_ext : option E; a_reject : option status }.
Arguments mkAction {E}.
Arguments a_fresh {E}. Arguments a_ops {E}. Arguments a_ext {E}. Arguments a_reject {E}.

Definition act_apply {E} (a : action E) (r : t_request E unit) : t_request E unit + status :=
  match a_reject a with
  | Some st => inr st
  | None =>
      let md := fold_left apply_op (a_ops a) (if a_fresh a then [] else tr_md r) in
      let ext := match a_ext a with Some e => e | None => tr_ext r end in
      inl (mkReq md ext tt)
  end.
Definition act_identity {E} : action E := mkAction false [] None None.
(* an FnMut interceptor with a call counter: the n-th call (from 0) performs action n mod len *)
Definition interceptor_of {E} (acts : list (action E)) : interceptor N E := fun n r =>
  (act_apply (nth (N.to_nat (n mod N.of_nat (length acts))) acts act_identity) r, n + 1).

(* ------------------------------------------------------------------ the harness's inner service *)
(* extensions = (marker, tag), request body = bytes *)
Definition ext_t : Type := option N * option (list N).
Definition hreq : Type := http_request ext_t (list N).

(* scripted response body: steps (is_end_stream, size_hint, what poll_frame answers) consumed
   one per poll_frame - the first two are what the body reports while the step is at the head -
   and the (is_end_stream, size_hint) it reports once the script is exhausted (poll_frame: None).
   Frames: inl data / inr trailers; event tag 0 = Pending, 1 = frame, 2 = Err *)
Definition sframe : Type := (list N + hm)%type.
Definition sstep : Type := (bool * size_hint * (N * (sframe * list N)))%type.
Definition script_body : Type := (list sstep * (bool * size_hint))%type.
Definition script_poll (b : script_body) : pf sframe (list N) * script_body :=
  match fst b with
  | [] => (PfNone, b)
  | (_, _, (t, (fr, e))) :: r =>
      ((if t =? 0 then PfPending else if t =? 1 then PfFrame fr else PfErr e), (r, snd b))
  end.
Definition script_end (b : script_body) : bool :=
  match fst b with [] => fst (snd b) | (e, _, _) :: _ => e end.
Definition script_hint (b : script_body) : size_hint :=
  match fst b with [] => snd (snd b) | (_, h, _) :: _ => h end.
Definition script_bi : body_impl script_body sframe (list N) := mkBodyImpl script_poll script_end script_hint.

(* the inner answer: Err(text) or (status code, headers) with a scripted body; its future is
   Pending [n] times first *)
Definition inner_answer : Type := (list N + ((N * hm) * script_body))%type.
Definition sfut : Type := (N * inner_answer)%type.
Definition sfut_poll : fut_impl sfut inner_answer := fun f =>
  if fst f =? 0 then (PReady (snd f), f) else (PPending, (fst f - 1, snd f)).

(* the recording service: a poll_ready script ((0,_) Pending, (1,_) Ready(Ok), (2,e) Ready(Err e);
   Ready(Ok) once exhausted) and the log of everything it was asked *)
Inductive rec_entry : Type := LReady | LCall (r : hreq).
Definition rec_state : Type := (list (N * list N) * list rec_entry)%type.
Definition rec_ready (s : rec_state) : poll (unit + list N) * rec_state :=
  let log := snd s ++ [LReady] in
  match fst s with
  | [] => (PReady (inl tt), ([], log))
  | (t, e) :: r => ((if t =? 0 then PPending else if t =? 1 then PReady (inl tt) else PReady (inr e)), (r, log))
  end.
Definition rec_call (pend : N) (ans : inner_answer) (s : rec_state) (r : hreq) : sfut * rec_state :=
  ((pend, ans), (fst s, snd s ++ [LCall r])).
Definition rec_svc (pend : N) (ans : inner_answer) : svc_impl rec_state hreq (list N) sfut :=
  mkSvc rec_ready (rec_call pend ans).

(* ------------------------------------------------------------------ observables *)
Definition ext_obs (e : ext_t) : tr := Nd [oopt Nn (fst e); oopt Bs (snd e)].
Definition req_obs (r : hreq) : tr :=
  Nd [Bs (rq_method r); Bs (rq_uri r); Nn (rq_version r); hm_canon (rq_headers r);
      ext_obs (rq_ext r); Bs (rq_body r)].
Definition entry_obs (e : rec_entry) : tr :=
  match e with LReady => Nd [Nn 0] | LCall r => Nd [Nn 1; req_obs r] end.
Definition ready_obs (p : poll (unit + list N)) : tr :=
  match p with
  | PPending => Nd [Nn 0]
  | PReady (inl _) => Nd [Nn 1]
  | PReady (inr e) => Nd [Nn 2; Bs e]
  end.
Definition hint_obs (h : size_hint) : tr := Nd [Nn (fst h); oopt Nn (snd h)].
Definition pf_obs (r : pf sframe (list N)) : tr :=
  match r with
  | PfPending => Nd [Nn 0]
  | PfNone => Nd [Nn 1]
  | PfFrame (inl d) => Nd [Nn 2; Bs d]
  | PfFrame (inr t) => Nd [Nn 3; hm_canon t]
  | PfErr e => Nd [Nn 4; Bs e]
  end.
Definition bobs_obs (o : bobs sframe (list N)) : tr :=
  match o with
  | OPoll r => pf_obs r
  | OEnd b => Nd [Nn 5; obool b]
  | OHint h => Nd [Nn 6; hint_obs h]
  end.
Definition bop_of (n : N) : bop := if n =? 0 then BPoll else if n =? 1 then BEnd else BHint.
Definition body_obs (bops : list N) (b : response_body script_body) : tr :=
  olist bobs_obs (body_run (rb_impl script_bi) b (map bop_of bops)).

(* one poll of a ResponseFuture as the caller sees it; the body of a ready response is then
   used according to [bops] *)
Definition poll_obs (bops : list N) (r : res (poll (list N + http_response (N * hm) script_body))) : tr :=
  match r with
  | Panic => Nd [Nn 99]
  | Val PPending => Nd [Nn 0]
  | Val (PReady (inl e)) => Nd [Nn 3; Bs e]
  | Val (PReady (inr (HInner (c, h), b))) => Nd [Nn 1; Nn c; hm_canon h; body_obs bops b]
  | Val (PReady (inr (HStatus c v h, b))) =>
      Nd [Nn 2; Nn c; Nn v; hm_canon h; oopt status_obs (from_header_map h); body_obs bops b]
  end.

(* a case: the interceptor's actions, the recorder's poll_ready script, the inner future's
   number of Pendings and answer, how often the returned future is polled (accepted / rejected
   call) and how the response body is used; then the uses of the service (None = poll_ready) *)
Record cfg : Type := mkCfg {
  c_ready : list (N * list N); c_pend : N; c_answer : inner_answer;
  c_polls_acc : N; c_polls_rej : N; c_bops : list N }.
Definition sres_obs (c : cfg) (r : sres (list N) (rf_kind sfut)) : tr :=
  match r with
  | RReady p => Nd [Nn 0; ready_obs p]
  | RCall k =>
      let n := match k with KFuture _ => c_polls_acc c | KStatus _ => c_polls_rej c end in
      Nd [Nn 1; olist (poll_obs (c_bops c)) (rf_run sfut_poll k (N.to_nat n))]
  end.
Definition sop_of (o : option hreq) : sop hreq := match o with None => SReady | Some r => SCall r end.
Definition obs_seq (acts : list (action ext_t)) (c : cfg) (ops : list (option hreq)) : tr :=
  let '(results, (_, (_, log))) :=
    svc_run (intercepted_service (interceptor_of acts) (rec_svc (c_pend c) (c_answer c)))
            (0, (c_ready c, [])) (map sop_of ops) in
  Nd [ olist (sres_obs c) results; olist entry_obs log ].

(* header-map capacity: a status whose metadata is [n] distinct names (ascending, so that
   sorted_keys is linear on it); the observable keeps only the size of the header map *)
Definition cap_name (i : N) : list N :=
  [107; 97 + (i / 17576) mod 26; 97 + (i / 676) mod 26; 97 + (i / 26) mod 26; 97 + i mod 26].
Fixpoint cap_md_from (n : nat) (i : N) : hm :=
  match n with O => [] | S k => (cap_name i, [118]) :: cap_md_from k (i + 1) end.
Definition cap_md (n : N) : hm := cap_md_from (N.to_nat n) 0.
Definition obs_cap (n code : N) (msg details : list N) (polls : N) : tr :=
  let st := mkStatus code msg details (cap_md n) in
  let '(k, _) := intercepted_call (interceptor_of [mkAction false [] None (Some st)])
                                  (rec_svc 0 (inl [])) (0, ([], [])) (mkHttpReq [] [] 11 [] (None, None) []) in
  olist (fun r => match r with
                  | Panic => Nd [Nn 99]
                  | Val (PReady (inr (HStatus c v h, RbEmpty))) =>
                      Nd [Nn 2; Nn c; Nn v; Nn (names_count h); Nn (N.of_nat (length h))]
                  | _ => Nd [Nn 98]
                  end)
        (rf_run sfut_poll k (N.to_nat polls)).
