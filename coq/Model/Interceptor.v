(* Model of tonic/src/service/interceptor.rs (InterceptedService::call, ResponseFuture::poll)
   with the pieces of request.rs (Request::from_http, into_http) and status.rs
   (Status::into_http) it goes through.  Extensions, bodies and the inner service's response
   are abstract types: the code moves them without looking inside. *)
From Verif Require Import Lib.Bytes Lib.Obs Lib.HeaderMap.
From Verif Require Import Gen.StatusTables Model.Status Model.Metadata.
Open Scope N_scope.

(* http::Request<B>: method, uri and version as opaque values (bytes / a number) *)
Record http_request (E B : Type) : Type := mkHttpReq {
  rq_method : list N; rq_uri : list N; rq_version : N; rq_headers : hm; rq_ext : E; rq_body : B }.
Arguments mkHttpReq {E B}.
Arguments rq_method {E B}. Arguments rq_uri {E B}. Arguments rq_version {E B}.
Arguments rq_headers {E B}. Arguments rq_ext {E B}. Arguments rq_body {E B}.

(* tonic::Request<T> *)
Record t_request (E T : Type) : Type := mkReq { tr_md : metadata; tr_ext : E; tr_msg : T }.
Arguments mkReq {E T}.
Arguments tr_md {E T}. Arguments tr_ext {E T}. Arguments tr_msg {E T}.

(* Request::from_http *)
Definition request_from_http {E B} (r : http_request E B) : t_request E B :=
  mkReq (from_headers (rq_headers r)) (rq_ext r) (rq_body r).
(* Request::into_http(uri, method, version, sanitize_headers) *)
Definition request_into_http {E B} (r : t_request E B) (uri method : list N) (version : N)
    (sanitize_yes : bool) : http_request E B :=
  mkHttpReq method uri version (request_headers sanitize_yes (tr_md r)) (tr_ext r) (tr_msg r).

(* interceptor.rs ResponseBody<B>: Empty | Wrap(B), with its http_body::Body impl:
   poll_frame (here: the frames obtained by polling until None), is_end_stream, size_hint.
   For Wrap they are the inner body's, given by the [inner_*] functions. *)
Inductive response_body (RB : Type) : Type := RbEmpty | RbWrap (b : RB).
Arguments RbEmpty {RB}.
Arguments RbWrap {RB} b.
Definition rb_frames {RB F} (inner_frames : RB -> list F) (b : response_body RB) : list F :=
  match b with RbEmpty => [] | RbWrap x => inner_frames x end.
Definition rb_is_end_stream {RB} (inner_end : RB -> bool) (b : response_body RB) : bool :=
  match b with RbEmpty => true | RbWrap x => inner_end x end.
(* size_hint().exact() *)
Definition rb_size_exact {RB} (inner_size : RB -> option N) (b : response_body RB) : option N :=
  match b with RbEmpty => Some 0 | RbWrap x => inner_size x end.

(* what the caller of the intercepted service gets back: the inner service's error, or a
   response whose head is the inner service's (any type P) or the one Status::into_http builds *)
Inductive resp_head (P : Type) : Type :=
| HInner (p : P)
| HStatus (code version : N) (headers : hm).
Arguments HInner {P} p.
Arguments HStatus {P} code version headers.
Definition http_response (P RB : Type) : Type := (resp_head P * response_body RB)%type.

Definition HTTP_200 : N := 200.
Definition HTTP_11 : N := 11.      (* http::Response::new leaves the default version HTTP/1.1 *)

(* an interceptor is any function Request<()> -> Result<Request<()>, Status> *)
Definition interceptor (E : Type) : Type := t_request E unit -> t_request E unit + status.

(* ResponseFuture::poll, Kind::Future: map_ok(|res| res.map(ResponseBody::wrap)) *)
Definition wrap_inner {Err P RB} (r : Err + (P * RB)) : Err + http_response P RB :=
  match r with
  | inl e => inl e
  | inr (p, b) => inr (HInner p, RbWrap b)
  end.

(* InterceptedService::call followed by ResponseFuture::poll.  The first component is the list
   of requests handed to the inner service (its call count is the length of that list). *)
Definition intercepted_call {E B Err P RB} (f : interceptor E) (inner : http_request E B -> Err + (P * RB))
    (req : http_request E B) : list (http_request E B) * res (Err + http_response P RB) :=
  let uri := rq_uri req in
  let method := rq_method req in
  let version := rq_version req in
  let r := request_from_http req in
  let metadata := tr_md r in
  let extensions := tr_ext r in
  let msg := tr_msg r in
  match f (mkReq metadata extensions tt) with
  | inl r' =>
      let req' := request_into_http (mkReq (tr_md r') (tr_ext r') msg) uri method version false in
      ([req'], Val (wrap_inner (inner req')))
  | inr st =>
      (* Kind::Status: status.into_http::<()>() parts + ResponseBody::empty() *)
      ([], match status_into_http_headers st with
           | Val h => Val (inr (HStatus HTTP_200 HTTP_11 h, RbEmpty))
           | Panic => Panic
           end)
  end.

(* ------------------------------------------------------------------ scripted interceptors *)
(* the harness describes an interceptor by what it does: start from the incoming metadata or
   from an empty map, apply typed-API mutations (Model/Metadata.v apply_op), optionally replace
   the extensions, optionally reject *)
Record action (E : Type) : Type := mkAction {
  a_fresh : bool; a_ops : list (N * (list N * list N)); a_ext : option E; a_reject : option status }.
Arguments mkAction {E}.
Arguments a_fresh {E}. Arguments a_ops {E}. Arguments a_ext {E}. Arguments a_reject {E}.

Definition interceptor_of {E} (a : action E) : interceptor E := fun r =>
  match a_reject a with
  | Some st => inr st
  | None =>
      let md := fold_left apply_op (a_ops a) (if a_fresh a then [] else tr_md r) in
      let ext := match a_ext a with Some e => e | None => tr_ext r end in
      inl (mkReq md ext tt)
  end.

(* ------------------------------------------------------------------ observables *)
(* harness instantiation: extensions = (marker, tag), body = bytes, inner response =
   (status, headers, body) *)
Definition ext_t : Type := option N * option (list N).
Definition ext_obs (e : ext_t) : tr := Nd [oopt Nn (fst e); oopt Bs (snd e)].
Definition req_obs (r : http_request ext_t (list N)) : tr :=
  Nd [Bs (rq_method r); Bs (rq_uri r); Nn (rq_version r); hm_canon (rq_headers r);
      ext_obs (rq_ext r); Bs (rq_body r)].
(* the inner answer of a case: code 0 = Err(text), otherwise status, headers, and a scripted
   body (data, optional trailers) whose is_end_stream / size_hint are http_body's defaults *)
Definition inner_resp : Type := N * (hm * (list N * option hm)).
Definition script_body : Type := (list N * option hm)%type.
Definition inner_of (resp : inner_resp) : list N + ((N * hm) * script_body) :=
  let '(c, (h, (d, t))) := resp in
  if c =? 0 then inl d else inr ((c, h), (d, t)).
Definition body_obs (b : response_body script_body) : tr :=
  Nd [ Nd (rb_frames (fun x : script_body => [Nd [Bs (fst x); oopt hm_canon (snd x)]]) b);
       obool (rb_is_end_stream (fun _ => false) b);
       oopt Nn (rb_size_exact (fun _ => None) b) ].

Definition obs_intercept (a : action ext_t) (resp : inner_resp) (req : http_request ext_t (list N)) : tr :=
  let '(calls, out) := intercepted_call (interceptor_of a) (fun _ => inner_of resp) req in
  Nd [ olist req_obs calls;
       match out with
       | Panic => Nd [Nn 99]
       | Val (inl e) => Nd [Nn 3; Bs e]
       | Val (inr (HInner (c, h), b)) => Nd [Nn 1; Nn c; hm_canon h; body_obs b]
       | Val (inr (HStatus c v h, b)) =>
           Nd [Nn 2; Nn c; Nn v; hm_canon h; oopt status_obs (from_header_map h); body_obs b]
       end ].
