(* Generic protobuf wire model (layer B of C20), mirroring prost 0.13 `encoding.rs` and the
   `Message` impl that prost-derive generates: varint, key = field << 3 | wire type,
   length-delimited values, groups (only ever skipped), the recursion limit of `DecodeContext`,
   proto3 default omission, and - second half of the file - the codec of a message type as a
   function of its table of (field name, tag, kind): fields encoded in tag order, the merge of
   singular / repeated / optional-message / repeated-message / map fields, defaults.

   The implementation decodes in one streaming pass; the model first cuts a buffer into
   (field number, wire value) tokens ([parse], which is prost's `decode_key` + `skip_field` /
   the wire-level half of every `merge`) and the message decoders then fold prost's
   `merge_field` over the tokens.  Any failure anywhere makes `Message::decode` return `Err`,
   and error texts are not observable, so the two passes commute.  A nested message is given
   to its decoder as the exact slice announced by its length prefix (prost reads it in place
   and afterwards rejects with "delimited length exceeded" whatever over-ran the slice:
   the same inputs fail).

   No proofs in this file. *)
From Verif Require Import Lib.Bytes Lib.Utf8.
Open Scope N_scope.

(* ---- outcomes -------------------------------------------------------------------------- *)
(* Ok / Err are the two results of the Rust functions; [Panic] marks a reachable-looking panic
   site (unwrap, expect, debug_assert, overflow in Duration::new); [Fuel] is the running out
   of the explicit fuel of the two wire-level loops.  The theorems exclude both. *)
Inductive res (A : Type) : Type := Ok (a : A) | Err | Panic | Fuel.
Arguments Ok {A} a.
Arguments Err {A}.
Arguments Panic {A}.
Arguments Fuel {A}.

Definition bind {A B} (r : res A) (f : A -> res B) : res B :=
  match r with Ok a => f a | Err => Err | Panic => Panic | Fuel => Fuel end.

Definition of_opt {A} (o : option A) : res A := match o with Some a => Ok a | None => Err end.

Fixpoint fold_res {S T} (f : S -> T -> res S) (l : list T) (s : S) : res S :=
  match l with
  | [] => Ok s
  | x :: r => match f s x with Ok s' => fold_res f r s' | Err => Err | Panic => Panic | Fuel => Fuel end
  end.

Fixpoint map_res {A B} (f : A -> res B) (l : list A) : res (list B) :=
  match l with
  | [] => Ok []
  | x :: r => match f x with
              | Ok y => match map_res f r with Ok ys => Ok (y :: ys) | Err => Err | Panic => Panic | Fuel => Fuel end
              | Err => Err | Panic => Panic | Fuel => Fuel
              end
  end.

Definition U64 : N := 18446744073709551616.      (* 2^64 *)
Definition U63 : N := 9223372036854775808.       (* 2^63 *)
Definition U32 : N := 4294967296.                (* 2^32 *)
Definition U31 : N := 2147483648.                (* 2^31 *)
Definition MAX_TAG : N := 536870911.             (* (1 << 29) - 1 *)

(* ---- varint (encoding/varint.rs) --------------------------------------------------------- *)
(* encode_varint: at most ten groups of seven bits, least significant first *)
Fixpoint encode_varint_n (count : nat) (v : N) : list N :=
  match count with
  | O => []
  | S c => if v <? 128 then [v] else (v mod 128 + 128) :: encode_varint_n c (v / 128)
  end.
Definition encode_varint (v : N) : list N := encode_varint_n 10 v.

(* decode_varint (fast and slow path agree): at most ten bytes, the tenth must be 0 or 1;
   an exhausted buffer or an eleventh byte is "invalid varint".  [m] = 2^(7 * bytes read). *)
Fixpoint decode_varint_n (count : nat) (m : N) (acc : N) (buf : list N) : option (N * list N) :=
  match count with
  | O => None
  | S c =>
      match buf with
      | [] => None
      | b :: r =>
          let acc' := acc + (b mod 128) * m in
          if b <? 128 then
            match c with
            | O => if 2 <=? b then None else Some (acc', r)
            | S _ => Some (acc', r)
            end
          else decode_varint_n c (m * 128) acc' r
      end
  end.
Definition decode_varint (buf : list N) : option (N * list N) := decode_varint_n 10 1 0 buf.

(* ---- keys (encoding.rs: encode_key / decode_key) ----------------------------------------- *)
Definition encode_key (tag wt : N) : list N := encode_varint (tag * 8 + wt).

(* wire types: 0 varint, 1 64-bit, 2 length-delimited, 3 start group, 4 end group, 5 32-bit *)
Definition decode_key (buf : list N) : option (N * N * list N) :=
  match decode_varint buf with
  | None => None
  | Some (key, r) =>
      if U32 <=? key then None                       (* "invalid key value" *)
      else if 5 <? key mod 8 then None               (* "invalid wire type value" *)
      else if key / 8 <? 1 then None                 (* "invalid tag value: 0" *)
      else Some (key / 8, key mod 8, r)
  end.

(* [take n buf]: the next n bytes, "buffer underflow" if there are fewer *)
Definition take (n : N) (buf : list N) : option (list N * list N) :=
  if n <=? nlen buf then Some (firstn (N.to_nat n) buf, skipn (N.to_nat n) buf) else None.

(* ---- tokens ------------------------------------------------------------------------------ *)
Inductive wval : Type :=
| WVar (n : N)            (* wire type 0 *)
| W64 (b : list N)        (* wire type 1 *)
| WLen (b : list N)       (* wire type 2 *)
| WGrp                    (* wire type 3 ... 4: a skipped group, content dropped *)
| W32 (b : list N).       (* wire type 5 *)
Definition field : Type := (N * wval)%type.

Definition read_scalar (wt : N) (buf : list N) : option (wval * list N) :=
  if wt =? 0 then
    match decode_varint buf with Some (v, r) => Some (WVar v, r) | None => None end
  else if wt =? 1 then
    match take 8 buf with Some (b, r) => Some (W64 b, r) | None => None end
  else if wt =? 2 then
    match decode_varint buf with
    | Some (n, r) => match take n r with Some (b, r') => Some (WLen b, r') | None => None end
    | None => None
    end
  else if wt =? 5 then
    match take 4 buf with Some (b, r) => Some (W32 b, r) | None => None end
  else None.

(* skip_field on a StartGroup, with its recursion made an explicit stack of open group tags.
   [d] is the recurse_count of the context handed to the fields of the innermost open group
   (`ctx.enter_recursion()`); every skip_field starts with `ctx.limit_reached()?`.
   Each step consumes at least the key, so [S (length buf)] is enough fuel. *)
Fixpoint skip_group (fuel : nat) (stack : list N) (d : nat) (buf : list N) : res (list N) :=
  match stack with
  | [] => Ok buf
  | t :: st =>
      match fuel with
      | O => Fuel
      | S f =>
          match decode_key buf with
          | None => Err
          | Some (tag, wt, r) =>
              if wt =? 4 then
                if tag =? t then skip_group f st (S d) r else Err     (* "unexpected end group tag" *)
              else
                match d with
                | O => Err                                            (* "recursion limit reached" *)
                | S d' =>
                    if wt =? 3 then skip_group f (tag :: stack) d' r
                    else match read_scalar wt r with
                         | Some (_, r') => skip_group f stack d r'
                         | None => Err
                         end
                end
          end
      end
  end.

(* The fields of one message body decoded with a context whose recurse_count is [c]
   (100 for `Message::decode`, one less per enclosing message).
   [lenient] lists the tags of map fields: prost's `hash_map::merge` is the only merge that
   never looks at the wire type of its key - whatever it is, a length prefix and an entry
   are read - so such a field always yields a [WLen] token. *)
Fixpoint parse_fields (fuel : nat) (c : nat) (lenient : list N) (buf : list N) : res (list field) :=
  match buf with
  | [] => Ok []
  | _ :: _ =>
      match fuel with
      | O => Fuel
      | S f =>
          match decode_key buf with
          | None => Err
          | Some (tag, wt, r) =>
              if existsb (N.eqb tag) lenient then
                match read_scalar 2 r with
                | Some (v, r') => bind (parse_fields f c lenient r') (fun fs => Ok ((tag, v) :: fs))
                | None => Err
                end
              else if wt =? 4 then Err     (* no field is a group: wire type mismatch / unexpected end group *)
              else if wt =? 3 then
                match c with
                | O => Err
                | S d =>
                    match skip_group (S (length r)) [tag] d r with
                    | Ok r' => bind (parse_fields f c lenient r') (fun fs => Ok ((tag, WGrp) :: fs))
                    | Err => Err | Panic => Panic | Fuel => Fuel
                    end
                end
              else
                match read_scalar wt r with
                | Some (v, r') => bind (parse_fields f c lenient r') (fun fs => Ok ((tag, v) :: fs))
                | None => Err
                end
          end
      end
  end.
Definition parse (c : nat) (lenient : list N) (buf : list N) : res (list field) :=
  parse_fields (S (length buf)) c lenient buf.

Definition RECURSION_LIMIT : nat := 100.

(* ---- serialisation ------------------------------------------------------------------------ *)
Definition ser_field (f : field) : list N :=
  match f with
  | (tag, WVar n) => encode_key tag 0 ++ encode_varint n
  | (tag, W64 b) => encode_key tag 1 ++ b
  | (tag, WLen b) => encode_key tag 2 ++ encode_varint (nlen b) ++ b
  | (tag, WGrp) => encode_key tag 3 ++ encode_key tag 4
  | (tag, W32 b) => encode_key tag 5 ++ b
  end.
Definition ser (fs : list field) : list N := concat (map ser_field fs).

(* ---- typed views of a wire value (the `merge` functions of encoding.rs) ------------------- *)
(* string::merge: length-delimited, then str::from_utf8 *)
Definition as_string (v : wval) : res (list N) :=
  match v with WLen b => if utf8_valid b then Ok b else Err | _ => Err end.
(* bytes::merge *)
Definition as_bytes (v : wval) : res (list N) := match v with WLen b => Ok b | _ => Err end.
(* int32::merge / int64::merge: a varint, cast with `as` *)
Definition as_varint (v : wval) : res N := match v with WVar n => Ok n | _ => Err end.
(* message::merge: check_wire_type, ctx.limit_reached, merge_loop with ctx.enter_recursion;
   hash_map::merge reads its entry the same way (the token of a map field is always WLen).
   None of the nested messages of the error model has a map field itself. *)
Definition as_message (c : nat) (v : wval) : res (list field) :=
  match v with
  | WLen b => match c with O => Err | S c' => parse c' [] b end
  | _ => Err
  end.

Definition to_i64 (n : N) : Z :=
  let m := n mod U64 in if m <? U63 then Z.of_N m else (Z.of_N m - Z.of_N U64)%Z.
Definition to_i32 (n : N) : Z :=
  let m := n mod U32 in if m <? U31 then Z.of_N m else (Z.of_N m - Z.of_N U32)%Z.
(* `value as u64` of an i64 / of an i32 (sign extension) *)
Definition of_int (z : Z) : N := Z.to_N (z mod Z.of_N U64).

(* ---- proto3 encoders: defaults are omitted, repeated elements and Some(_) never ------------ *)
Definition enc_str (tag : N) (s : list N) : list field :=
  match s with [] => [] | _ :: _ => [(tag, WLen s)] end.
Definition enc_int (tag : N) (z : Z) : list field :=
  if (z =? 0)%Z then [] else [(tag, WVar (of_int z))].
Definition enc_rep_str (tag : N) (l : list (list N)) : list field := map (fun s => (tag, WLen s)) l.
Definition enc_msg (tag : N) (fs : list field) : field := (tag, WLen (ser fs)).

(* ---- schema-driven codec (prost-derive `Message`) ------------------------------------------- *)
(* A message type is the table of its `#[prost(..)]` fields: (field name, tag, kind).  prost-derive
   sorts the fields by tag and generates, from the table alone,
     encode_raw   : the fields in tag order, each by the encoder of its kind
     merge_field  : `match tag { t_i => <merge of kind i>(wire_type, &mut self.f_i, buf, ctx), _ => skip_field(..) }`
     Default      : the default of every kind.
   [enc_fields] / [merge_f] / [dflt_f] below are these three, as functions of the table; the tables
   themselves are regenerated from the source (Gen/RichErrorTables.v) and put in tag order by
   [sort_by_tag].  A value of a message is the list of its field values in the order of the table.

   Two levels are enough for the google.rpc error model: a "flat" message has singular scalar
   fields only (Duration, Any, the Violation / Link messages, a map entry); a top-level message may
   in addition have a repeated string, an optional flat message, a repeated flat message and a
   map<string,string>. *)
From Coq Require Import String.

Inductive skind : Type := SInt32 | SInt64 | SString | SBytes.
(* the value of a scalar field: an integer (i32 / i64) or bytes (String / Vec<u8>) *)
Inductive sval : Type := VInt (z : Z) | VBs (b : list N).
Definition flat : Type := list (string * N * skind).

Inductive fkind : Type :=
| FScalar (k : skind)
| FStringRep                 (* repeated string *)
| FMsgOpt (s : flat)         (* optional message *)
| FMsgRep (s : flat)         (* repeated message *)
| FMapSS.                    (* map<string, string> *)
Definition schema : Type := list (string * N * fkind).

Inductive val : Type :=
| VS (v : sval)
| VStrs (l : list (list N))
| VOpt (o : option (list sval))
| VRep (l : list (list sval))
| VMap (m : list (list N * list N)).   (* HashMap: distinct keys, in iteration order *)

Definition fname {K} (e : string * N * K) : string := fst (fst e).
Definition ftag {K} (e : string * N * K) : N := snd (fst e).
Definition fknd {K} (e : string * N * K) : K := snd e.

(* `fields.sort_by_key(tag)`: stable insertion sort *)
Fixpoint insert_by_tag {K} (e : string * N * K) (l : list (string * N * K)) : list (string * N * K) :=
  match l with
  | [] => [e]
  | x :: r => if ftag x <=? ftag e then x :: insert_by_tag e r else e :: l
  end.
Definition sort_by_tag {K} (l : list (string * N * K)) : list (string * N * K) :=
  fold_left (fun acc e => insert_by_tag e acc) l [].

(* the arm of `match tag` that is taken: position in the table and kind *)
Fixpoint find_field {K} (t : N) (s : list (string * N * K)) : option (nat * K) :=
  match s with
  | [] => None
  | e :: r => if t =? ftag e then Some (O, fknd e)
              else match find_field t r with Some (i, k) => Some (S i, k) | None => None end
  end.
Fixpoint upd {A} (i : nat) (x : A) (l : list A) : list A :=
  match l with
  | [] => []
  | y :: r => match i with O => x :: r | S j => y :: upd j x r end
  end.

(* -- scalars -- *)
Definition dflt_s (k : skind) : sval := match k with SInt32 | SInt64 => VInt 0 | SString | SBytes => VBs [] end.
(* int32::encode / int64::encode write `value as u64`; string::encode / bytes::encode *)
Definition enc_s (tag : N) (k : skind) (v : sval) : list field :=
  match k, v with
  | SInt32, VInt z | SInt64, VInt z => enc_int tag z
  | SString, VBs b | SBytes, VBs b => enc_str tag b
  | _, _ => []
  end.
Definition merge_s (k : skind) (w : wval) : res sval :=
  match k with
  | SInt32 => bind (as_varint w) (fun n => Ok (VInt (to_i32 n)))
  | SInt64 => bind (as_varint w) (fun n => Ok (VInt (to_i64 n)))
  | SString => bind (as_string w) (fun b => Ok (VBs b))
  | SBytes => bind (as_bytes w) (fun b => Ok (VBs b))
  end.

(* -- flat messages -- *)
Definition dflt_flat (s : flat) : list sval := map (fun e => dflt_s (fknd e)) s.
Fixpoint enc_flat (s : flat) (vs : list sval) : list field :=
  match s, vs with
  | e :: s', v :: vs' => enc_s (ftag e) (fknd e) v ++ enc_flat s' vs'
  | _, _ => []
  end.
Definition merge_flat (s : flat) (st : list sval) (f : field) : res (list sval) :=
  let (t, w) := f in
  match find_field t s with
  | Some (i, k) => bind (merge_s k w) (fun v => Ok (upd i v st))
  | None => Ok st                                   (* skip_field: the token was cut by [parse] *)
  end.
Definition dec_flat (s : flat) (fs : list field) : res (list sval) := fold_res (merge_flat s) fs (dflt_flat s).

(* -- top-level messages -- *)
Definition dflt_f (k : fkind) : val :=
  match k with
  | FScalar k => VS (dflt_s k) | FStringRep => VStrs [] | FMsgOpt _ => VOpt None | FMsgRep _ => VRep []
  | FMapSS => VMap []
  end.
Definition dflt_fields (s : schema) : list val := map (fun e => dflt_f (fknd e)) s.

(* a map entry is the message { key = 1; value = 2 } (prost encoding.rs, `map!`) *)
Definition ENTRY : flat := [("key"%string, 1, SString); ("value"%string, 2, SString)].
Definition bs_of (v : sval) : list N := match v with VBs b => b | VInt _ => [] end.
Definition int_of (v : sval) : Z := match v with VInt z => z | VBs _ => 0%Z end.
(* HashMap::insert *)
Fixpoint map_insert (m : list (list N * list N)) (k v : list N) : list (list N * list N) :=
  match m with
  | [] => [(k, v)]
  | (k', v') :: r => if bytes_eqb k' k then (k, v) :: r else (k', v') :: map_insert r k v
  end.

Definition enc_f (tag : N) (k : fkind) (v : val) : list field :=
  match k, v with
  | FScalar sk, VS x => enc_s tag sk x
  | FStringRep, VStrs l => enc_rep_str tag l
  | FMsgOpt s, VOpt (Some x) => [enc_msg tag (enc_flat s x)]
  | FMsgRep s, VRep l => map (fun x => enc_msg tag (enc_flat s x)) l
  | FMapSS, VMap m => map (fun kv => enc_msg tag (enc_flat ENTRY [VBs (fst kv); VBs (snd kv)])) m
  | _, _ => []
  end.
Fixpoint enc_fields (s : schema) (vs : list val) : list field :=
  match s, vs with
  | e :: s', v :: vs' => enc_f (ftag e) (fknd e) v ++ enc_fields s' vs'
  | _, _ => []
  end.

(* merge_field.  string::merge_repeated and message::merge_repeated decode one element with a fresh
   default and push it; an optional message field is `get_or_insert_with(Default::default)` and
   then merged into; hash_map::merge decodes an entry with fresh defaults and inserts it.  The
   last arm is taken when the state does not have the shape of the table - never, starting from
   [dflt_fields]. *)
Definition merge_f (s : schema) (st : list val) (f : field) : res (list val) :=
  let (t, w) := f in
  match find_field t s with
  | None => Ok st
  | Some (i, k) =>
      match k, nth i st (dflt_f k) with
      | FScalar sk, _ => bind (merge_s sk w) (fun v => Ok (upd i (VS v) st))
      | FStringRep, VStrs l => bind (as_string w) (fun b => Ok (upd i (VStrs (l ++ [b])) st))
      | FMsgOpt fs, VOpt o =>
          bind (as_message RECURSION_LIMIT w) (fun toks =>
          bind (fold_res (merge_flat fs) toks (match o with Some x => x | None => dflt_flat fs end)) (fun x =>
          Ok (upd i (VOpt (Some x)) st)))
      | FMsgRep fs, VRep l =>
          bind (as_message RECURSION_LIMIT w) (fun toks =>
          bind (dec_flat fs toks) (fun x => Ok (upd i (VRep (l ++ [x])) st)))
      | FMapSS, VMap m =>
          bind (as_message RECURSION_LIMIT w) (fun toks =>
          bind (dec_flat ENTRY toks) (fun kv =>
          Ok (upd i (VMap (map_insert m (bs_of (nth 0 kv (VBs []))) (bs_of (nth 1 kv (VBs []))))) st)))
      | _, _ => Ok st
      end
  end.

(* the tags whose merge never looks at the wire type: the map fields *)
Definition lenient_of (s : schema) : list N :=
  map ftag (filter (fun e => match fknd e with FMapSS => true | _ => false end) s).

(* Message::encode_to_vec and Message::decode of the message type with table [s] *)
Definition enc_g (s : schema) (vs : list val) : list N := ser (enc_fields s vs).
Definition dec_g (s : schema) (b : list N) : res (list val) :=
  bind (parse RECURSION_LIMIT (lenient_of s) b) (fun fs => fold_res (merge_f s) fs (dflt_fields s)).

(* -- access by field name (the `From` conversions of tonic-types name the fields) -- *)
Fixpoint lookup {A} (n : string) (l : list (string * A)) (d : A) : A :=
  match l with
  | [] => d
  | (n', x) :: r => if String.eqb n' n then x else lookup n r d
  end.
(* the value of a message given field by field, put in the order of the table *)
Definition arrange {K A} (s : list (string * N * K)) (dflt : K -> A) (named : list (string * A)) : list A :=
  map (fun e => lookup (fname e) named (dflt (fknd e))) s.
(* the field called [n] of a value *)
Definition by_name {K A} (s : list (string * N * K)) (vs : list A) (n : string) (d : A) : A :=
  lookup n (combine (map fname s) vs) d.
