(* Model of the grpc-web SERVER side of crate tonic-web:
     tonic-web/src/call.rs     poll_encode, make_trailers_frame, encode_trailers,
                               poll_decode (Base64 and None), decode_chunk, max_decodable,
                               Encoding::{from_content_type, from_accept, to_content_type}
     tonic-web/src/service.rs  RequestKind::new, GrpcWebService::call, coerce_request,
                               coerce_response
   An http body is a list of scripted poll results ([ev]); after the list the body answers
   End for ever.  No proofs in this file. *)
From Verif Require Import Lib.Bytes Lib.Obs Lib.BE32 Lib.Base64 Lib.HeaderMap Model.Frame.
From Coq Require String.
Open Scope N_scope.

(* ---------- scripted inner bodies (shared with Model/WebClient.v) ---------- *)
Inductive ev := EvPending | EvData (d : list N) | EvTrailers (t : hm) | EvErr.
Inductive answer := APending | AData (d : list N) | ATrailers (t : hm) | AErr | AEnd.

Definition answer_of (e : ev) : answer :=
  match e with
  | EvPending => APending
  | EvData d => AData d
  | EvTrailers t => ATrailers t
  | EvErr => AErr
  end.

(* the data chunks of a script, in order *)
Fixpoint datas (evs : list ev) : list (list N) :=
  match evs with
  | [] => []
  | EvData d :: r => d :: datas r
  | _ :: r => datas r
  end.
Definition is_data_or_pending (e : ev) : bool :=
  match e with EvPending | EvData _ => true | _ => false end.

Definition is_data (e : ev) : bool := match e with EvData _ => true | _ => false end.

(* Body::is_end_stream of the scripted inner body, by kind of body:
     0 = never true (the http_body default)
     1 = true once every scripted frame has been yielded (tonic's EncodeBody after its trailers,
         hyper's Incoming after its last chunk): what the http_body contract asks for
     2 = true as soon as no data frame remains although trailers are still to come
         (a body that breaks the contract) *)
Definition inner_eos (mode : N) (evs : list ev) : bool :=
  if mode =? 1 then match evs with [] => true | _ => false end
  else if mode =? 2 then negb (existsb is_data evs)
  else false.

(* Body::size_hint of the scripted inner body: exact remaining data bytes when [hint], the
   default (0, None) otherwise; GrpcWebCall::size_hint delegates to it (call.rs size_hint) *)
Definition inner_size_hint (hint : bool) (evs : list ev) : N * option N :=
  if hint then (nlen (concat (datas evs)), Some (nlen (concat (datas evs)))) else (0, None).

(* observables of long byte strings: length and a polynomial digest instead of the bytes *)
Definition digest (l : list N) : N := fold_left (fun h b => (h * 31 + b + 1) mod 4294967291) l 7.
Definition BIG : N := 2048.

(* ---------- constants ---------- *)
Module WebConsts.
Import String.
Local Open Scope string_scope.
Definition GRPC_WEB : list N := Eval vm_compute in bytes_of_string "application/grpc-web".
Definition GRPC_WEB_PROTO : list N := Eval vm_compute in bytes_of_string "application/grpc-web+proto".
Definition GRPC_WEB_TEXT : list N := Eval vm_compute in bytes_of_string "application/grpc-web-text".
Definition GRPC_WEB_TEXT_PROTO : list N :=
  Eval vm_compute in bytes_of_string "application/grpc-web-text+proto".
Definition GRPC_CONTENT_TYPE : list N := Eval vm_compute in bytes_of_string "application/grpc".
Definition H_CONTENT_TYPE : list N := Eval vm_compute in bytes_of_string "content-type".
Definition H_CONTENT_LENGTH : list N := Eval vm_compute in bytes_of_string "content-length".
Definition H_ACCEPT : list N := Eval vm_compute in bytes_of_string "accept".
Definition H_TE : list N := Eval vm_compute in bytes_of_string "te".
Definition H_ACCEPT_ENCODING : list N := Eval vm_compute in bytes_of_string "accept-encoding".
Definition V_TRAILERS : list N := Eval vm_compute in bytes_of_string "trailers".
Definition V_ACCEPT_ENCODING : list N := Eval vm_compute in bytes_of_string "identity,deflate,gzip".
Definition M_POST : list N := Eval vm_compute in bytes_of_string "POST".
End WebConsts.
Export WebConsts.

Definition GRPC_WEB_TRAILERS_BIT : N := 128.
(* http::Version as a number: 0 = HTTP/0.9, 1 = HTTP/1.0, 2 = HTTP/1.1, 3 = HTTP/2, 4 = HTTP/3 *)
Definition HTTP_2 : N := 3.

(* ---------- Encoding ---------- *)
Inductive encoding := Base64 | NoEnc.

(* Encoding::from_header: the first value of the header, compared as a string *)
Definition enc_from_header (v : option (list N)) : encoding :=
  match v with
  | Some v => if bytes_eqb v GRPC_WEB_TEXT_PROTO || bytes_eqb v GRPC_WEB_TEXT then Base64 else NoEnc
  | None => NoEnc
  end.
Definition enc_from_content_type (h : hm) : encoding := enc_from_header (hm_get h H_CONTENT_TYPE).
Definition enc_from_accept (h : hm) : encoding := enc_from_header (hm_get h H_ACCEPT).
Definition to_content_type (e : encoding) : list N :=
  match e with Base64 => GRPC_WEB_TEXT_PROTO | NoEnc => GRPC_WEB_PROTO end.

(* content_types::is_grpc_web *)
Definition is_grpc_web (h : hm) : bool :=
  match hm_get h H_CONTENT_TYPE with
  | Some v => bytes_eqb v GRPC_WEB || bytes_eqb v GRPC_WEB_PROTO || bytes_eqb v GRPC_WEB_TEXT
              || bytes_eqb v GRPC_WEB_TEXT_PROTO
  | None => false
  end.

(* ---------- trailers frame ---------- *)
(* encode_trailers: "name:value\r\n" for every entry, in the iteration order of the map *)
Definition trailer_line (e : hname * hvalue) : list N := fst e ++ [58] ++ snd e ++ [13; 10].
Definition encode_trailers (t : hm) : list N := flat_map trailer_line t.

(* what a trailers frame is: flag 0x80, big-endian length, the block *)
Definition trailers_frame (t : hm) : list N := frame GRPC_WEB_TRAILERS_BIT (encode_trailers t).

(* make_trailers_frame; None = the assert!(len <= u32::MAX) fires *)
Definition make_trailers_frame (t : hm) : option (list N) :=
  if U32_MAX <? nlen (encode_trailers t) then None else Some (trailers_frame t).

(* ---------- response direction: poll_encode ---------- *)
Inductive sout :=
| SPending
| SData (d : list N)
| STrailers (t : hm)
| SErr (code : N)
| SNone
| SPanic.

(* error classes of the server side (all are Status::internal) *)
Definition SE_INNER : N := 4.            (* error of the wrapped body *)
Definition SE_BASE64 : N := 8.           (* a chunk is not valid base64 *)
Definition SE_LEFTOVER : N := 9.         (* "malformed base64 request": bytes left at EOF *)
Definition SE_TRAILERS : N := 10.        (* "malformed base64 request has unencoded trailers" *)

Definition encode_bytes (e : encoding) (d : list N) : list N :=
  match e with Base64 => enc true d | NoEnc => d end.

Definition poll_encode (e : encoding) (a : answer) : sout :=
  match a with
  | APending => SPending
  | AData d => SData (encode_bytes e d)
  | ATrailers t =>
      match make_trailers_frame t with
      | Some f => SData (encode_bytes e f)
      | None => SPanic
      end
  | AErr => SErr SE_INNER
  | AEnd => SNone
  end.

(* ---------- request direction: poll_decode ---------- *)
(* decode_chunk on the carry buffer *)
Inductive chunk_res :=
| CNone                                  (* fewer than 4 bytes buffered *)
| CData (d : list N) (rest : list N)
| CErr (rest : list N).

Definition max_decodable (buf : list N) : N := (nlen buf / 4) * 4.

Definition decode_chunk (buf : list N) : chunk_res :=
  if nlen buf <? 4 then CNone
  else
    let index := max_decodable buf in
    match dec (ntake index buf) with
    | Some d => CData d (ndrop index buf)
    | None => CErr (ndrop index buf)
    end.

(* one call of poll_decode with Encoding::Base64: the loop consumes one scripted event per
   iteration, so it is structural in the script *)
Fixpoint poll_decode_b64 (buf : list N) (evs : list ev) : sout * list N * list ev :=
  match decode_chunk buf with
  | CData d rest => (SData d, rest, evs)
  | CErr rest => (SErr SE_BASE64, rest, evs)
  | CNone =>
      match evs with
      | [] => (if nlen buf =? 0 then SNone else SErr SE_LEFTOVER, buf, [])
      | EvPending :: r => (SPending, buf, r)
      | EvData d :: r => poll_decode_b64 (buf ++ d) r
      | EvTrailers _ :: r => (SErr SE_TRAILERS, buf, r)
      | EvErr :: r => (SErr SE_INNER, buf, r)
      end
  end.

(* Encoding::None: frames pass through *)
Definition poll_decode_none (evs : list ev) : sout * list ev :=
  match evs with
  | [] => (SNone, [])
  | EvPending :: r => (SPending, r)
  | EvData d :: r => (SData d, r)
  | EvTrailers t :: r => (STrailers t, r)
  | EvErr :: r => (SErr SE_INNER, r)
  end.

(* ---------- draining a body the way a consumer does ---------- *)
(* Poll until the body ends or fails; Pending results are re-polled and not recorded.
   [n] bounds the number of polls (the harness' cap; 98 = cap reached). *)
Definition SCAP : sout := SErr 98.

Fixpoint drain_encode (e : encoding) (evs : list ev) : list sout :=
  match evs with
  | [] => [SNone]
  | x :: r =>
      match poll_encode e (answer_of x) with
      | SPending => drain_encode e r
      | SData d => SData d :: drain_encode e r
      | o => [o]
      end
  end.

Fixpoint drain_b64 (n : nat) (buf : list N) (evs : list ev) : list sout :=
  match n with
  | O => [SCAP]
  | S n' =>
      match poll_decode_b64 buf evs with
      | (SPending, b, r) => drain_b64 n' b r
      | (SData d, b, r) => SData d :: drain_b64 n' b r
      | (o, _, _) => [o]
      end
  end.

Fixpoint drain_none_n (n : nat) (evs : list ev) : list sout :=
  match n with
  | O => [SCAP]
  | S n' =>
      match poll_decode_none evs with
      | (SPending, r) => drain_none_n n' r
      | (SData d, r) => SData d :: drain_none_n n' r
      | (STrailers t, r) => STrailers t :: drain_none_n n' r
      | (o, _) => [o]
      end
  end.
Definition drain_none (evs : list ev) : list sout := drain_none_n (S (length evs)) evs.

(* polls that can be needed to drain a base64 body: every poll consumes an event or
   at least four buffered bytes *)
Definition b64_polls (evs : list ev) : nat :=
  (length evs + length (concat (datas evs)) / 4 + 2)%nat.

Definition drain_request (e : encoding) (evs : list ev) : list sout :=
  match e with
  | Base64 => drain_b64 (b64_polls evs) [] evs
  | NoEnc => drain_none evs
  end.

(* ---------- GrpcWebService::call ---------- *)
Inductive kind :=
| KTranslate (enc accept : encoding)     (* grpc-web POST: translate request and response *)
| K405                                   (* grpc-web content-type, other method *)
| K400                                   (* anything else over HTTP/1 *)
| KPass.                                 (* anything else over HTTP/2: untouched *)

Definition request_kind (method : list N) (version : N) (headers : hm) : kind :=
  if is_grpc_web headers then
    if bytes_eqb method M_POST
    then KTranslate (enc_from_content_type headers) (enc_from_accept headers)
    else K405
  else if version =? HTTP_2 then KPass else K400.

Definition coerce_request_headers (h : hm) : hm :=
  hm_insert (hm_insert (hm_insert (hm_remove h H_CONTENT_LENGTH)
     H_CONTENT_TYPE GRPC_CONTENT_TYPE) H_TE V_TRAILERS) H_ACCEPT_ENCODING V_ACCEPT_ENCODING.

Definition coerce_response_headers (h : hm) (accept : encoding) : hm :=
  hm_insert h H_CONTENT_TYPE (to_content_type accept).

(* ---------- independent reading of a text body ---------- *)
(* a grpc-web-text consumer decodes the stream quantum by quantum (4 characters), each
   quantum on its own, so padding may appear wherever the sender flushed *)
Fixpoint dec_quanta (l : list N) : option (list N) :=
  match l with
  | [] => Some []
  | a :: b :: c :: d :: r =>
      match dec [a; b; c; d], dec_quanta r with
      | Some x, Some y => Some (x ++ y)
      | _, _ => None
      end
  | _ => None
  end.

(* ---------- observables ---------- *)
Definition sout_tr (o : sout) : tr :=
  match o with
  | SNone => Nd [Nn 0]
  | SData d => if BIG <? nlen d then Nd [Nn 5; Nn (nlen d); Nn (digest d)] else Nd [Nn 1; Bs d]
  | STrailers t => Nd [Nn 2; hm_canon t]
  | SErr c => Nd [Nn 3; Nn c]
  | SPending => Nd [Nn 4]
  | SPanic => Nd [Nn 99]
  end.

Definition enc_tr (e : encoding) : tr := Nn (match e with Base64 => 1 | NoEnc => 0 end).

(* One call through the layer.  The inner service (when reached) drains the request body
   and answers with [rstatus], [rheaders] and the scripted body [revs].
   Observable: which of the four cases, what the inner service saw, what the caller got. *)
Definition obs_call (method : list N) (version : N) (headers : hm) (qevs : list ev)
                    (rstatus : N) (rheaders : hm) (revs : list ev) : tr :=
  match request_kind method version headers with
  | KTranslate e a =>
      Nd [Nn 1; enc_tr e; enc_tr a;
          hm_canon (coerce_request_headers headers);
          olist sout_tr (drain_request e qevs);
          Nn rstatus;
          hm_canon (coerce_response_headers rheaders a);
          olist sout_tr (drain_encode a revs)]
  | K405 => Nd [Nn 2; Nn 405]
  | K400 => Nd [Nn 3; Nn 400]
  | KPass =>
      Nd [Nn 4;
          hm_canon headers;
          olist sout_tr (drain_none qevs);
          Nn rstatus;
          hm_canon rheaders;
          olist sout_tr (drain_none revs)]
  end.

(* a response body alone (no request): used for the chunking sweeps *)
Definition obs_response (a : encoding) (revs : list ev) : tr := olist sout_tr (drain_encode a revs).
(* a request body alone *)
Definition obs_request (e : encoding) (qevs : list ev) : tr := olist sout_tr (drain_request e qevs).

(* ---------- a hyper-like consumer of the response body ---------- *)
(* hyper asks is_end_stream() before the first poll and after every data frame it has taken and
   stops polling when the answer is true (the frame is sent with END_STREAM).
   GrpcWebCall::is_end_stream delegates to the inner body (call.rs is_end_stream).
   Result: the items taken, and whether the consumer stopped because of is_end_stream. *)
Fixpoint hyper_encode (mode : N) (e : encoding) (evs : list ev) : list sout * bool :=
  match evs with
  | [] => if inner_eos mode [] then ([], true) else ([SNone], false)
  | x :: r =>
      if inner_eos mode (x :: r) then ([], true)
      else
        match poll_encode e (answer_of x) with
        | SPending => hyper_encode mode e r
        | SData d => let '(l, b) := hyper_encode mode e r in (SData d :: l, b)
        | o => ([o], false)
        end
  end.

Definition hint_tr (h : N * option N) : tr := Nd [Nn (fst h); oopt Nn (snd h)].
Definition obs_response_hyper (mode : N) (hint : bool) (a : encoding) (revs : list ev) : tr :=
  let '(l, b) := hyper_encode mode a revs in
  (* tonic::body::Body::new replaces a body that is already at its end by Body::empty *)
  Nd [hint_tr (if inner_eos mode revs then (0, Some 0) else inner_size_hint hint revs);
      olist sout_tr l; obool b].

(* the request body (Decode direction, base64) read by a hyper-like consumer; is_end_stream of
   GrpcWebCall (fix f0f96413) = the inner body's AND the carry buffer is empty *)
Fixpoint hyper_b64 (n : nat) (mode : N) (buf : list N) (evs : list ev) : list sout * bool :=
  match n with
  | O => ([SCAP], false)
  | S n' =>
      match poll_decode_b64 buf evs with
      | (SPending, b, r) => hyper_b64 n' mode b r
      | (SData d, b, r) =>
          if inner_eos mode r && (nlen b =? 0) then ([SData d], true)
          else let '(l, e) := hyper_b64 n' mode b r in (SData d :: l, e)
      | (o, _, _) => ([o], false)
      end
  end.
Definition obs_request_hyper (mode : N) (evs : list ev) : tr :=
  if inner_eos mode evs then Nd [Nd []; Nn 1]
  else let '(l, b) := hyper_b64 (b64_polls evs) mode [] evs in Nd [olist sout_tr l; obool b].

(* ---------- the Encode direction as a state machine over (buf, inner body) ---------- *)
(* GrpcWebCall has a staging buffer [buf]; poll_encode neither reads nor writes it: whatever
   the inner body yields is translated and handed out in the same poll.  That is what makes
   `Direction::Encode => self.inner.is_end_stream()` a correct is_end_stream: an encoder that
   staged output in [buf] would have to look at [buf] there (Proofs/WebServer.v,
   encode_is_end_stream_contract). *)
Definition poll_encode_st (e : encoding) (buf : list N) (a : answer) : sout * list N :=
  (poll_encode e a, buf).
Definition encode_is_end_stream (mode : N) (buf : list N) (evs : list ev) : bool :=
  inner_eos mode evs.
Fixpoint drain_encode_st (e : encoding) (buf : list N) (evs : list ev) : list sout :=
  match evs with
  | [] => [SNone]
  | x :: r =>
      match poll_encode_st e buf (answer_of x) with
      | (SPending, b) => drain_encode_st e b r
      | (SData d, b) => SData d :: drain_encode_st e b r
      | (o, _) => [o]
      end
  end.
