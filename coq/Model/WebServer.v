(* Model of the grpc-web SERVER side of crate tonic-web:
     tonic-web/src/call.rs     poll_encode, make_trailers_frame, encode_trailers,
                               poll_decode (Base64 and None), decode_chunk, max_decodable,
                               Encoding::{from_content_type, from_accept, to_content_type}
                               GrpcWebCall as a Body on the server side: poll_frame (dispatch on
                               the direction), is_end_stream, size_hint
     tonic-web/src/service.rs  RequestKind::new, GrpcWebService::call, coerce_request,
                               coerce_response
   An http body is a list of scripted poll results ([ev]); after the list the body answers
   End for ever.  No proofs in this file. *)
From Verif Require Import Lib.Bytes Lib.Obs Lib.BE32 Lib.Base64 Lib.HeaderMap Model.Frame.
From Coq Require String.
Open Scope N_scope.

(* ---------- scripted inner bodies (shared with Model/WebClient.v) ---------- *)
Inductive ev := EvPending | EvData (d : list N) | EvTrailers (t : hm) | EvErr.
Inductive answer := APending | AData (d : list N) | ATrailers (t : hm) | AErr | AEnd.

Definition answer_of (e : ev) : answer :=
  match e with
  | EvPending => APending
  | EvData d => AData d
  | EvTrailers t => ATrailers t
  | EvErr => AErr
  end.

(* the data chunks of a script, in order *)
Fixpoint datas (evs : list ev) : list (list N) :=
  match evs with
  | [] => []
  | EvData d :: r => d :: datas r
  | _ :: r => datas r
  end.
Definition is_data_or_pending (e : ev) : bool :=
  match e with EvPending | EvData _ => true | _ => false end.

Definition is_data (e : ev) : bool := match e with EvData _ => true | _ => false end.

(* Body::is_end_stream of the scripted inner body, by kind of body:
     0 = never true (the http_body default)
     1 = true once every scripted frame has been yielded (tonic's EncodeBody after its trailers,
         hyper's Incoming after its last chunk): what the http_body contract asks for
     2 = true as soon as no data frame remains although trailers are still to come
         (a body that breaks the contract) *)
Definition inner_eos (mode : N) (evs : list ev) : bool :=
  if mode =? 1 then match evs with [] => true | _ => false end
  else if mode =? 2 then negb (existsb is_data evs)
  else false.

(* Body::size_hint of the scripted inner body: exact remaining data bytes when [hint], the
   default (0, None) otherwise *)
Definition inner_size_hint (hint : bool) (evs : list ev) : N * option N :=
  if hint then (nlen (concat (datas evs)), Some (nlen (concat (datas evs)))) else (0, None).

(* observables of long byte strings: length and a polynomial digest instead of the bytes *)
Definition digest (l : list N) : N := fold_left (fun h b => (h * 31 + b + 1) mod 4294967291) l 7.
Definition BIG : N := 2048.

(* ---------- constants ---------- *)
Module WebConsts.
Import String.
Local Open Scope string_scope.
Definition GRPC_WEB : list N := Eval vm_compute in bytes_of_string "application/grpc-web".
Definition GRPC_WEB_PROTO : list N := Eval vm_compute in bytes_of_string "application/grpc-web+proto".
Definition GRPC_WEB_TEXT : list N := Eval vm_compute in bytes_of_string "application/grpc-web-text".
Definition GRPC_WEB_TEXT_PROTO : list N :=
  Eval vm_compute in bytes_of_string "application/grpc-web-text+proto".
Definition GRPC_CONTENT_TYPE : list N := Eval vm_compute in bytes_of_string "application/grpc".
Definition H_CONTENT_TYPE : list N := Eval vm_compute in bytes_of_string "content-type".
Definition H_CONTENT_LENGTH : list N := Eval vm_compute in bytes_of_string "content-length".
Definition H_ACCEPT : list N := Eval vm_compute in bytes_of_string "accept".
Definition H_TE : list N := Eval vm_compute in bytes_of_string "te".
Definition H_ACCEPT_ENCODING : list N := Eval vm_compute in bytes_of_string "accept-encoding".
Definition V_TRAILERS : list N := Eval vm_compute in bytes_of_string "trailers".
Definition V_ACCEPT_ENCODING : list N := Eval vm_compute in bytes_of_string "identity,deflate,gzip".
Definition M_POST : list N := Eval vm_compute in bytes_of_string "POST".
End WebConsts.
Export WebConsts.

Definition GRPC_WEB_TRAILERS_BIT : N := 128.
(* http::Version as a number: 0 = HTTP/0.9, 1 = HTTP/1.0, 2 = HTTP/1.1, 3 = HTTP/2, 4 = HTTP/3 *)
Definition HTTP_2 : N := 3.

(* ---------- Encoding ---------- *)
Inductive encoding := Base64 | NoEnc.

(* Encoding::from_header: the first value of the header, compared as a string *)
Definition enc_from_header (v : option (list N)) : encoding :=
  match v with
  | Some v => if bytes_eqb v GRPC_WEB_TEXT_PROTO || bytes_eqb v GRPC_WEB_TEXT then Base64 else NoEnc
  | None => NoEnc
  end.
Definition enc_from_content_type (h : hm) : encoding := enc_from_header (hm_get h H_CONTENT_TYPE).
Definition enc_from_accept (h : hm) : encoding := enc_from_header (hm_get h H_ACCEPT).
Definition to_content_type (e : encoding) : list N :=
  match e with Base64 => GRPC_WEB_TEXT_PROTO | NoEnc => GRPC_WEB_PROTO end.

(* content_types::is_grpc_web *)
Definition is_grpc_web (h : hm) : bool :=
  match hm_get h H_CONTENT_TYPE with
  | Some v => bytes_eqb v GRPC_WEB || bytes_eqb v GRPC_WEB_PROTO || bytes_eqb v GRPC_WEB_TEXT
              || bytes_eqb v GRPC_WEB_TEXT_PROTO
  | None => false
  end.

(* ---------- trailers frame ---------- *)
(* encode_trailers: "name:value\r\n" for every entry, in the iteration order of the map *)
Definition trailer_line (e : hname * hvalue) : list N := fst e ++ [58] ++ snd e ++ [13; 10].
Definition encode_trailers (t : hm) : list N := flat_map trailer_line t.

(* what a trailers frame is: flag 0x80, big-endian length, the block *)
Definition trailers_frame (t : hm) : list N := frame GRPC_WEB_TRAILERS_BIT (encode_trailers t).

(* make_trailers_frame; None = the assert!(len <= u32::MAX) fires *)
Definition make_trailers_frame (t : hm) : option (list N) :=
  if U32_MAX <? nlen (encode_trailers t) then None else Some (trailers_frame t).

(* ---------- response direction: poll_encode ---------- *)
Inductive sout :=
| SPending
| SData (d : list N)
| STrailers (t : hm)
| SErr (code : N)
| SNone
| SPanic.

(* error classes of the server side (all are Status::internal) *)
Definition SE_INNER : N := 4.            (* error of the wrapped body *)
Definition SE_BASE64 : N := 8.           (* a chunk is not valid base64 *)
Definition SE_LEFTOVER : N := 9.         (* "malformed base64 request": bytes left at EOF *)
Definition SE_TRAILERS : N := 10.        (* "malformed base64 request has unencoded trailers" *)

Definition encode_bytes (e : encoding) (d : list N) : list N :=
  match e with Base64 => enc true d | NoEnc => d end.

Definition poll_encode (e : encoding) (a : answer) : sout :=
  match a with
  | APending => SPending
  | AData d => SData (encode_bytes e d)
  | ATrailers t =>
      match make_trailers_frame t with
      | Some f => SData (encode_bytes e f)
      | None => SPanic
      end
  | AErr => SErr SE_INNER
  | AEnd => SNone
  end.

(* ---------- request direction: poll_decode ---------- *)
(* decode_chunk on the carry buffer *)
Inductive chunk_res :=
| CNone                                  (* fewer than 4 bytes buffered *)
| CData (d : list N) (rest : list N)
| CErr (rest : list N).

Definition max_decodable (buf : list N) : N := (nlen buf / 4) * 4.

Definition decode_chunk (buf : list N) : chunk_res :=
  if nlen buf <? 4 then CNone
  else
    let index := max_decodable buf in
    match dec (ntake index buf) with
    | Some d => CData d (ndrop index buf)
    | None => CErr (ndrop index buf)
    end.

(* one call of poll_decode with Encoding::Base64: the loop consumes one scripted event per
   iteration, so it is structural in the script *)
Fixpoint poll_decode_b64 (buf : list N) (evs : list ev) : sout * list N * list ev :=
  match decode_chunk buf with
  | CData d rest => (SData d, rest, evs)
  | CErr rest => (SErr SE_BASE64, rest, evs)
  | CNone =>
      match evs with
      | [] => (if nlen buf =? 0 then SNone else SErr SE_LEFTOVER, buf, [])
      | EvPending :: r => (SPending, buf, r)
      | EvData d :: r => poll_decode_b64 (buf ++ d) r
      | EvTrailers _ :: r => (SErr SE_TRAILERS, buf, r)
      | EvErr :: r => (SErr SE_INNER, buf, r)
      end
  end.

(* Encoding::None: frames pass through *)
Definition poll_decode_none (evs : list ev) : sout * list ev :=
  match evs with
  | [] => (SNone, [])
  | EvPending :: r => (SPending, r)
  | EvData d :: r => (SData d, r)
  | EvTrailers t :: r => (STrailers t, r)
  | EvErr :: r => (SErr SE_INNER, r)
  end.

(* ---------- GrpcWebCall as an http_body::Body (server side) ---------- *)
(* The fields the Body impl looks at.  On the server side (client = false) [decoded] stays empty,
   [trailers] stays None and [expect_trailers] / [inner_done] stay false (only the client branch
   of poll_frame writes them), so the state is the direction, the encoding and the undecoded
   base64 remainder [buf]. *)
Inductive wdir := DDecode | DEncode | DEmpty.
Record wcall := mkCall { wc_dir : wdir; wc_enc : encoding; wc_buf : list N }.
Definition wc_set_buf (c : wcall) (b : list N) : wcall := mkCall (wc_dir c) (wc_enc c) b.

(* GrpcWebCall::request / ::response / Default::default *)
Definition wc_request (e : encoding) : wcall := mkCall DDecode e [].
Definition wc_response (e : encoding) : wcall := mkCall DEncode e [].
Definition wc_default : wcall := mkCall DEmpty NoEnc [].

(* Body::poll_frame with client = false: `match self.direction` *)
Definition wc_poll_frame (c : wcall) (evs : list ev) : sout * wcall * list ev :=
  match wc_dir c with
  | DDecode =>
      match wc_enc c with
      | Base64 => let '(o, b, r) := poll_decode_b64 (wc_buf c) evs in (o, wc_set_buf c b, r)
      | NoEnc => let '(o, r) := poll_decode_none evs in (o, c, r)
      end
  | DEncode =>
      match evs with
      | [] => (poll_encode (wc_enc c) AEnd, c, [])
      | x :: r => (poll_encode (wc_enc c) (answer_of x), c, r)
      end
  | DEmpty => (SNone, c, evs)
  end.

(* Body::is_end_stream; [inner_end] = self.inner.is_end_stream() *)
Definition wc_is_end_stream (c : wcall) (inner_end : bool) : bool :=
  match wc_dir c with
  | DEmpty => true
  | DEncode => inner_end
  | DDecode => inner_end && (nlen (wc_buf c) =? 0)
  end.

(* Body::size_hint (fix 2dcb76d4, F-C16a); [inner_hint] = self.inner.size_hint():
   only a binary request body has the length of the body it wraps *)
Definition hint := (N * option N)%type.
Definition wc_size_hint (c : wcall) (inner_hint : hint) : hint :=
  match wc_dir c, wc_enc c with
  | DEmpty, _ => (0, Some 0)
  | DDecode, NoEnc => inner_hint
  | _, _ => (0, None)
  end.
(* the hint the body gave before F-C16a was fixed *)
Definition wc_size_hint_before_fix (c : wcall) (inner_hint : hint) : hint := inner_hint.

(* what a size hint promises about the [n] bytes that are still to come *)
Definition hint_covers (h : hint) (n : N) : Prop :=
  fst h <= n /\ match snd h with Some u => n <= u | None => True end.

(* poll [n] times and record EVERY result (Pending and errors included); only the end of the
   body (or a panic) stops the consumer: errors are not final on the server side *)
Fixpoint wc_polls (n : nat) (c : wcall) (evs : list ev) : list sout :=
  match n with
  | O => []
  | S n' =>
      match wc_poll_frame c evs with
      | (SNone, _, _) => [SNone]
      | (SPanic, _, _) => [SPanic]
      | (o, c', r) => o :: wc_polls n' c' r
      end
  end.

(* ---------- draining a body the way a consumer does ---------- *)
(* Poll until the body ends or fails; Pending results are re-polled and not recorded.
   [n] bounds the number of polls (the harness' cap; 98 = cap reached). *)
Definition SCAP : sout := SErr 98.

Fixpoint drain_encode (e : encoding) (evs : list ev) : list sout :=
  match evs with
  | [] => [SNone]
  | x :: r =>
      match poll_encode e (answer_of x) with
      | SPending => drain_encode e r
      | SData d => SData d :: drain_encode e r
      | o => [o]
      end
  end.

Fixpoint drain_b64 (n : nat) (buf : list N) (evs : list ev) : list sout :=
  match n with
  | O => [SCAP]
  | S n' =>
      match poll_decode_b64 buf evs with
      | (SPending, b, r) => drain_b64 n' b r
      | (SData d, b, r) => SData d :: drain_b64 n' b r
      | (o, _, _) => [o]
      end
  end.

Fixpoint drain_none_n (n : nat) (evs : list ev) : list sout :=
  match n with
  | O => [SCAP]
  | S n' =>
      match poll_decode_none evs with
      | (SPending, r) => drain_none_n n' r
      | (SData d, r) => SData d :: drain_none_n n' r
      | (STrailers t, r) => STrailers t :: drain_none_n n' r
      | (o, _) => [o]
      end
  end.
Definition drain_none (evs : list ev) : list sout := drain_none_n (S (length evs)) evs.

(* polls that can be needed to drain a base64 body: every poll consumes an event or
   at least four buffered bytes *)
Definition b64_polls (evs : list ev) : nat :=
  (length evs + length (concat (datas evs)) / 4 + 2)%nat.

Definition drain_request (e : encoding) (evs : list ev) : list sout :=
  match e with
  | Base64 => drain_b64 (b64_polls evs) [] evs
  | NoEnc => drain_none evs
  end.

(* ---------- GrpcWebService::call ---------- *)
Inductive kind :=
| KTranslate (enc accept : encoding)     (* grpc-web POST: translate request and response *)
| K405                                   (* grpc-web content-type, other method *)
| K400                                   (* anything else over HTTP/1 *)
| KPass.                                 (* anything else over HTTP/2: untouched *)

Definition request_kind (method : list N) (version : N) (headers : hm) : kind :=
  if is_grpc_web headers then
    if bytes_eqb method M_POST
    then KTranslate (enc_from_content_type headers) (enc_from_accept headers)
    else K405
  else if version =? HTTP_2 then KPass else K400.

Definition coerce_request_headers (h : hm) : hm :=
  hm_insert (hm_insert (hm_insert (hm_remove h H_CONTENT_LENGTH)
     H_CONTENT_TYPE GRPC_CONTENT_TYPE) H_TE V_TRAILERS) H_ACCEPT_ENCODING V_ACCEPT_ENCODING.

(* coerce_response (fix 7e0a074f, F-C16b: the content-length of the untranslated body goes) *)
Definition coerce_response_headers (h : hm) (accept : encoding) : hm :=
  hm_insert (hm_remove h H_CONTENT_LENGTH) H_CONTENT_TYPE (to_content_type accept).

(* ---------- independent reading of a text body ---------- *)
(* a grpc-web-text consumer decodes the stream quantum by quantum (4 characters), each
   quantum on its own, so padding may appear wherever the sender flushed *)
Fixpoint dec_quanta (l : list N) : option (list N) :=
  match l with
  | [] => Some []
  | a :: b :: c :: d :: r =>
      match dec [a; b; c; d], dec_quanta r with
      | Some x, Some y => Some (x ++ y)
      | _, _ => None
      end
  | _ => None
  end.

(* ---------- observables ---------- *)
Definition sout_tr (o : sout) : tr :=
  match o with
  | SNone => Nd [Nn 0]
  | SData d => if BIG <? nlen d then Nd [Nn 5; Nn (nlen d); Nn (digest d)] else Nd [Nn 1; Bs d]
  | STrailers t => Nd [Nn 2; hm_canon t]
  | SErr c => Nd [Nn 3; Nn c]
  | SPending => Nd [Nn 4]
  | SPanic => Nd [Nn 99]
  end.

Definition enc_tr (e : encoding) : tr := Nn (match e with Base64 => 1 | NoEnc => 0 end).

(* One call through the layer.  The inner service (when reached) drains the request body
   and answers with [rstatus], [rheaders] and the scripted body [revs].
   Observable: which of the four cases, what the inner service saw, what the caller got. *)
Definition obs_call (method : list N) (version : N) (headers : hm) (qevs : list ev)
                    (rstatus : N) (rheaders : hm) (revs : list ev) : tr :=
  match request_kind method version headers with
  | KTranslate e a =>
      Nd [Nn 1; enc_tr e; enc_tr a;
          hm_canon (coerce_request_headers headers);
          olist sout_tr (drain_request e qevs);
          Nn rstatus;
          hm_canon (coerce_response_headers rheaders a);
          olist sout_tr (drain_encode a revs)]
  | K405 => Nd [Nn 2; Nn 405]
  | K400 => Nd [Nn 3; Nn 400]
  | KPass =>
      Nd [Nn 4;
          hm_canon headers;
          olist sout_tr (drain_none qevs);
          Nn rstatus;
          hm_canon rheaders;
          olist sout_tr (drain_none revs)]
  end.

(* a response body alone (no request): used for the chunking sweeps *)
Definition obs_response (a : encoding) (revs : list ev) : tr := olist sout_tr (drain_encode a revs).
(* a request body alone *)
Definition obs_request (e : encoding) (qevs : list ev) : tr := olist sout_tr (drain_request e qevs).

(* ---------- hyper-like consumers ---------- *)
(* hyper asks is_end_stream() before the first poll and after every data frame it has taken and
   stops polling when the answer is true (the frame is sent with END_STREAM); it reads
   size_hint() before the first poll (HTTP/1: an exact hint becomes the Content-Length).
   Result: the items taken, and whether the consumer stopped because of is_end_stream. *)
Fixpoint hyper_encode_go (mode : N) (e : encoding) (evs : list ev) : list sout * bool :=
  match evs with
  | [] => ([SNone], false)
  | x :: r =>
      match poll_encode e (answer_of x) with
      | SPending => hyper_encode_go mode e r
      | SData d =>
          if wc_is_end_stream (wc_response e) (inner_eos mode r) then ([SData d], true)
          else let '(l, b) := hyper_encode_go mode e r in (SData d :: l, b)
      | o => ([o], false)
      end
  end.
Definition hyper_encode (mode : N) (e : encoding) (evs : list ev) : list sout * bool :=
  if wc_is_end_stream (wc_response e) (inner_eos mode evs) then ([], true)
  else hyper_encode_go mode e evs.

Definition hint_tr (h : hint) : tr := Nd [Nn (fst h); oopt Nn (snd h)].

(* size_hint() of the body the caller of the layer receives: tonic::body::Body::new replaces a
   body that is already at its end by Body::empty (exact 0), otherwise GrpcWebCall::size_hint *)
Definition resp_size_hint (mode : N) (exact : bool) (a : encoding) (revs : list ev) : hint :=
  if wc_is_end_stream (wc_response a) (inner_eos mode revs) then (0, Some 0)
  else wc_size_hint (wc_response a) (inner_size_hint exact revs).
Definition req_size_hint (mode : N) (exact : bool) (e : encoding) (qevs : list ev) : hint :=
  if wc_is_end_stream (wc_request e) (inner_eos mode qevs) then (0, Some 0)
  else wc_size_hint (wc_request e) (inner_size_hint exact qevs).

Definition obs_response_hyper (mode : N) (exact : bool) (a : encoding) (revs : list ev) : tr :=
  let '(l, b) := hyper_encode mode a revs in
  Nd [hint_tr (resp_size_hint mode exact a revs); olist sout_tr l; obool b].

(* the request body (Decode direction) read by a hyper-like consumer *)
Fixpoint hyper_b64 (n : nat) (mode : N) (buf : list N) (evs : list ev) : list sout * bool :=
  match n with
  | O => ([SCAP], false)
  | S n' =>
      match poll_decode_b64 buf evs with
      | (SPending, b, r) => hyper_b64 n' mode b r
      | (SData d, b, r) =>
          if wc_is_end_stream (mkCall DDecode Base64 b) (inner_eos mode r) then ([SData d], true)
          else let '(l, e) := hyper_b64 n' mode b r in (SData d :: l, e)
      | (o, _, _) => ([o], false)
      end
  end.
(* Encoding::None: one scripted event per poll (poll_decode_none); the consumer stops after a
   trailers frame *)
Fixpoint hyper_none (mode : N) (evs : list ev) : list sout * bool :=
  match evs with
  | [] => ([SNone], false)
  | x :: r =>
      match fst (poll_decode_none [x]) with
      | SPending => hyper_none mode r
      | SData d =>
          if wc_is_end_stream (wc_request NoEnc) (inner_eos mode r) then ([SData d], true)
          else let '(l, e) := hyper_none mode r in (SData d :: l, e)
      | o => ([o], false)
      end
  end.
Definition hyper_request (e : encoding) (mode : N) (evs : list ev) : list sout * bool :=
  if wc_is_end_stream (wc_request e) (inner_eos mode evs) then ([], true)
  else match e with
       | Base64 => hyper_b64 (b64_polls evs) mode [] evs
       | NoEnc => hyper_none mode evs
       end.
Definition obs_request_hyper (e : encoding) (mode : N) (exact : bool) (evs : list ev) : tr :=
  let '(l, b) := hyper_request e mode evs in
  Nd [hint_tr (req_size_hint mode exact e evs); olist sout_tr l; obool b].

(* ---------- every poll result, errors are not final ---------- *)
Definition obs_polls_request (e : encoding) (n : nat) (qevs : list ev) : tr :=
  olist sout_tr (wc_polls n (wc_request e) qevs).
Definition obs_polls_response (a : encoding) (n : nat) (revs : list ev) : tr :=
  olist sout_tr (wc_polls n (wc_response a) revs).
(* GrpcWebCall::default(): Direction::Empty *)
Definition obs_default_call (n : nat) (evs : list ev) : tr :=
  Nd [obool (wc_is_end_stream wc_default false); hint_tr (wc_size_hint wc_default (inner_size_hint true evs));
      olist sout_tr (wc_polls n wc_default evs)].

(* ---------- the translated response as an HTTP/1.1 server writes it ---------- *)
(* hyper (http1 server connection): no content-length header comes from the layer and the size
   hint is not exact, so the body is sent chunked: after transfer-decoding, the bytes on the
   wire are the bytes of the data items.  Observable: the content-length values of the
   response head, the transfer-decoded body. *)
Definition sdata_bytes (o : sout) : list N := match o with SData d => d | _ => [] end.
Definition out_bytes (l : list sout) : list N := concat (map sdata_bytes l).
Definition obs_wire (rheaders : hm) (a : encoding) (revs : list ev) : tr :=
  Nd [olist Bs (hm_get_all (coerce_response_headers rheaders a) H_CONTENT_LENGTH);
      Bs (out_bytes (drain_encode a revs))].
