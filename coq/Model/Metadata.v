(* Model of tonic/src/metadata/{map.rs,key.rs,value.rs,encoding.rs} and of the places where a
   MetadataMap is turned into wire headers: Request::into_http (request.rs) as used by
   client::Grpc (GrpcConfig::prepare_request), Response::into_http (response.rs) as used by
   server::Grpc::map_response, Status::add_header / to_header_map / into_http (status.rs; the
   first two are in Model/Status.v).  A MetadataMap is a newtype around http::HeaderMap, which
   is Lib/HeaderMap.v's [hm]. *)
From Verif Require Import Lib.Bytes Lib.Obs Lib.Base64 Lib.Percent Lib.HeaderMap.
From Verif Require Import Gen.StatusTables Model.Status.
From Coq Require Import String.
Open Scope string_scope.
Open Scope N_scope.

(* a Rust result with an explicit constructor for a reachable panic site *)
Inductive res (A : Type) : Type := Val (a : A) | Panic.
Arguments Val {A} a.
Arguments Panic {A}.

(* ------------------------------------------------------------------ header names (crate http) *)
(* HEADER_CHARS: upper case is folded to lower case, everything outside the token
   characters maps to 0 = invalid *)
Definition hn_special : list N := [33; 35; 36; 37; 38; 39; 42; 43; 45; 46; 94; 95; 96; 124; 126].
Definition hn_char (b : N) : option N :=
  let c := to_lower b in
  if is_lower c || is_digit c || existsb (N.eqb c) hn_special then Some c else None.

Fixpoint hn_chars (raw : list N) : option (list N) :=
  match raw with
  | [] => Some []
  | b :: r =>
      match hn_char b, hn_chars r with
      | Some c, Some k => Some (c :: k)
      | _, _ => None
      end
  end.

Definition MAX_HEADER_NAME_LEN : N := 65535.

(* HeaderName::from_bytes / HdrName::from_bytes: None = InvalidHeaderName *)
Definition hn_norm (raw : list N) : option hname :=
  match raw with
  | [] => None
  | _ => if nlen raw <=? MAX_HEADER_NAME_LEN then hn_chars raw else None
  end.

(* ------------------------------------------------------------------ encoding.rs *)
Definition BIN_SUFFIX : list N := Eval vm_compute in bytes_of_string "-bin".

(* Binary::is_valid_key: key.len() >= 4 && key[len-4..].eq_ignore_ascii_case("-bin") *)
Definition bin_suffix (key : list N) : bool :=
  (4 <=? List.length key)%nat && bytes_eqb (map to_lower (skipn (List.length key - 4) key)) BIN_SUFFIX.
(* Ascii::is_valid_key *)
Definition ascii_key (key : list N) : bool := negb (bin_suffix key).

(* Ascii *)
Definition ascii_is_empty (v : hvalue) : bool := match v with [] => true | _ => false end.
Definition ascii_from_bytes (v : list N) : option hvalue := mk_hv v.    (* HeaderValue::from_bytes *)
Definition ascii_decode (v : hvalue) : option (list N) := Some v.
Definition ascii_values_equal (a b : hvalue) : bool := bytes_eqb a b.

(* Binary *)
Definition bin_is_empty (v : hvalue) : bool := forallb (fun c => c =? PAD) v.
Definition bin_try_from_bytes (b : list N) : option hvalue := mk_hv (enc false b).
(* MetadataValue::<Binary>::from_bytes = try_from(..).unwrap() *)
Definition bin_from_bytes (b : list N) : res hvalue :=
  match bin_try_from_bytes b with Some v => Val v | None => Panic end.
Definition bin_decode (v : hvalue) : option (list N) := dec v.
Definition bin_equals (a : hvalue) (b : list N) : bool :=
  match dec a with Some d => bytes_eqb d b | None => bytes_eqb a b end.
Definition bin_values_equal (a b : hvalue) : bool :=
  match dec a, dec b with
  | Some x, Some y => bytes_eqb x y
  | None, None => true
  | _, _ => false
  end.

(* ------------------------------------------------------------------ key.rs *)
(* MetadataKey::<VE>::from_bytes: normalise, then check the suffix; [bin] selects VE *)
Definition mk_key (bin : bool) (raw : list N) : option hname :=
  match hn_norm raw with
  | Some k => if Bool.eqb (bin_suffix k) bin then Some k else None
  | None => None
  end.

(* ---- literal ('static) keys and values ---- *)
(* HeaderName::from_static: HEADER_CHARS_H2 - no case folding (upper case is invalid), the
   token characters plus the double quote (34); panics on an empty, too long or invalid name *)
Definition hn_static_char (b : N) : bool :=
  is_lower b || is_digit b || existsb (N.eqb b) hn_special || (b =? 34).
Definition hn_static_ok (raw : list N) : bool :=
  match raw with
  | [] => false
  | _ => (nlen raw <=? MAX_HEADER_NAME_LEN) && forallb hn_static_char raw
  end.
(* MetadataKey::<VE>::from_static: HeaderName::from_static, then panics (invalid metadata key)
   unless the suffix fits VE *)
Definition mk_key_static (bin : bool) (raw : list N) : res hname :=
  if hn_static_ok raw then (if Bool.eqb (bin_suffix raw) bin then Val raw else Panic) else Panic.
(* MetadataValue::<Ascii>::from_static = HeaderValue::from_static: visible ASCII and tab only
   (no obs-text, unlike from_bytes), panics otherwise *)
Definition hv_static_byte (b : N) : bool := ((32 <=? b) && (b <? 127)) || (b =? 9).
Definition ascii_from_static (v : list N) : res hvalue := if forallb hv_static_byte v then Val v else Panic.
(* MetadataValue::<Binary>::from_static: panics unless the text decodes, then keeps the TEXT as is *)
Definition bin_from_static (v : list N) : res hvalue :=
  match dec v with Some _ => Val v | None => Panic end.
(* FromStr / TryFrom<&str> for MetadataValue<Ascii>, TryFrom<Bytes> (from_shared): the rules of
   from_bytes *)
Definition ascii_from_str (v : list N) : option hvalue := ascii_from_bytes v.
Definition ascii_from_shared (v : list N) : option hvalue := ascii_from_bytes v.
Definition bin_from_shared (b : list N) : option hvalue := bin_try_from_bytes b.
(* FromStr for MetadataKey<VE> *)
Definition mk_key_from_str (bin : bool) (raw : list N) : option hname := mk_key bin raw.

(* ------------------------------------------------------------------ map.rs *)
Definition metadata := hm.
Definition from_headers (h : hm) : metadata := h.
Definition into_headers (m : metadata) : hm := m.
(* for r in GRPC_RESERVED_HEADERS { headers.remove(r) } *)
Definition into_sanitized_headers (m : metadata) : hm := sanitize m.

(* string-keyed typed accessors (impl AsMetadataKey<VE> for &str): the suffix check on the
   string as written, then http's lookup, which normalises the name *)
Definition str_lookup {A} (bin : bool) (raw : list N) (dflt : A) (f : hname -> A) : A :=
  if negb (Bool.eqb (bin_suffix raw) bin) then dflt
  else match hn_norm raw with Some k => f k | None => dflt end.

Definition get (m : metadata) (raw : list N) : option hvalue := str_lookup false raw None (hm_get m).
Definition get_bin (m : metadata) (raw : list N) : option hvalue := str_lookup true raw None (hm_get m).
(* GetAll { inner: None } iterates over nothing *)
Definition get_all (m : metadata) (raw : list N) : list hvalue := str_lookup false raw [] (hm_get_all m).
Definition get_all_bin (m : metadata) (raw : list N) : list hvalue := str_lookup true raw [] (hm_get_all m).
Definition remove (m : metadata) (raw : list N) : metadata := str_lookup false raw m (hm_remove m).
Definition remove_bin (m : metadata) (raw : list N) : metadata := str_lookup true raw m (hm_remove m).
(* encoding agnostic *)
Definition contains_key (m : metadata) (raw : list N) : bool :=
  match hn_norm raw with Some k => hm_contains m k | None => false end.

(* accessors keyed by an already validated MetadataKey<VE> *)
Definition insert (m : metadata) (k : hname) (v : hvalue) : metadata := hm_insert m k v.
Definition append (m : metadata) (k : hname) (v : hvalue) : metadata := hm_append m k v.
Definition merge (m o : metadata) : metadata := hm_extend m o.

(* insert / append (+_bin) with a &'static str key: MetadataKey::<VE>::from_static(key) first *)
Definition insert_static (bin : bool) (m : metadata) (raw : list N) (v : hvalue) : res metadata :=
  match mk_key_static bin raw with Val k => Val (insert m k v) | Panic => Panic end.
Definition append_static (bin : bool) (m : metadata) (raw : list N) (v : hvalue) : res metadata :=
  match mk_key_static bin raw with Val k => Val (append m k v) | Panic => Panic end.
(* accessors keyed by a validated MetadataKey<VE> (by value or by reference): no suffix test,
   the key's type carries it *)
Definition get_by_key (m : metadata) (k : hname) : option hvalue := hm_get m k.
Definition get_all_by_key (m : metadata) (k : hname) : list hvalue := hm_get_all m k.
Definition remove_by_key (m : metadata) (k : hname) : metadata := hm_remove m k.

(* Iter::next: every entry of the underlying map once, tagged by the suffix of its name;
   true = KeyAndValueRef::Binary *)
Definition iter (m : metadata) : list (bool * (hname * hvalue)) :=
  map (fun e => (negb (ascii_key (fst e)), e)) m.
Definition iter_ascii (m : metadata) : hm := map snd (filter (fun te => negb (fst te)) (iter m)).
Definition iter_bin (m : metadata) : hm := map snd (filter (fun te => fst te) (iter m)).

(* Keys::next: http's Keys yields every distinct name once (order of first insertion), tagged
   KeyRef::Ascii / KeyRef::Binary by its suffix (true = Binary) *)
Fixpoint hm_names (m : hm) : list hname :=
  match m with
  | [] => []
  | e :: r => fst e :: filter (fun k' => negb (bytes_eqb k' (fst e))) (hm_names r)
  end.
Definition keys (m : metadata) : list (bool * hname) :=
  map (fun k => (negb (ascii_key k), k)) (hm_names m).

(* Values::next / ValuesMut::next: every value of every entry once, tagged by the suffix of the
   name it is stored under *)
Definition values (m : metadata) : list (bool * hvalue) :=
  map (fun e => (negb (ascii_key (fst e)), snd e)) m.
Definition values_mut (m : metadata) : list (bool * hvalue) :=
  map (fun e => (negb (ascii_key (fst e)), snd e)) m.
(* IterMut::next *)
Definition iter_mut (m : metadata) : list (bool * (hname * hvalue)) :=
  map (fun e => (negb (ascii_key (fst e)), e)) m.

(* writing through the mutable references: [f tag old] is the value the caller stores through
   the reference it was handed with that tag *)
Definition values_mut_apply (f : bool -> hvalue -> hvalue) (m : metadata) : metadata :=
  map (fun e => (fst e, f (negb (ascii_key (fst e))) (snd e))) m.
Definition iter_mut_apply (f : bool -> hvalue -> hvalue) (m : metadata) : metadata :=
  map (fun e => (fst e, f (negb (ascii_key (fst e))) (snd e))) m.

(* http::HeaderMap::get_mut: the first value of the name *)
Fixpoint hm_set_first (m : hm) (k : hname) (v : hvalue) : hm :=
  match m with
  | [] => []
  | e :: r => if key_is k e then (fst e, v) :: r else e :: hm_set_first r k v
  end.
Definition hm_set_all (m : hm) (k : hname) (v : hvalue) : hm :=
  map (fun e => if key_is k e then (fst e, v) else e) m.
(* get_mut / get_bin_mut: the same string-keyed lookup as get / get_bin *)
Definition get_mut (m : metadata) (raw : list N) : option hvalue := str_lookup false raw None (hm_get m).
Definition get_bin_mut (m : metadata) (raw : list N) : option hvalue := str_lookup true raw None (hm_get m).
(* ... and the map after the caller stored [v] through the reference (unchanged on None) *)
Definition get_mut_set (m : metadata) (raw : list N) (v : hvalue) : metadata :=
  str_lookup false raw m (fun k => hm_set_first m k v).
Definition get_bin_mut_set (m : metadata) (raw : list N) (v : hvalue) : metadata :=
  str_lookup true raw m (fun k => hm_set_first m k v).

(* ---- Entry API.  A handle carries the value encoding VE it is typed with ([e_bin]: true =
   Binary) and the name it stands on. *)
Inductive entry_t : Type := Occupied (e_bin : bool) (k : hname) | Vacant (e_bin : bool) (k : hname).
Definition entry_bin_of (e : entry_t) : bool := match e with Occupied b _ | Vacant b _ => b end.
Definition entry_key (e : entry_t) : hname := match e with Occupied _ k | Vacant _ k => k end.

(* entry / entry_bin with a string key (impl AsMetadataKey<VE> for &str / String / &String):
   suffix check on the string as written -> Err; HeaderName::from_bytes -> Err; headers.entry.
   None = Err(InvalidMetadataKey); [bin] selects entry_bin *)
Definition entry_str (bin : bool) (m : metadata) (raw : list N) : option entry_t :=
  if negb (Bool.eqb (bin_suffix raw) bin) then None
  else match hn_norm raw with
       | Some k => Some (if hm_contains m k then Occupied bin k else Vacant bin k)
       | None => None
       end.
(* entry / entry_bin with a validated MetadataKey<VE>: always Ok *)
Definition entry_key_typed (bin : bool) (m : metadata) (k : hname) : entry_t :=
  if hm_contains m k then Occupied bin k else Vacant bin k.

(* VacantEntry<VE> *)
Definition vacant_insert (m : metadata) (k : hname) (v : hvalue) : metadata := hm_append m k v.
(* insert_entry returns OccupiedEntry<'a, VE>: the same encoding as the vacant handle *)
Definition vacant_insert_entry (bin : bool) (m : metadata) (k : hname) (v : hvalue) : metadata * entry_t :=
  (hm_append m k v, Occupied bin k).
(* OccupiedEntry<VE> *)
Definition occ_get (m : metadata) (k : hname) : option hvalue := hm_get m k.
Definition occ_iter (m : metadata) (k : hname) : list hvalue := hm_get_all m k.
Definition occ_insert (m : metadata) (k : hname) (v : hvalue) : metadata * option hvalue :=
  (hm_insert m k v, hm_get m k).
(* insert_mult forwards to http::header::OccupiedEntry::insert_mult, which (crate http 1.5.0,
   HeaderMap::insert_occupied_mult) panics when the name has three or more values *)
Definition occ_insert_mult (m : metadata) (k : hname) (v : hvalue) : res (metadata * list hvalue) :=
  if (3 <=? List.length (hm_get_all m k))%nat then Panic
  else Val (hm_insert m k v, hm_get_all m k).
Definition occ_append (m : metadata) (k : hname) (v : hvalue) : metadata := hm_append m k v.
Definition occ_remove (m : metadata) (k : hname) : metadata * option hvalue := (hm_remove m k, hm_get m k).
Definition occ_remove_entry_mult (m : metadata) (k : hname) : metadata * (hname * list hvalue) :=
  (hm_remove m k, (k, hm_get_all m k)).

(* ------------------------------------------------------------------ emit paths *)
Definition hdr_te : hname := Eval vm_compute in bytes_of_string "te".
Definition hdr_content_type : hname := Eval vm_compute in bytes_of_string "content-type".
Definition hdr_grpc_encoding : hname := Eval vm_compute in bytes_of_string "grpc-encoding".
Definition hdr_grpc_accept_encoding : hname := Eval vm_compute in bytes_of_string "grpc-accept-encoding".
Definition val_trailers : hvalue := Eval vm_compute in bytes_of_string "trailers".
Definition val_app_grpc : hvalue := Eval vm_compute in bytes_of_string "application/grpc".

(* the header part of Request::into_http(uri, method, version, sanitize_headers) *)
Definition request_headers (sanitize_yes : bool) (md : metadata) : hm :=
  if sanitize_yes then into_sanitized_headers md else into_headers md.

Definition ins_opt (h : hm) (name : hname) (o : option hvalue) : hm :=
  match o with Some v => hm_insert h name v | None => h end.

(* client::Grpc, GrpcConfig::prepare_request: [send] is the configured send encoding's header
   value, [accept] the value of into_accept_encoding_header_value() *)
Definition client_request_headers (send accept : option hvalue) (md : metadata) : hm :=
  let h := request_headers true md in
  let h := hm_insert h hdr_te val_trailers in
  let h := hm_insert h hdr_content_type val_app_grpc in
  let h := ins_opt h hdr_grpc_encoding send in
  ins_opt h hdr_grpc_accept_encoding accept.

(* Response::into_http followed by server::Grpc::map_response; [encoding] = the negotiated
   response encoding *)
Definition response_headers (md : metadata) : hm := into_sanitized_headers md.
Definition server_response_headers (encoding : option hvalue) (md : metadata) : hm :=
  let h := response_headers md in
  let h := hm_insert h hdr_content_type val_app_grpc in
  ins_opt h hdr_grpc_encoding encoding.

(* trailers of a server stream: Status::to_header_map (Model/Status.v).
   Trailers-only response: Status::into_http = new response, content-type, add_header().unwrap() *)
Definition status_into_http_headers (st : status) : res hm :=
  match add_header st (hm_insert [] hdr_content_type val_app_grpc) with
  | Some h => Val h
  | None => Panic
  end.

(* ------------------------------------------------------------------ building a map *)
(* one mutation of a MetadataMap through the public API; keys are given as written by the
   user: 0/1 insert/append (ASCII key + value bytes), 2/3 insert_bin/append_bin (key + raw
   bytes, value built with from_bytes), 4/5 remove/remove_bin (string key).  An invalid key or
   value is an Err in Rust before the map is touched: the map is unchanged. *)
Definition apply_op (m : metadata) (op : N * (list N * list N)) : metadata :=
  let '(t, (raw, v)) := op in
  if t <? 2 then
    match mk_key false raw, ascii_from_bytes v with
    | Some k, Some hv => if t =? 0 then insert m k hv else append m k hv
    | _, _ => m
    end
  else if t <? 4 then
    match mk_key true raw, bin_try_from_bytes v with
    | Some k, Some hv => if t =? 2 then insert m k hv else append m k hv
    | _, _ => m
    end
  else if t =? 4 then remove m raw
  else remove_bin m raw.
Definition apply_ops (ops : list (N * (list N * list N))) : metadata := fold_left apply_op ops [].

(* ------------------------------------------------------------------ observables *)
Definition bin_val_obs (v : hvalue) : tr := Nd [Bs v; oopt Bs (bin_decode v); obool (bin_is_empty v)].
Definition obs_probe (m : metadata) (raw : list N) : tr :=
  Nd [ oopt Bs (get m raw); oopt bin_val_obs (get_bin m raw);
       olist Bs (get_all m raw); olist bin_val_obs (get_all_bin m raw);
       obool (contains_key m raw);
       oopt Bs (get_mut m raw); oopt bin_val_obs (get_bin_mut m raw);
       (* the String and &String impls answer like the &str impl *)
       obool true ].
Definition obs_iter (m : metadata) : tr := Nd [hm_canon (iter_ascii m); hm_canon (iter_bin m)].
(* order-free presentation of a multiset of byte strings *)
Fixpoint ins_sorted (x : list N) (l : list (list N)) : list (list N) :=
  match l with
  | [] => [x]
  | y :: r => if bytes_ltb y x then y :: ins_sorted x r else x :: l
  end.
Definition sort_bytes (l : list (list N)) : list (list N) := fold_right ins_sorted [] l.
Definition obs_tagged (l : list (bool * list N)) : tr :=
  Nd [ olist Bs (sort_bytes (map snd (filter (fun tv => negb (fst tv)) l)));
       olist Bs (sort_bytes (map snd (filter (fun tv => fst tv) l))) ].
Definition obs_iter_mut (m : metadata) : tr :=
  Nd [ hm_canon (map snd (filter (fun te => negb (fst te)) (iter_mut m)));
       hm_canon (map snd (filter (fun te => fst te) (iter_mut m))) ].
(* what the peer sees when it reads headers [h] with MetadataMap::from_headers: the map, iter,
   iter_mut, keys, values, values_mut and the string-keyed accessors *)
Definition obs_read (h : hm) (probes : list (list N)) : tr :=
  let m := from_headers h in
  Nd [hm_canon (into_headers m); obs_iter m; obs_iter_mut m; obs_tagged (keys m);
      obs_tagged (values m); obs_tagged (values_mut m); olist (obs_probe m) probes].

(* how a MetadataValue<VE> / MetadataKey<VE> shows itself: its encoding, its text, to_bytes() *)
Definition val_obs (bin : bool) (v : hvalue) : tr :=
  Nd [obool bin; Bs v; oopt Bs (if bin then bin_decode v else ascii_decode v)].
Definition key_obs (bin : bool) (k : hname) : tr := Nd [obool bin; Bs k].

(* what the harness stores through a mutable reference it was handed with tag [bin] *)
Definition BIN_MARK : hvalue := Eval vm_compute in enc false [1].
Definition mut_val (bin : bool) (v : hvalue) : hvalue := if bin then BIN_MARK else (v ++ [33])%list.

(* one use of the Entry API: (bin, (key as written, (action, value bytes))) *)
Definition entry_value (bin : bool) (v : list N) : option hvalue :=
  if bin then bin_try_from_bytes v else ascii_from_bytes v.
Definition occ_obs (bin : bool) (m : metadata) (k : hname) : tr :=
  Nd [oopt (val_obs bin) (occ_get m k); olist (val_obs bin) (occ_iter m k)].
Definition entry_op_ok (m : metadata) (op : bool * (list N * (N * list N))) : metadata * tr :=
  let '(bin, (raw, (act, vb))) := op in
  match entry_str bin m raw, entry_value bin vb with
  | None, _ => (m, Nd [Nn 0])
  | Some _, None => (m, Nd [Nn 9])
  | Some (Vacant b k), Some v =>
      if act =? 0 then (* Entry::or_insert *)
        (vacant_insert m k v, Nd [Nn 1; key_obs b k; val_obs b v])
      else if act =? 1 then (* VacantEntry::insert *)
        (vacant_insert m k v, Nd [Nn 1; key_obs b k; val_obs b v])
      else if act =? 2 then (* insert_entry, then the handle it returns: key, get, iter *)
        let '(m', e) := vacant_insert_entry b m k v in
        (m', Nd [Nn 1; key_obs b k; key_obs (entry_bin_of e) (entry_key e); occ_obs (entry_bin_of e) m' (entry_key e)])
      else if act =? 3 then (* insert_entry, then append a second value through the handle *)
        let '(m', e) := vacant_insert_entry b m k v in
        let m'' := occ_append m' (entry_key e) v in
        (m'', Nd [Nn 1; key_obs b k; key_obs (entry_bin_of e) (entry_key e); occ_obs (entry_bin_of e) m'' (entry_key e)])
      else (* into_key *)
        (m, Nd [Nn 1; key_obs b k; key_obs b k])
  | Some (Occupied b k), Some v =>
      let head := [Nn 2; key_obs b k; occ_obs b m k] in
      if act =? 0 then (* Entry::or_insert -> into_mut: the first value, map unchanged *)
        (m, Nd [Nn 2; key_obs b k; oopt (val_obs b) (occ_get m k)])
      else if act =? 1 then
        let '(m', old) := occ_insert m k v in (m', Nd (head ++ [oopt (val_obs b) old])%list)
      else if act =? 2 then
        let m' := occ_append m k v in (m', Nd (head ++ [occ_obs b m' k])%list)
      else if act =? 3 then
        let '(m', old) := occ_remove m k in (m', Nd (head ++ [oopt (val_obs b) old])%list)
      else if act =? 4 then
        match occ_insert_mult m k v with
        | Val (m', olds) => (m', Nd (head ++ [olist (val_obs b) olds])%list)
        | Panic => (m, Nd [Nn 98])
        end
      else if act =? 5 then
        let '(m', (k', olds)) := occ_remove_entry_mult m k in
        (m', Nd (head ++ [key_obs b k'; olist (val_obs b) olds])%list)
      else if act =? 6 then (* get_mut: store v through the reference *)
        (hm_set_first m k v, Nd head)
      else (* iter_mut: store v through every reference *)
        (hm_set_all m k v, Nd head)
  end.
(* None = that operation panicked; the harness stops there *)
Definition entry_op (m : metadata) (op : bool * (list N * (N * list N))) : res (metadata * tr) :=
  let '(m', t) := entry_op_ok m op in
  if tr_eqb t (Nd [Nn 98]) then Panic else Val (m', t).
Fixpoint entry_ops (m : metadata) (ops : list (bool * (list N * (N * list N)))) : list tr * option metadata :=
  match ops with
  | [] => ([], Some m)
  | op :: r =>
      match entry_op m op with
      | Panic => ([Nd [Nn 98]], None)
      | Val (m', t) => let '(ts, fm) := entry_ops m' r in (t :: ts, fm)
      end
  end.

Definition obs_client (send accept : option hvalue) (md : metadata) (probes : list (list N)) : tr :=
  obs_read (client_request_headers send accept md) probes.
Definition obs_server_headers (encoding : option hvalue) (md : metadata) (probes : list (list N)) : tr :=
  obs_read (server_response_headers encoding md) probes.
Definition obs_trailers (st : status) (probes : list (list N)) : tr :=
  match to_header_map st with
  | None => Nd [Nn 0]
  | Some h => Nd [Nn 1; obs_read h probes]
  end.
Definition obs_trailers_only (st : status) (probes : list (list N)) : tr :=
  match status_into_http_headers st with
  | Panic => Nd [Nn 99]
  | Val h => Nd [Nn 1; obs_read h probes]
  end.
Definition obs_add_header (st : status) (m0 : hm) (probes : list (list N)) : tr :=
  match add_header st m0 with
  | None => Nd [Nn 0]
  | Some h => Nd [Nn 1; obs_read h probes]
  end.
(* the receiving side of an error status: the peer reads the header map (trailers, or the head
   of a trailers-only response) with Status::from_header_map - this is what client::Grpc does
   in create_response and Streaming in infer_grpc_status - and looks at status.metadata() *)
Definition status_received (st : status) (m0 : hm) : option status :=
  match add_header st m0 with
  | Some h => from_header_map h
  | None => None
  end.
Definition obs_status_received (st : status) (m0 : hm) (probes : list (list N)) : tr :=
  oopt (fun st' => Nd [status_obs st'; obs_read (into_headers (st_md st')) probes]) (status_received st m0).
(* the client's view of a trailers-only error (head built by Status::into_http) *)
(* premise (M1): the status metadata has no entry named grpc-encoding - client::Grpc consults
   that header of the response head before it looks for a status (create_response, C05), so a
   trailers-only response carrying one is outside this model: marked, not compared *)
Definition obs_client_error_trailers_only (st : status) (probes : list (list N)) : tr :=
  if hm_contains (st_md st) hdr_grpc_encoding then Nd [Nn 5]
  else obs_status_received st (hm_insert [] hdr_content_type val_app_grpc) probes.
(* ... and of an error status in the trailers after messages *)
Definition obs_client_error_trailers (st : status) (probes : list (list N)) : tr :=
  obs_status_received st [] probes.
(* ---- MetadataMap::merge (headers.extend(other.headers)) and its three uses ---- *)
(* client::Grpc::client_streaming (also unary): Response::from_http(head) gives the response
   headers as metadata, then `parts.merge(trailers)` with the trailers the body ended with *)
Definition client_unary_response_metadata (hdrs : hm) (trailers : option hm) : metadata :=
  match trailers with
  | Some t => merge (from_headers hdrs) (from_headers t)
  | None => from_headers hdrs
  end.
(* the same function when the first thing the body yields is an error status read from the
   trailers: `status.metadata_mut().merge(parts.clone())` - the response headers are folded
   INTO the status metadata *)
Definition client_unary_error_metadata (hdrs trailers : hm) : option metadata :=
  match from_header_map trailers with
  | Some st => Some (merge (st_md st) (from_headers hdrs))
  | None => None
  end.
(* server::Grpc::map_request_unary: Request::from_http_parts, then
   `req.metadata_mut().merge(trailers)` with the request trailers *)
Definition server_unary_request_metadata (hdrs : hm) (trailers : option hm) : metadata :=
  match trailers with
  | Some t => merge (from_headers hdrs) (from_headers t)
  | None => from_headers hdrs
  end.
Definition obs_client_unary_metadata (hdrs : hm) (trailers : option hm) (probes : list (list N)) : tr :=
  obs_read (into_headers (client_unary_response_metadata hdrs trailers)) probes.
Definition obs_client_unary_error_metadata (hdrs trailers : hm) (probes : list (list N)) : tr :=
  oopt (fun m => obs_read (into_headers m) probes) (client_unary_error_metadata hdrs trailers).
Definition obs_server_unary_request_metadata (hdrs : hm) (trailers : option hm) (probes : list (list N)) : tr :=
  obs_read (into_headers (server_unary_request_metadata hdrs trailers)) probes.

Definition obs_request_headers (sanitize_yes : bool) (md : metadata) : tr :=
  hm_canon (request_headers sanitize_yes md).

Definition obs_bin_value (b : list N) : tr :=
  match bin_from_bytes b with
  | Panic => Nd [Nn 99]
  | Val v => Nd [Nn 1; bin_val_obs v; bin_val_obs (enc true b); obool (bin_values_equal v (enc true b));
                 obool (bin_equals v b)]
  end.
Definition obs_bin_text (v : hvalue) : tr := bin_val_obs v.
Definition obs_values_equal (a b : hvalue) : tr :=
  Nd [obool (bin_values_equal a b); obool (ascii_values_equal a b)].
Definition obs_key (raw : list N) : tr := Nd [oopt Bs (mk_key false raw); oopt Bs (mk_key true raw)].
Definition obs_ascii_value (v : list N) : tr :=
  Nd [oopt Bs (ascii_from_bytes v); obool (ascii_is_empty v)].
Definition obs_build (ops : list (N * (list N * list N))) (probes : list (list N)) : tr :=
  obs_read (into_headers (apply_ops ops)) probes.

(* maps built through the typed API, then used through the Entry API *)
Definition obs_entry (ops : list (N * (list N * list N))) (eops : list (bool * (list N * (N * list N)))) : tr :=
  let '(ts, fm) := entry_ops (apply_ops ops) eops in
  Nd [Nd ts; match fm with Some m => Nd [hm_canon (into_headers m); obs_iter m] | None => Nd [] end].
(* ... and written to through get_mut / get_bin_mut / values_mut / iter_mut *)
Definition obs_mutate (ops : list (N * (list N * list N))) (raw va vb : list N) : tr :=
  let m := apply_ops ops in
  match ascii_from_bytes va, bin_try_from_bytes vb with
  | Some a, Some b =>
      Nd [ oopt Bs (get_mut m raw); oopt bin_val_obs (get_bin_mut m raw);
           hm_canon (get_mut_set m raw a); hm_canon (get_bin_mut_set m raw b);
           hm_canon (values_mut_apply mut_val m); hm_canon (iter_mut_apply mut_val m) ]
  | _, _ => Nd [Nn 9]
  end.

(* literal keys and values; [m] is built by ops, then written to with literal keys *)
Definition res_obs {A} (f : A -> tr) (r : res A) : tr :=
  match r with Val a => Nd [Nn 1; f a] | Panic => Nd [Nn 99] end.
Definition obs_static (ops : list (N * (list N * list N))) (raw v : list N) : tr :=
  let m := apply_ops ops in
  let sv : hvalue := [115; 118] in
  Nd [ res_obs Bs (mk_key_static false raw); res_obs Bs (mk_key_static true raw);
       oopt Bs (mk_key_from_str false raw); oopt Bs (mk_key_from_str true raw);
       res_obs Bs (ascii_from_static v); res_obs bin_val_obs (bin_from_static v);
       oopt Bs (ascii_from_str v); oopt Bs (ascii_from_shared v); oopt bin_val_obs (bin_from_shared v);
       res_obs hm_canon (insert_static false m raw sv); res_obs hm_canon (append_static false m raw sv);
       res_obs hm_canon (insert_static true m raw BIN_MARK); res_obs hm_canon (append_static true m raw BIN_MARK);
       (* accessors keyed by MetadataKey<VE> / &MetadataKey<VE> answer like the string-keyed ones *)
       obool true ].
