(* One gRPC call end to end: the glue between the codec models (C02).

     client::Grpc::{unary, client_streaming, server_streaming, streaming}, create_response
                                                              tonic/src/client/grpc.rs
     server::Grpc::{unary, server_streaming, client_streaming, streaming},
       map_request_unary, map_request_streaming, map_response, t!  tonic/src/server/grpc.rs
     Request::{into_http, from_http_parts}, Response::{into_http, from_http}
                                                              tonic/src/request.rs, response.rs
     Streaming::{message, trailers}                           tonic/src/codec/decode.rs
     MetadataMap::merge (= HeaderMap::extend: names of the other map REPLACE)  metadata/map.rs

   caller --md, messages--> client::Grpc --head + EncodeBody(Client)--> TRANSPORT -->
     server::Grpc --Request--> handler (scripted) --Response | Status--> server::Grpc
     --head + EncodeBody(Server) | trailers-only--> TRANSPORT --> client::Grpc --> caller

   The transport is Model/Codec.v's contract [carries] (the head arrives first, DATA re-cut
   arbitrarily with Pending anywhere, then at most one trailers block); [transport cuts pend] is
   the executable member the harness h_call implements.

   Each side carries its configuration ([side]): the two message size limits, the codec's
   buffer settings and the compression settings (client: send_compressed / accept_compressed;
   server: accept_compressed / send_compressed).  The negotiation itself is Model/Negotiate.v's
   (from_encoding_header, from_accept_encoding_header, accept_value - C05); the theorems of C02
   are stated for sides without compression ([plain]), the correspondence run also exercises
   compression.  The peer's grpc-encoding header is always examined by the real rule, so a
   grpc-encoding entry smuggled in through user metadata is refused exactly as the code does.
   One message type and codec for both directions (take a sum type for two).  Definitions only;
   proofs in Proofs/Call.v. *)
From Verif Require Import Lib.Bytes Lib.Obs Lib.BE32 Lib.HeaderMap Model.Frame Model.Status.
From Verif Require Import Gen.StatusTables Gen.CompressionTables.
From Verif Require Model.Encoder Model.Negotiate Model.Metadata.
From Verif Require Import Model.Decoder Model.Codec.
From Coq Require String.
Import String.StringSyntax.
Close Scope string_scope.
Open Scope list_scope.
Open Scope N_scope.

Inductive shape := Unary | ClientStreaming | ServerStreaming | Bidi.
(* the request / the response is a stream (otherwise exactly one message) *)
Definition req_streaming (s : shape) : bool :=
  match s with ClientStreaming | Bidi => true | _ => false end.
Definition resp_streaming (s : shape) : bool :=
  match s with ServerStreaming | Bidi => true | _ => false end.

(* the configuration of a client::Grpc / a server::Grpc:
   max_encoding_message_size, max_decoding_message_size (also through
   apply_max_message_size_config), the codec's BufferSettings,
   send_enc    - client: send_compressed (the encoding of the request body)
   accept_encs - accept_compressed (what may be received)
   send_encs   - server: send_compressed (what may be chosen for the response) *)
Record side := mkSide { max_enc : option N; max_dec : option N; buf_size : N; yield_thr : N;
                        send_enc : option encoding; accept_encs : Negotiate.enabled;
                        send_encs : Negotiate.enabled }.
Definition default_side : side :=
  mkSide None None 8192 32768 None Negotiate.en_default Negotiate.en_default.
(* no compression configured *)
Definition plain (s : side) : Prop :=
  send_enc s = None /\ accept_encs s = Negotiate.en_default /\ send_encs s = Negotiate.en_default.
(* the configuration of the EncodeBody that sends with encoding [comp] *)
Definition cfg_with (s : side) (comp : option encoding) : Encoder.cfg encoding :=
  Encoder.mkCfg comp false (max_enc s) (buf_size s) (yield_thr s).
Definition cfg_of (s : side) : Encoder.cfg encoding := cfg_with s None.

Definition st_missing_request : status :=
  mkStatus Code_Internal (bytes_of_string "Missing request message.") [] [].
Definition st_missing_response : status :=
  mkStatus Code_Internal (bytes_of_string "Missing response message.") [] [].

(* how a drained stream ended *)
Inductive stream_end := EndOk | EndErr (st : status) | EndUnread | EndHang | EndPanic.

Section Call.
Variable msg : Type.
Variable ser : msg -> option (list N).
Variable deser : list N -> option msg.
Variable compress : encoding -> list N -> list N.
Variable decompress : encoding -> list N -> option (list N).

Local Notation dec := (dec encoding).
Local Notation sevent := (Encoder.sevent msg).

(* ------------------------------------------------------------------ consuming a Streaming *)
(* Streaming::message (= poll_next until it is Ready): [fuel] polls at most *)
Inductive pulled :=
| Got (r : pres msg) (d : dec) (evs : list bev) (g : bstat)      (* r is not Pending *)
| PullHang.
Fixpoint pull (fuel : nat) (evs : list bev) (g : bstat) (d : dec) : pulled :=
  match fuel with
  | O => PullHang
  | S k =>
      let '(r, d', evs', g') := dec_poll deser decompress evs g d in
      match r with
      | Pending => pull k evs' g' d'
      | _ => Got r d' evs' g'
      end
  end.

(* while let Some(m) = stream.message().await? { .. }: the messages, and how it ended *)
Inductive cend :=
| CEnd (d : dec) (evs : list bev) (g : bstat)
| CErr (st : status) (d : dec) (evs : list bev) (g : bstat)
| CUnread
| CHang
| CPanic.
Fixpoint collect (fuel : nat) (evs : list bev) (g : bstat) (d : dec) : list msg * cend :=
  match fuel with
  | O => ([], CHang)
  | S k =>
      let '(r, d', evs', g') := dec_poll deser decompress evs g d in
      match r with
      | Pending => collect k evs' g' d'
      | Item (IOk m) => let '(ms, e) := collect k evs' g' d' in (m :: ms, e)
      | Item (IErr st) => ([], CErr st d' evs' g')
      | Done => ([], CEnd d' evs' g')
      | Panic => ([], CPanic)
      end
  end.
(* a consumer that calls message() at most [j] times (a handler that answers before it has
   read its whole request stream): CUnread = it stopped asking *)
Fixpoint collect_n (fuel : nat) (j : nat) (evs : list bev) (g : bstat) (d : dec) {struct fuel}
  : list msg * cend :=
  match j with
  | O => ([], CUnread)
  | S j' =>
      match fuel with
      | O => ([], CHang)
      | S k =>
          let '(r, d', evs', g') := dec_poll deser decompress evs g d in
          match r with
          | Pending => collect_n k j evs' g' d'
          | Item (IOk m) => let '(ms, e) := collect_n k j' evs' g' d' in (m :: ms, e)
          | Item (IErr st) => ([], CErr st d' evs' g')
          | Done => ([], CEnd d' evs' g')
          | Panic => ([], CPanic)
          end
      end
  end.
Definition end_of (e : cend) : stream_end :=
  match e with
  | CEnd _ _ _ => EndOk
  | CErr st _ _ _ => EndErr st
  | CUnread => EndUnread
  | CHang => EndHang
  | CPanic => EndPanic
  end.

(* Streaming::trailers: the cached trailers if any; otherwise drain the stream (its messages
   are dropped, an error is returned), then the trailers it cached meanwhile *)
Inductive trailers_res := TrOk (t : option hm) | TrErr (st : status) | TrHang | TrPanic.
Definition stream_trailers (fuel : nat) (evs : list bev) (g : bstat) (d : dec) : trailers_res :=
  match d_trailers d with
  | Some t => TrOk (Some t)
  | None =>
      match collect fuel evs g d with
      | (_, CEnd d' _ _) => TrOk (d_trailers d')
      | (_, CErr st _ _ _) => TrErr st
      | (_, CHang) | (_, CUnread) => TrHang
      | (_, CPanic) => TrPanic
      end
  end.

(* ------------------------------------------------------------------ client, sending *)
(* GrpcConfig::prepare_request (headers; the URI is C03's) + EncodeBody::new_client.
   [src] is the caller's message stream; for the unary request shapes it is once(m), which is
   always ready: [SItem (IOk m)] *)
(* None = the unwrap in into_accept_encoding_header_value *)
Definition request_headers (cl : side) (md : hm) : option hm :=
  let send := option_map Negotiate.as_str (send_enc cl) in
  match Negotiate.accept_value (accept_encs cl) with
  | Negotiate.AvPanic => None
  | Negotiate.AvNone => Some (Metadata.client_request_headers send None md)
  | Negotiate.AvSome v => Some (Metadata.client_request_headers send (Some v) md)
  end.
Definition request_frames (cl : side) (src : list sevent) : list Encoder.bframe :=
  Encoder.frames_of (Encoder.run_body msg encoding ser compress (cfg_with cl (send_enc cl))
                       Encoder.Client src 0).

(* ------------------------------------------------------------------ server, receiving *)
(* what the handler is called with, or why it is not called *)
Inductive seen :=
| SeenRejected (st : status)                         (* answered by the server without the handler *)
| SeenUnary (md : hm) (m : msg)                      (* Request<M> *)
| SeenStream (md : hm) (ms : list msg) (e : stream_end)   (* Request<Streaming<M>>, drained by the handler *)
| SeenPanic
| SeenHang.

(* request_encoding_if_supported / the check at the head of create_response *)
Definition recv_encoding (s : side) (headers : hm) : Negotiate.recv :=
  Negotiate.from_encoding_header headers (accept_encs s).

(* [reads]: how often the handler of a streaming-request shape calls message() before it
   answers (None = until the stream ends) *)
Definition server_receive (sv : side) (sh : shape) (headers : hm) (script : list bev)
           (reads : option nat) (fuel : nat) : seen :=
  match recv_encoding sv headers with
  | Negotiate.RecvPanic => SeenPanic
  | Negotiate.RecvErr st => SeenRejected st
  | Negotiate.RecvOk e =>
      let d0 := dec_new Request e (max_dec sv) in
      if req_streaming sh then
        (* map_request_streaming: Request::from_http; the handler pulls the messages itself *)
        let '(ms, c) := match reads with
                        | None => collect fuel script (mkB 0) d0
                        | Some j => collect_n fuel j script (mkB 0) d0
                        end in
        SeenStream headers ms (end_of c)
      else
        (* map_request_unary *)
        match pull fuel script (mkB 0) d0 with
        | PullHang => SeenHang
        | Got Pending _ _ _ => SeenHang
        | Got Panic _ _ _ => SeenPanic
        | Got (Item (IErr st)) _ _ _ => SeenRejected st
        | Got Done _ _ _ => SeenRejected st_missing_request
        | Got (Item (IOk m)) d1 evs1 g1 =>
            match stream_trailers fuel evs1 g1 d1 with
            | TrHang => SeenHang
            | TrPanic => SeenPanic
            | TrErr st => SeenRejected st
            | TrOk None => SeenUnary headers m
            | TrOk (Some t) => SeenUnary (Metadata.merge headers t) m
            end
        end
  end.

(* ------------------------------------------------------------------ handler scripts *)
Inductive hscript :=
| HUnary (r : (hm * msg) + status)                 (* Ok(Response { metadata, message }) | Err(status) *)
| HStream (r : (hm * list sevent) + status).       (* Ok(Response { metadata, stream }) | Err(status);
                                                      the stream's items are Ok m | Err status *)

(* the response as it leaves the server: HTTP status, headers, body frames *)
Record wire_resp := mkWR { wr_http : N; wr_headers : hm; wr_frames : list Encoder.bframe }.

(* Status::into_http: a trailers-only response (Body::default(): no frames); None = its unwrap *)
Definition status_response (st : status) : option wire_resp :=
  match Metadata.status_into_http_headers st with
  | Metadata.Val h => Some (mkWR 200 h [])
  | Metadata.Panic => None
  end.

(* accept_encoding = from_accept_encoding_header(request headers, send_compression_encodings) *)
Definition response_encoding (sv : side) (req_headers : hm) : option encoding :=
  Negotiate.from_accept_encoding_header req_headers (send_encs sv).

(* map_response on Ok: sanitized metadata + content-type (+ grpc-encoding), EncodeBody::new_server *)
Definition ok_response (sv : side) (chosen : option encoding) (md : hm) (src : list sevent)
  : option wire_resp :=
  Some (mkWR 200 (Metadata.server_response_headers (option_map Negotiate.as_str chosen) md)
          (Encoder.frames_of (Encoder.run_body msg encoding ser compress (cfg_with sv chosen)
                                Encoder.Server src 0))).

Definition handler_response (sv : side) (req_headers : hm) (h : hscript) : option wire_resp :=
  let chosen := response_encoding sv req_headers in
  match h with
  | HUnary (inl (md, m)) => ok_response sv chosen md [Encoder.SItem (Encoder.IOk m)]   (* once(Ok(m)) *)
  | HStream (inl (md, src)) => ok_response sv chosen md src
  | HUnary (inr st) | HStream (inr st) => status_response st              (* t!(response) *)
  end.

(* server::Grpc::{unary, ..}: what the handler saw and what goes back; a refused request is
   answered with its status (t! / map_response(Err(status))) and the handler is not called *)
Definition server_call (sv : side) (sh : shape) (headers : hm) (script : list bev)
           (reads : option nat) (h : hscript) (fuel : nat) : seen * option wire_resp :=
  let s := server_receive sv sh headers script reads fuel in
  (s, match s with
      | SeenRejected st => status_response st
      | SeenUnary _ _ | SeenStream _ _ _ => handler_response sv headers h
      | SeenPanic | SeenHang => None
      end).

(* ------------------------------------------------------------------ client, receiving *)
Inductive client_result :=
| CRErr (st : status)                                   (* Err(status) *)
| CRUnary (md : hm) (m : msg)                           (* Ok(Response<M>) *)
| CRStream (md : hm) (ms : list msg) (e : stream_end)   (* Ok(Response<Streaming<M>>), drained by the caller *)
| CRPanic
| CRHang.

Inductive created := CreErr (st : status) | CreStream (d : dec) | CrePanic.
(* Grpc::create_response: encoding check, then trailers-only detection on the HEADERS *)
Definition create_response (cl : side) (http : N) (headers : hm) : created :=
  match recv_encoding cl headers with
  | Negotiate.RecvPanic => CrePanic
  | Negotiate.RecvErr st => CreErr st
  | Negotiate.RecvOk e =>
      match from_header_map headers with
      | Some st =>
          if st_code st =? Code_Ok then CreStream (dec_new EmptyResponse None None)   (* Streaming::new_empty *)
          else CreErr st
      | None => CreStream (dec_new (Response http) e (max_dec cl))
      end
  end.

Definition with_md (st : status) (md : hm) : status :=
  mkStatus (st_code st) (st_msg st) (st_details st) md.

Definition client_call (cl : side) (sh : shape) (http : N) (headers : hm) (script : list bev)
           (fuel : nat) : client_result :=
  match create_response cl http headers with
  | CrePanic => CRPanic
  | CreErr st => CRErr st
  | CreStream d0 =>
      (* Response::from_http: metadata = the response headers *)
      if resp_streaming sh then
        let '(ms, c) := collect fuel script (mkB 0) d0 in CRStream headers ms (end_of c)
      else
        (* client_streaming: first message, then the trailers *)
        match pull fuel script (mkB 0) d0 with
        | PullHang => CRHang
        | Got Pending _ _ _ => CRHang
        | Got Panic _ _ _ => CRPanic
        | Got (Item (IErr st)) _ _ _ =>
            (* status.metadata_mut().merge(parts.clone()) *)
            CRErr (with_md st (Metadata.merge (st_md st) headers))
        | Got Done _ _ _ => CRErr st_missing_response
        | Got (Item (IOk m)) d1 evs1 g1 =>
            match stream_trailers fuel evs1 g1 d1 with
            | TrHang => CRHang
            | TrPanic => CRPanic
            | TrErr st => CRErr st
            | TrOk None => CRUnary headers m
            | TrOk (Some t) => CRUnary (Metadata.merge headers t) m
            end
        end
  end.
End Call.

Arguments Got {msg}. Arguments PullHang {msg}.
Arguments SeenRejected {msg}. Arguments SeenUnary {msg}. Arguments SeenStream {msg}.
Arguments SeenPanic {msg}. Arguments SeenHang {msg}.
Arguments HUnary {msg}. Arguments HStream {msg}.
Arguments CRErr {msg}. Arguments CRUnary {msg}. Arguments CRStream {msg}.
Arguments CRPanic {msg}. Arguments CRHang {msg}.

(* ------------------------------------------------------------------------------------------
   executable instance and observable for the correspondence harness (h_call)
   ------------------------------------------------------------------------------------------ *)
Definition shape_of (n : N) : shape :=
  if n =? 0 then Unary else if n =? 1 then ClientStreaming else if n =? 2 then ServerStreaming else Bidi.

(* the raw codec of the harness: a message is its own serialization *)
Definition ser_id (m : list N) : option (list N) := Some m.
Definition deser_id (p : list N) : option (list N) := Some p.
(* flate2 / zstd as observed in the run: (uncompressed, compressed) pairs, see Model/Codec.v *)
Definition compress_of (tbl : list (list N * list N)) (_ : encoding) (b : list N) : list N :=
  match assoc_bytes tbl b with Some z => z | None => [] end.
Definition decompress_of (tbl : list (list N * list N)) (_ : encoding) (z : list N) : option (list N) :=
  unz tbl z.
Definition no_compress : encoding -> list N -> list N := compress_of [].
Definition no_decompress (_ : encoding) (b : list N) : option (list N) := Some b.

(* a side as plain data: limits, then encodings by number (0 gzip, 1 deflate, 2 zstd) *)
Definition enc_of_n (n : N) : encoding := if n =? 0 then Gzip else if n =? 1 then Deflate else Zstd.
Definition mk_side (me md : option N) (send : option N) (accept sendset : list N) : side :=
  mkSide me md 8192 32768 (option_map enc_of_n send)
         (Negotiate.config_of (map enc_of_n accept)) (Negotiate.config_of (map enc_of_n sendset)).

(* a stream as plain data: inl None = Pending, inl (Some m) = Ok m, inr st = Err st *)
Definition sev_of (x : option (list N) + status) : Encoder.sevent (list N) :=
  match x with
  | inl None => Encoder.SPending
  | inl (Some m) => Encoder.SItem (Encoder.IOk m)
  | inr st => Encoder.SItem (Encoder.IErr st)
  end.

(* handler script as plain data: unary-like shapes use the first item of the list *)
Definition hscript_of (sh : shape) (h : (hm * list (option (list N) + status)) + status) : hscript (list N) :=
  match h with
  | inr st => if resp_streaming sh then HStream (inr st) else HUnary (inr st)
  | inl (md, items) =>
      if resp_streaming sh then HStream (inl (md, map sev_of items))
      else match items with
           | inl (Some m) :: _ => HUnary (inl (md, m))
           | _ => HUnary (inl (md, []))
           end
  end.

(* the UNIMPLEMENTED status of from_encoding_header names the offending value after this
   prefix: cut there (as Model/Negotiate.v does); the size errors carry both numbers: compared
   in full; otherwise as Model/Status.v *)
Definition decoded_too_large_prefix : list N :=
  Eval vm_compute in bytes_of_string "Error, decoded message length too large: ".
(* ... and the statuses the decoder makes itself carry no text in Model/Decoder.v (only their
   code is modelled): the text of its OUT_OF_RANGE is cut to nothing on the implementation side *)
Definition h2_error_prefix : list N := Eval vm_compute in bytes_of_string "h2 protocol error: ".
Definition canon_msg2 (m : list N) : list N :=
  if is_prefix Negotiate.unsupported_msg_prefix m then Negotiate.unsupported_msg_prefix
  else if is_prefix h2_error_prefix m then h2_error_prefix
  else if is_prefix decoded_too_large_prefix m then []
  else canon_msg m.
Definition status_obs2 (st : status) : tr :=
  Nd [Nn (st_code st); Bs (canon_msg2 (st_msg st)); Bs (st_details st); hm_canon (st_md st)].

Definition end_obs (e : stream_end) : tr :=
  match e with
  | EndOk => Nd [Nn 0]
  | EndErr st => Nd [Nn 1; status_obs2 st]
  | EndUnread => Nd [Nn 2]
  | EndHang => Nd [Nn 8]
  | EndPanic => Nd [Nn 9]
  end.
Definition seen_obs (s : seen (list N)) : tr :=
  match s with
  | SeenRejected st => Nd [Nn 0; Nn (st_code st)]
  | SeenUnary md m => Nd [Nn 1; hm_canon md; Bs m]
  | SeenStream md ms e => Nd [Nn 2; hm_canon md; Nd (map Bs ms); end_obs e]
  | SeenPanic => Nd [Nn 9]
  | SeenHang => Nd [Nn 8]
  end.
Definition result_obs (r : client_result (list N)) : tr :=
  match r with
  | CRErr st => Nd [Nn 0; status_obs2 st]
  | CRUnary md m => Nd [Nn 1; hm_canon md; Bs m]
  | CRStream md ms e => Nd [Nn 2; hm_canon md; Nd (map Bs ms); end_obs e]
  | CRPanic => Nd [Nn 9]
  | CRHang => Nd [Nn 8]
  end.

(* one whole call between client [cl] and server [sv]: caller metadata [md] and request stream
   [req] (for a unary request: one item), the request body re-cut by (qcuts, qpend), the scripted
   handler [h] that calls message() [reads] times (None: to the end) before it answers, the
   response body re-cut by (pcuts, ppend); observable = what the client API returned and what
   the handler saw (Nd [Nn 9] for the response of a call whose server side panicked) *)
Definition call_result (tbl : list (list N * list N)) (cl sv : side) (sh : shape) (md : hm)
           (req : list (option (list N) + status)) (qcuts qpend : list N) (reads : option N)
           (h : (hm * list (option (list N) + status)) + status) (pcuts ppend : list N) (fuel : N)
  : option (client_result (list N)) * seen (list N) :=
  let f := N.to_nat fuel in
  match request_headers cl md with
  | None => (Some CRPanic, SeenPanic)
  | Some qh =>
      let qframes := request_frames (list N) ser_id (compress_of tbl) cl (map sev_of req) in
      let qscript := transport qcuts qpend qframes in
      let '(s, resp) := server_call (list N) ser_id deser_id (compress_of tbl) (decompress_of tbl) sv sh
                          qh qscript (option_map N.to_nat reads) (hscript_of sh h) f in
      match resp with
      | None => (None, s)
      | Some w =>
          let pscript := transport pcuts ppend (wr_frames w) in
          (Some (client_call (list N) deser_id (decompress_of tbl) cl sh (wr_http w)
                   (wr_headers w) pscript f), s)
      end
  end.

(* ghost: polls of the caller's request stream / the handler's response stream after they have
   answered None, in the explicit-source runs of the two encoders (Model/Encoder.v run_body_src;
   c02_source_never_polled_after_end: 0) - tied to the strict streams of the harness *)
Definition after_end_ghost (tbl : list (list N * list N)) (cl sv : side) (sh : shape) (md : hm)
           (req : list (option (list N) + status))
           (h : (hm * list (option (list N) + status)) + status) : N :=
  let q := Encoder.s_after_end (snd (Encoder.run_body_src (list N) encoding ser_id (compress_of tbl)
              (cfg_with cl (send_enc cl)) Encoder.Client (map sev_of req) 2)) in
  let chosen := match request_headers cl md with Some qh => response_encoding sv qh | None => None end in
  let psrc := match hscript_of sh h with
              | HUnary (inl (_, m)) => Some [Encoder.SItem (Encoder.IOk m)]
              | HStream (inl (_, src)) => Some src
              | _ => None
              end in
  match psrc with
  | Some src => q + Encoder.s_after_end (snd (Encoder.run_body_src (list N) encoding ser_id (compress_of tbl)
                       (cfg_with sv chosen) Encoder.Server src 2))
  | None => q
  end.

Definition obs_call (tbl : list (list N * list N)) (cl sv : side) (shn : N) (md : hm)
           (req : list (option (list N) + status)) (qcuts qpend : list N) (reads : option N)
           (h : (hm * list (option (list N) + status)) + status) (pcuts ppend : list N) (fuel : N) : tr :=
  let '(r, s) := call_result tbl cl sv (shape_of shn) md req qcuts qpend reads h pcuts ppend fuel in
  Nd [match r with Some r => result_obs r | None => Nd [Nn 9] end; seen_obs s;
      Nn (after_end_ghost tbl cl sv (shape_of shn) md req h)].

(* the same call over a real HTTP/2 connection (kinds h2): the schedule is not controlled, so
   only the final observable is compared, and hyper adds headers of its own (date, ...), so
   metadata maps are compared on the names [keys] the case itself uses *)
Definition restrict (keys : list hname) (m : hm) : hm :=
  filter (fun e => existsb (bytes_eqb (fst e)) keys) m.
Definition restrict_status (keys : list hname) (st : status) : status :=
  mkStatus (st_code st) (st_msg st) (st_details st) (restrict keys (st_md st)).
Definition restrict_end (keys : list hname) (e : stream_end) : stream_end :=
  match e with EndErr st => EndErr (restrict_status keys st) | _ => e end.
Definition restrict_result (keys : list hname) (r : client_result (list N)) : client_result (list N) :=
  match r with
  | CRErr st => CRErr (restrict_status keys st)
  | CRUnary md m => CRUnary (restrict keys md) m
  | CRStream md ms e => CRStream (restrict keys md) ms (restrict_end keys e)
  | _ => r
  end.
Definition restrict_seen (keys : list hname) (s : seen (list N)) : seen (list N) :=
  match s with
  | SeenUnary md m => SeenUnary (restrict keys md) m
  | SeenStream md ms e => SeenStream (restrict keys md) ms (restrict_end keys e)
  | _ => s
  end.

(* the client half alone, on a hand-built response (kinds merge): head [headers], DATA frames of
   the messages [msgs] (identity), then the trailers block [t]; what the client API returns.  Used
   for responses no tonic server produces: names present both in the head and in the trailers *)
Definition obs_client_call (cl : side) (shn : N) (http : N) (headers : hm) (msgs : list (list N))
           (t : hm) (pcuts ppend : list N) (fuel : N) : tr :=
  let frames := map (fun m => Encoder.FData (frame 0 m)) msgs ++ [Encoder.FTrailers t] in
  result_obs (client_call (list N) deser_id no_decompress cl (shape_of shn) http headers
                (transport pcuts ppend frames) (N.to_nat fuel)).

(* ---- what a real HTTP/2 connection does with an ERROR of the request body (F-C06b) ----
   hyper resets the stream (RST_STREAM, INTERNAL_ERROR = 2).  Observed on hyper 1.x / h2 0.4:
   the server's reader gets the reset as the error of the request body and none of the DATA that
   was sent before it; the caller's future fails with hyper's error, which Status::from_error
   maps through the h2 reason (Model/Status.v reset_stream_code) - the Status the body failed
   with (OUT_OF_RANGE for a message over max_encoding_message_size) is not in that error's
   source chain and never reaches the caller. *)
Definition H2_INTERNAL_ERROR : N := 2.
Definition st_stream_reset : status :=
  mkStatus (reset_stream_code H2_INTERNAL_ERROR) h2_error_prefix [] [].
Fixpoint body_error (frames : list Encoder.bframe) : option status :=
  match frames with
  | [] => None
  | Encoder.FErr st :: _ => Some st
  | _ :: r => body_error r
  end.
(* the request body as the server reads it over a real connection (no re-cutting: kinds h2) *)
Definition real_request_script (frames : list Encoder.bframe) : list bev :=
  match body_error frames with
  | Some _ => [BErr st_stream_reset]
  | None => transport [] [] frames
  end.

Definition call_result_h2 (tbl : list (list N * list N)) (cl sv : side) (sh : shape) (md : hm)
           (req : list (option (list N) + status)) (reads : option N)
           (h : (hm * list (option (list N) + status)) + status) (fuel : N)
  : option (client_result (list N)) * seen (list N) :=
  let f := N.to_nat fuel in
  match request_headers cl md with
  | None => (Some CRPanic, SeenPanic)
  | Some qh =>
      let qframes := request_frames (list N) ser_id (compress_of tbl) cl (map sev_of req) in
      let '(s, resp) := server_call (list N) ser_id deser_id (compress_of tbl) (decompress_of tbl) sv sh
                          qh (real_request_script qframes) (option_map N.to_nat reads) (hscript_of sh h) f in
      match body_error qframes with
      | Some _ => (Some (CRErr st_stream_reset), s)      (* the call fails with the reset *)
      | None =>
          match resp with
          | None => (None, s)
          | Some w =>
              (Some (client_call (list N) deser_id (decompress_of tbl) cl sh (wr_http w)
                       (wr_headers w) (transport [] [] (wr_frames w)) f), s)
          end
      end
  end.

Definition obs_call_h2 (keys : list hname) (tbl : list (list N * list N)) (cl sv : side) (shn : N)
           (md : hm) (req : list (option (list N) + status)) (reads : option N)
           (h : (hm * list (option (list N) + status)) + status) (fuel : N) : tr :=
  let '(r, s) := call_result_h2 tbl cl sv (shape_of shn) md req reads h fuel in
  Nd [match r with Some r => result_obs (restrict_result keys r) | None => Nd [Nn 9] end;
      seen_obs (restrict_seen keys s);
      Nn (after_end_ghost tbl cl sv (shape_of shn) md req h)].
