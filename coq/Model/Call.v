(* One gRPC call end to end: the glue between the codec models (C02).

     client::Grpc::{unary, client_streaming, server_streaming, streaming}, create_response
                                                              tonic/src/client/grpc.rs
     server::Grpc::{unary, server_streaming, client_streaming, streaming},
       map_request_unary, map_request_streaming, map_response, t!  tonic/src/server/grpc.rs
     Request::{into_http, from_http_parts}, Response::{into_http, from_http}
                                                              tonic/src/request.rs, response.rs
     Streaming::{message, trailers}                           tonic/src/codec/decode.rs
     MetadataMap::merge (= HeaderMap::extend: names of the other map REPLACE)  metadata/map.rs

   caller --md, messages--> client::Grpc --head + EncodeBody(Client)--> TRANSPORT -->
     server::Grpc --Request--> handler (scripted) --Response | Status--> server::Grpc
     --head + EncodeBody(Server) | trailers-only--> TRANSPORT --> client::Grpc --> caller

   The transport is Model/Codec.v's contract [carries] (the head arrives first, DATA re-cut
   arbitrarily with Pending anywhere, then at most one trailers block); [transport cuts pend] is
   the executable member the harness h_call implements.

   Compression is not configured on either side (C05 / C01 cover it): the encoders run with
   comp = None; the peer's grpc-encoding header is still examined by the real rule
   (Model/Negotiate.v from_encoding_header with nothing enabled), so a grpc-encoding entry
   smuggled in through user metadata is refused exactly as the code refuses it.
   One message type and codec for both directions (take a sum type for two).  Definitions only;
   proofs in Proofs/Call.v. *)
From Verif Require Import Lib.Bytes Lib.Obs Lib.BE32 Lib.HeaderMap Model.Frame Model.Status.
From Verif Require Import Gen.StatusTables Gen.CompressionTables.
From Verif Require Model.Encoder Model.Negotiate Model.Metadata.
From Verif Require Import Model.Decoder Model.Codec.
From Coq Require String.
Import String.StringSyntax.
Close Scope string_scope.
Open Scope list_scope.
Open Scope N_scope.

Inductive shape := Unary | ClientStreaming | ServerStreaming | Bidi.
(* the request / the response is a stream (otherwise exactly one message) *)
Definition req_streaming (s : shape) : bool :=
  match s with ClientStreaming | Bidi => true | _ => false end.
Definition resp_streaming (s : shape) : bool :=
  match s with ServerStreaming | Bidi => true | _ => false end.

(* max_encoding_message_size, max_decoding_message_size, the codec's BufferSettings *)
Record side := mkSide { max_enc : option N; max_dec : option N; buf_size : N; yield_thr : N }.
Definition default_side : side := mkSide None None 8192 32768.
Definition cfg_of (s : side) : Encoder.cfg encoding :=
  Encoder.mkCfg None false (max_enc s) (buf_size s) (yield_thr s).

Definition st_missing_request : status :=
  mkStatus Code_Internal (bytes_of_string "Missing request message.") [] [].
Definition st_missing_response : status :=
  mkStatus Code_Internal (bytes_of_string "Missing response message.") [] [].

(* how a drained stream ended *)
Inductive stream_end := EndOk | EndErr (st : status) | EndHang | EndPanic.

Section Call.
Variable msg : Type.
Variable ser : msg -> option (list N).
Variable deser : list N -> option msg.
Variable compress : encoding -> list N -> list N.
Variable decompress : encoding -> list N -> option (list N).

Local Notation dec := (dec encoding).
Local Notation sevent := (Encoder.sevent msg).

(* ------------------------------------------------------------------ consuming a Streaming *)
(* Streaming::message (= poll_next until it is Ready): [fuel] polls at most *)
Inductive pulled :=
| Got (r : pres msg) (d : dec) (evs : list bev) (g : bstat)      (* r is not Pending *)
| PullHang.
Fixpoint pull (fuel : nat) (evs : list bev) (g : bstat) (d : dec) : pulled :=
  match fuel with
  | O => PullHang
  | S k =>
      let '(r, d', evs', g') := dec_poll deser decompress evs g d in
      match r with
      | Pending => pull k evs' g' d'
      | _ => Got r d' evs' g'
      end
  end.

(* while let Some(m) = stream.message().await? { .. }: the messages, and how it ended *)
Inductive cend :=
| CEnd (d : dec) (evs : list bev) (g : bstat)
| CErr (st : status) (d : dec) (evs : list bev) (g : bstat)
| CHang
| CPanic.
Fixpoint collect (fuel : nat) (evs : list bev) (g : bstat) (d : dec) : list msg * cend :=
  match fuel with
  | O => ([], CHang)
  | S k =>
      let '(r, d', evs', g') := dec_poll deser decompress evs g d in
      match r with
      | Pending => collect k evs' g' d'
      | Item (IOk m) => let '(ms, e) := collect k evs' g' d' in (m :: ms, e)
      | Item (IErr st) => ([], CErr st d' evs' g')
      | Done => ([], CEnd d' evs' g')
      | Panic => ([], CPanic)
      end
  end.
Definition end_of (e : cend) : stream_end :=
  match e with
  | CEnd _ _ _ => EndOk
  | CErr st _ _ _ => EndErr st
  | CHang => EndHang
  | CPanic => EndPanic
  end.

(* Streaming::trailers: the cached trailers if any; otherwise drain the stream (its messages
   are dropped, an error is returned), then the trailers it cached meanwhile *)
Inductive trailers_res := TrOk (t : option hm) | TrErr (st : status) | TrHang | TrPanic.
Definition stream_trailers (fuel : nat) (evs : list bev) (g : bstat) (d : dec) : trailers_res :=
  match d_trailers d with
  | Some t => TrOk (Some t)
  | None =>
      match collect fuel evs g d with
      | (_, CEnd d' _ _) => TrOk (d_trailers d')
      | (_, CErr st _ _ _) => TrErr st
      | (_, CHang) => TrHang
      | (_, CPanic) => TrPanic
      end
  end.

(* ------------------------------------------------------------------ client, sending *)
(* GrpcConfig::prepare_request (headers; the URI is C03's) + EncodeBody::new_client.
   [src] is the caller's message stream; for the unary request shapes it is once(m), which is
   always ready: [SItem (IOk m)] *)
Definition request_headers (md : hm) : hm := Metadata.client_request_headers None None md.
Definition request_frames (cl : side) (src : list sevent) : list Encoder.bframe :=
  Encoder.frames_of (Encoder.run_body msg encoding ser compress (cfg_of cl) Encoder.Client src 0).

(* ------------------------------------------------------------------ server, receiving *)
(* what the handler is called with, or why it is not called *)
Inductive seen :=
| SeenRejected (st : status)                         (* answered by the server without the handler *)
| SeenUnary (md : hm) (m : msg)                      (* Request<M> *)
| SeenStream (md : hm) (ms : list msg) (e : stream_end)   (* Request<Streaming<M>>, drained by the handler *)
| SeenPanic
| SeenHang.

Definition recv_encoding (headers : hm) : Negotiate.recv :=
  Negotiate.from_encoding_header headers Negotiate.en_default.

Definition server_receive (sv : side) (sh : shape) (headers : hm) (script : list bev) (fuel : nat) : seen :=
  match recv_encoding headers with
  | Negotiate.RecvPanic => SeenPanic
  | Negotiate.RecvErr st => SeenRejected st
  | Negotiate.RecvOk e =>
      let d0 := dec_new Request e (max_dec sv) in
      if req_streaming sh then
        (* map_request_streaming: Request::from_http; the handler pulls the messages itself *)
        let '(ms, c) := collect fuel script (mkB 0) d0 in SeenStream headers ms (end_of c)
      else
        (* map_request_unary *)
        match pull fuel script (mkB 0) d0 with
        | PullHang => SeenHang
        | Got Pending _ _ _ => SeenHang
        | Got Panic _ _ _ => SeenPanic
        | Got (Item (IErr st)) _ _ _ => SeenRejected st
        | Got Done _ _ _ => SeenRejected st_missing_request
        | Got (Item (IOk m)) d1 evs1 g1 =>
            match stream_trailers fuel evs1 g1 d1 with
            | TrHang => SeenHang
            | TrPanic => SeenPanic
            | TrErr st => SeenRejected st
            | TrOk None => SeenUnary headers m
            | TrOk (Some t) => SeenUnary (Metadata.merge headers t) m
            end
        end
  end.

(* ------------------------------------------------------------------ handler scripts *)
Inductive hscript :=
| HUnary (r : (hm * msg) + status)                 (* Ok(Response { metadata, message }) | Err(status) *)
| HStream (r : (hm * list sevent) + status).       (* Ok(Response { metadata, stream }) | Err(status);
                                                      the stream's items are Ok m | Err status *)

(* the response as it leaves the server: HTTP status, headers, body frames *)
Record wire_resp := mkWR { wr_http : N; wr_headers : hm; wr_frames : list Encoder.bframe }.

(* Status::into_http: a trailers-only response (Body::default(): no frames); None = its unwrap *)
Definition status_response (st : status) : option wire_resp :=
  match Metadata.status_into_http_headers st with
  | Metadata.Val h => Some (mkWR 200 h [])
  | Metadata.Panic => None
  end.

(* map_response on Ok: sanitized metadata + content-type, EncodeBody::new_server *)
Definition ok_response (sv : side) (md : hm) (src : list sevent) : option wire_resp :=
  Some (mkWR 200 (Metadata.server_response_headers None md)
          (Encoder.frames_of (Encoder.run_body msg encoding ser compress (cfg_of sv) Encoder.Server src 0))).

Definition handler_response (sv : side) (h : hscript) : option wire_resp :=
  match h with
  | HUnary (inl (md, m)) => ok_response sv md [Encoder.SItem (Encoder.IOk m)]   (* once(Ok(m)) *)
  | HStream (inl (md, src)) => ok_response sv md src
  | HUnary (inr st) | HStream (inr st) => status_response st              (* t!(response) *)
  end.

(* server::Grpc::{unary, ..}: what the handler saw and what goes back; a refused request is
   answered with its status (t! / map_response(Err(status))) and the handler is not called *)
Definition server_call (sv : side) (sh : shape) (headers : hm) (script : list bev) (h : hscript)
           (fuel : nat) : seen * option wire_resp :=
  let s := server_receive sv sh headers script fuel in
  (s, match s with
      | SeenRejected st => status_response st
      | SeenUnary _ _ | SeenStream _ _ _ => handler_response sv h
      | SeenPanic | SeenHang => None
      end).

(* ------------------------------------------------------------------ client, receiving *)
Inductive client_result :=
| CRErr (st : status)                                   (* Err(status) *)
| CRUnary (md : hm) (m : msg)                           (* Ok(Response<M>) *)
| CRStream (md : hm) (ms : list msg) (e : stream_end)   (* Ok(Response<Streaming<M>>), drained by the caller *)
| CRPanic
| CRHang.

Inductive created := CreErr (st : status) | CreStream (d : dec) | CrePanic.
(* Grpc::create_response: encoding check, then trailers-only detection on the HEADERS *)
Definition create_response (cl : side) (http : N) (headers : hm) : created :=
  match recv_encoding headers with
  | Negotiate.RecvPanic => CrePanic
  | Negotiate.RecvErr st => CreErr st
  | Negotiate.RecvOk e =>
      match from_header_map headers with
      | Some st =>
          if st_code st =? Code_Ok then CreStream (dec_new EmptyResponse None None)   (* Streaming::new_empty *)
          else CreErr st
      | None => CreStream (dec_new (Response http) e (max_dec cl))
      end
  end.

Definition with_md (st : status) (md : hm) : status :=
  mkStatus (st_code st) (st_msg st) (st_details st) md.

Definition client_call (cl : side) (sh : shape) (http : N) (headers : hm) (script : list bev)
           (fuel : nat) : client_result :=
  match create_response cl http headers with
  | CrePanic => CRPanic
  | CreErr st => CRErr st
  | CreStream d0 =>
      (* Response::from_http: metadata = the response headers *)
      if resp_streaming sh then
        let '(ms, c) := collect fuel script (mkB 0) d0 in CRStream headers ms (end_of c)
      else
        (* client_streaming: first message, then the trailers *)
        match pull fuel script (mkB 0) d0 with
        | PullHang => CRHang
        | Got Pending _ _ _ => CRHang
        | Got Panic _ _ _ => CRPanic
        | Got (Item (IErr st)) _ _ _ =>
            (* status.metadata_mut().merge(parts.clone()) *)
            CRErr (with_md st (Metadata.merge (st_md st) headers))
        | Got Done _ _ _ => CRErr st_missing_response
        | Got (Item (IOk m)) d1 evs1 g1 =>
            match stream_trailers fuel evs1 g1 d1 with
            | TrHang => CRHang
            | TrPanic => CRPanic
            | TrErr st => CRErr st
            | TrOk None => CRUnary headers m
            | TrOk (Some t) => CRUnary (Metadata.merge headers t) m
            end
        end
  end.
End Call.

Arguments Got {msg}. Arguments PullHang {msg}.
Arguments SeenRejected {msg}. Arguments SeenUnary {msg}. Arguments SeenStream {msg}.
Arguments SeenPanic {msg}. Arguments SeenHang {msg}.
Arguments HUnary {msg}. Arguments HStream {msg}.
Arguments CRErr {msg}. Arguments CRUnary {msg}. Arguments CRStream {msg}.
Arguments CRPanic {msg}. Arguments CRHang {msg}.

(* ------------------------------------------------------------------------------------------
   executable instance and observable for the correspondence harness (h_call)
   ------------------------------------------------------------------------------------------ *)
Definition shape_of (n : N) : shape :=
  if n =? 0 then Unary else if n =? 1 then ClientStreaming else if n =? 2 then ServerStreaming else Bidi.

(* the raw codec of the harness: a message is its own serialization *)
Definition ser_id (m : list N) : option (list N) := Some m.
Definition deser_id (p : list N) : option (list N) := Some p.
Definition no_compress (_ : encoding) (b : list N) : list N := b.
Definition no_decompress (_ : encoding) (b : list N) : option (list N) := Some b.

(* a stream as plain data: inl None = Pending, inl (Some m) = Ok m, inr st = Err st *)
Definition sev_of (x : option (list N) + status) : Encoder.sevent (list N) :=
  match x with
  | inl None => Encoder.SPending
  | inl (Some m) => Encoder.SItem (Encoder.IOk m)
  | inr st => Encoder.SItem (Encoder.IErr st)
  end.

(* handler script as plain data: unary-like shapes use the first item of the list *)
Definition hscript_of (sh : shape) (h : (hm * list (option (list N) + status)) + status) : hscript (list N) :=
  match h with
  | inr st => if resp_streaming sh then HStream (inr st) else HUnary (inr st)
  | inl (md, items) =>
      if resp_streaming sh then HStream (inl (md, map sev_of items))
      else match items with
           | inl (Some m) :: _ => HUnary (inl (md, m))
           | _ => HUnary (inl (md, []))
           end
  end.

(* the UNIMPLEMENTED status of from_encoding_header names the offending value after this
   prefix: cut there (as Model/Negotiate.v does), otherwise as Model/Status.v *)
Definition canon_msg2 (m : list N) : list N :=
  if is_prefix Negotiate.unsupported_msg_prefix m then Negotiate.unsupported_msg_prefix else canon_msg m.
Definition status_obs2 (st : status) : tr :=
  Nd [Nn (st_code st); Bs (canon_msg2 (st_msg st)); Bs (st_details st); hm_canon (st_md st)].

Definition end_obs (e : stream_end) : tr :=
  match e with
  | EndOk => Nd [Nn 0]
  | EndErr st => Nd [Nn 1; status_obs2 st]
  | EndHang => Nd [Nn 8]
  | EndPanic => Nd [Nn 9]
  end.
Definition seen_obs (s : seen (list N)) : tr :=
  match s with
  | SeenRejected st => Nd [Nn 0; Nn (st_code st)]
  | SeenUnary md m => Nd [Nn 1; hm_canon md; Bs m]
  | SeenStream md ms e => Nd [Nn 2; hm_canon md; Nd (map Bs ms); end_obs e]
  | SeenPanic => Nd [Nn 9]
  | SeenHang => Nd [Nn 8]
  end.
Definition result_obs (r : client_result (list N)) : tr :=
  match r with
  | CRErr st => Nd [Nn 0; status_obs2 st]
  | CRUnary md m => Nd [Nn 1; hm_canon md; Bs m]
  | CRStream md ms e => Nd [Nn 2; hm_canon md; Nd (map Bs ms); end_obs e]
  | CRPanic => Nd [Nn 9]
  | CRHang => Nd [Nn 8]
  end.

(* one whole call: caller metadata [md] and request stream [req] (for a unary request: one
   item), the request body re-cut by (qcuts, qpend), the scripted handler [h], the response
   body re-cut by (pcuts, ppend); observable = what the client API returned and what the
   handler saw (Nd [Nn 9] for the response of a call whose server side panicked) *)
Definition obs_call (shn : N) (md : hm) (req : list (option (list N) + status)) (qcuts qpend : list N)
           (h : (hm * list (option (list N) + status)) + status) (pcuts ppend : list N) (fuel : N) : tr :=
  let sh := shape_of shn in
  let f := N.to_nat fuel in
  let qframes := request_frames (list N) ser_id no_compress default_side (map sev_of req) in
  let qscript := transport qcuts qpend qframes in
  let '(s, resp) := server_call (list N) ser_id deser_id no_compress no_decompress default_side sh
                      (request_headers md) qscript (hscript_of sh h) f in
  match resp with
  | None => Nd [Nd [Nn 9]; seen_obs s]
  | Some w =>
      let pscript := transport pcuts ppend (wr_frames w) in
      Nd [result_obs (client_call (list N) deser_id no_decompress default_side sh (wr_http w)
                        (wr_headers w) pscript f);
          seen_obs s]
  end.

(* the same call over a real HTTP/2 connection (kinds h2): the schedule is not controlled, so
   only the final observable is compared, and hyper adds headers of its own (date, ...), so
   metadata maps are compared on the names [keys] the case itself uses *)
Definition restrict (keys : list hname) (m : hm) : hm :=
  filter (fun e => existsb (bytes_eqb (fst e)) keys) m.
Definition restrict_status (keys : list hname) (st : status) : status :=
  mkStatus (st_code st) (st_msg st) (st_details st) (restrict keys (st_md st)).
Definition restrict_end (keys : list hname) (e : stream_end) : stream_end :=
  match e with EndErr st => EndErr (restrict_status keys st) | _ => e end.
Definition restrict_result (keys : list hname) (r : client_result (list N)) : client_result (list N) :=
  match r with
  | CRErr st => CRErr (restrict_status keys st)
  | CRUnary md m => CRUnary (restrict keys md) m
  | CRStream md ms e => CRStream (restrict keys md) ms (restrict_end keys e)
  | _ => r
  end.
Definition restrict_seen (keys : list hname) (s : seen (list N)) : seen (list N) :=
  match s with
  | SeenUnary md m => SeenUnary (restrict keys md) m
  | SeenStream md ms e => SeenStream (restrict keys md) ms (restrict_end keys e)
  | _ => s
  end.

Definition obs_call_h2 (keys : list hname) (shn : N) (md : hm) (req : list (option (list N) + status))
           (h : (hm * list (option (list N) + status)) + status) (fuel : N) : tr :=
  let sh := shape_of shn in
  let f := N.to_nat fuel in
  let qframes := request_frames (list N) ser_id no_compress default_side (map sev_of req) in
  let '(s, resp) := server_call (list N) ser_id deser_id no_compress no_decompress default_side sh
                      (request_headers md) (transport [] [] qframes) (hscript_of sh h) f in
  match resp with
  | None => Nd [Nd [Nn 9]; seen_obs (restrict_seen keys s)]
  | Some w =>
      Nd [result_obs (restrict_result keys
                        (client_call (list N) deser_id no_decompress default_side sh (wr_http w)
                           (wr_headers w) (transport [] [] (wr_frames w)) f));
          seen_obs (restrict_seen keys s)]
  end.
