(* Model of tonic's deadline handling (property C09).

   tonic/src/request.rs                         Request::set_timeout, duration_to_grpc_timeout
   tonic/src/transport/service/grpc_timeout.rs  try_parse_grpc_timeout, GrpcTimeout::call,
                                                ResponseFuture::poll
   tonic/src/transport/server/mod.rs            RecoverError(GrpcTimeout(service)), Server::timeout
   tonic/src/transport/channel/service/connection.rs   GrpcTimeout(endpoint.timeout) on the client
   tonic/src/status.rs                          TimeoutExpired -> Status::cancelled("Timeout expired")

   Durations are nanoseconds in N.  The unit tables, the digit cap and the formatter cascade come
   from Gen/TimeoutTables.v, regenerated from the source on every run.  No proofs here. *)
From Verif Require Import Lib.Bytes Lib.Obs Lib.Percent Lib.HeaderMap Lib.Decimal.
From Verif Require Import Gen.StatusTables Gen.TimeoutTables Model.Status.
From Coq Require Import String.
Close Scope string_scope.   (* opened by Model.Status *)
Open Scope N_scope.

Inductive outcome (A : Type) : Type := Ok (a : A) | Panic.
Arguments Ok {A} a.
Arguments Panic {A}.

(* ------------------------------------------------------------------------------------------
   duration_to_grpc_timeout / Request::set_timeout
   ------------------------------------------------------------------------------------------ *)

(* the [convert] closures: d.as_nanos(), d.as_secs() / 60, { let minutes = d.as_secs() / 60;
   minutes / 60 } ... : successive truncating divisions of the nanoseconds *)
Definition chain_div (d : N) (chain : list N) : N := fold_left N.div chain d.

(* try_format: None when the value needs more than 8 digits *)
Definition try_format (d : N) (unit : N) (chain : list N) : option (list N) :=
  let value := chain_div d chain in
  if fmt_max_size <? value then None else Some (print_dec value ++ [unit]).

(* try_format(..'n'..).or_else(..'u'..)...  .expect("duration is unrealistically large") *)
Fixpoint fmt_go (casc : list (N * list N)) (d : N) : outcome (list N) :=
  match casc with
  | [] => Panic
  | (u, chain) :: rest =>
      match try_format d u chain with
      | Some s => Ok s
      | None => fmt_go rest d
      end
  end.
Definition fmt_timeout (d : N) : outcome (list N) := fmt_go fmt_cascade d.

(* Request::set_timeout: `duration_to_grpc_timeout(deadline).parse().unwrap()`, then
   metadata.insert(GRPC_TIMEOUT_HEADER, value) *)
Definition set_timeout (md : hm) (d : N) : outcome hm :=
  match fmt_timeout d with
  | Panic => Panic
  | Ok s =>
      match mk_hv s with
      | None => Panic
      | Some v => Ok (hm_insert md hdr_grpc_timeout v)
      end
  end.

(* ------------------------------------------------------------------------------------------
   try_parse_grpc_timeout
   ------------------------------------------------------------------------------------------ *)

(* Ok(None) | Ok(Some(d)) | Err(val) | a panic *)
Inductive parsed : Type := Absent | Value (ns : N) | Ignored | ParsePanic.

(* HeaderValue::to_str: visible ASCII (and tab) only *)
Definition is_visible_ascii (b : N) : bool := ((32 <=? b) && (b <? 127)) || (b =? 9).
Definition to_str (v : list N) : option (list N) :=
  if forallb is_visible_ascii v then Some v else None.

Fixpoint split_last (l : list N) : option (list N * N) :=
  match l with
  | [] => None
  | x :: r =>
      match r with
      | [] => Some ([], x)
      | _ => match split_last r with
             | Some (i, u) => Some (x :: i, u)
             | None => None
             end
      end
  end.

(* str::split_at(len - 1): panics if len = 0 (underflow) or if the index is not a char
   boundary, i.e. the last byte is a UTF-8 continuation byte.  None = panic. *)
Definition is_utf8_continuation (b : N) : bool := (128 <=? b) && (b <? 192).
Definition split_at_last (s : list N) : option (list N * N) :=
  match split_last s with
  | None => None
  | Some (i, u) => if is_utf8_continuation u then None else Some (i, u)
  end.

(* u64::from_str: an optional '+', then at least one digit; Err on overflow *)
Definition U64_LIMIT : N := 18446744073709551616.
Definition u64_from_str (s : list N) : option N :=
  let digits := match s with 43 :: r => r | _ => s end in
  match parse_dec digits with
  | Some v => if v <? U64_LIMIT then Some v else None
  | None => None
  end.

Fixpoint assoc_unit (t : list (N * (N * N))) (u : N) : option (N * N) :=
  match t with
  | [] => None
  | (k, x) :: r => if k =? u then Some x else assoc_unit r u
  end.

Definition parse_value (v : list N) : parsed :=
  match to_str v with
  | None => Ignored
  | Some s =>
      match s with
      | [] => Ignored
      | _ =>
          match split_at_last s with
          | None => ParsePanic
          | Some (tv, tu) =>
              if parse_max_digits <? nlen tv then Ignored
              else if parse_digits_only && negb (forallb is_digit tv) then Ignored
              else
                match u64_from_str tv with
                | None => Ignored
                | Some n =>
                    match assoc_unit parse_unit_table tu with
                    | None => Ignored
                    | Some (factor, per) =>
                        (* `timeout_value * SECONDS_IN_HOUR`: u64 multiplication, overflow checked *)
                        if n * factor <? U64_LIMIT then Value (n * factor * per) else ParsePanic
                    end
                end
          end
      end
  end.

(* headers.get(GRPC_TIMEOUT_HEADER): the first value of that name *)
Definition parse_timeout (m : hm) : parsed :=
  match hm_get m hdr_grpc_timeout with
  | None => Absent
  | Some v => parse_value v
  end.

(* ------------------------------------------------------------------------------------------
   GrpcTimeout::call
   ------------------------------------------------------------------------------------------ *)

(* try_parse_grpc_timeout(..).unwrap_or_else(|e| None) *)
Definition client_timeout (p : parsed) : outcome (option N) :=
  match p with
  | Absent => Ok None
  | Value d => Ok (Some d)
  | Ignored => Ok None
  | ParsePanic => Panic
  end.

(* "Use the shorter of the two durations, if either are set" *)
Definition effective (client server : option N) : option N :=
  match client, server with
  | None, None => None
  | Some dur, None => Some dur
  | None, Some dur => Some dur
  | Some header, Some server => Some (N.min header server)
  end.

Definition layer_limit (headers : hm) (cfg : option N) : outcome (option N) :=
  match client_timeout (parse_timeout headers) with
  | Panic => Panic
  | Ok c => Ok (effective c cfg)
  end.

(* ------------------------------------------------------------------------------------------
   ResponseFuture::poll in virtual time.

   An instant is tick * PH + phase: the tick is tokio's millisecond timer tick, the phase orders
   the scheduling steps inside one tick (a timer fires at phase 0).  tokio::time::sleep(d) fires
   at the first tick boundary not before its deadline (deadline_to_tick rounds up).
   ------------------------------------------------------------------------------------------ *)
Definition PH : N := 16.
Definition at_tick (t ph : N) : N := t * PH + ph.
Definition tick_of (i : N) : N := i / PH.
Definition NS_PER_TICK : N := 1000000.
Definition sleep_tick (d : N) : N := (d + (NS_PER_TICK - 1)) / NS_PER_TICK.

Inductive fut_result : Type := Completed | TimedOut.

(* one poll at instant [now]: the inner future first, then the sleep *)
Definition poll (fire : option N) (ready : N) (now : N) : option fut_result :=
  if ready <=? now then Some Completed
  else match fire with
       | Some f => if f <=? now then Some TimedOut else None
       | None => None
       end.

(* the task is polled at the instants of [polls] until a poll is Ready *)
Fixpoint drive (fire : option N) (ready : N) (polls : list N) : option (fut_result * N) :=
  match polls with
  | [] => None
  | t :: r =>
      match poll fire ready t with
      | Some x => Some (x, t)
      | None => drive fire ready r
      end
  end.

(* closed form for a task first polled at [i0] and afterwards polled when it is woken
   (by the inner future becoming ready or by the timer): result and finishing instant *)
Definition race (i0 : N) (fire : option N) (ready : N) : fut_result * N :=
  match fire with
  | None => (Completed, N.max i0 ready)
  | Some f =>
      if ready <=? N.max i0 f then (Completed, N.max i0 ready) else (TimedOut, N.max i0 f)
  end.

(* ------------------------------------------------------------------------------------------
   One unary call through client stack, connection and server stack, in virtual time.
   ------------------------------------------------------------------------------------------ *)

(* Status::from_error / try_from_error on TimeoutExpired *)
Definition timeout_message : list N := Eval vm_compute in bytes_of_string "Timeout expired"%string.
Definition timeout_status : status := mkStatus Code_Cancelled timeout_message [] [].

(* RecoverError: status.into_http() (add_header(..).unwrap()), read back by the client with
   Status::from_header_map *)
Definition over_the_wire (st : status) : outcome (option status) :=
  match to_header_map st with
  | None => Panic
  | Some m => Ok (from_header_map m)
  end.

Inductive tsrc : Type :=
| NoDeadline                 (* no grpc-timeout on the request *)
| SetTimeout (d : N)         (* Request::set_timeout(d) *)
| RawHeader (v : list N).    (* a peer that writes the header itself *)

Definition request_headers (s : tsrc) : outcome hm :=
  match s with
  | NoDeadline => Ok []
  | SetTimeout d => set_timeout [] d
  | RawHeader v => Ok [(hdr_grpc_timeout, v)]
  end.

Definition fire_of (limit : option N) : option N :=
  match limit with
  | Some l => Some (at_tick (sleep_tick l) 0)
  | None => None
  end.

(* scheduling facts of the test set-up (observed, see checks/C09.json "assumptions"):
   - the server's ResponseFuture is first polled when the request arrives (tick 0, phase 0);
     the handler is not ready at that poll even with zero latency (it still has to read the
     request message), a handler sleeping for lat > 0 ticks completes in the poll at which its
     own timer fires;
   - the response needs one more scheduling step to reach the client's ResponseFuture, which
     is first polled only after everything runnable at the start tick has run. *)
Definition LATE : N := PH - 1.
Definition handler_ready (lat : N) : N := if lat =? 0 then at_tick 0 1 else at_tick lat 0.

(* result: None = the handler's OK response, Some st = the call failed with st; and the tick
   at which the caller got it *)
Definition run (s : tsrc) (ccfg scfg : option N) (lat : N) : outcome (option status * N) :=
  match request_headers s with
  | Panic => Panic
  | Ok h =>
      match layer_limit h scfg, layer_limit h ccfg with
      | Ok sl, Ok cl =>
          let '(rs, fs) := race (at_tick 0 0) (fire_of sl) (handler_ready lat) in
          let '(rc, fc) := race (at_tick 0 LATE) (fire_of cl) (fs + 1) in
          match rc with
          | TimedOut => Ok (Some timeout_status, tick_of fc)
          | Completed =>
              match rs with
              | Completed => Ok (None, tick_of fc)
              | TimedOut =>
                  match over_the_wire timeout_status with
                  | Panic => Panic
                  | Ok st => Ok (st, tick_of fc)
                  end
              end
          end
      | _, _ => Panic
      end
  end.

(* ------------------------------------------------------------------------------------------
   The two enforcement points separately, and calls whose response outlasts its head.

   GrpcTimeout wraps the future that yields the http::Response, i.e. the response HEAD; the
   Sleep lives in that future and is dropped with it, nothing wraps the body
   (grpc_timeout.rs ResponseFuture::poll).  So the race is between the deadline and the head;
   whatever follows the head (the messages of a server stream, or a late message of a unary call
   from a peer that sends its headers early) is not raced against anything.

   client: CChannel = tonic Endpoint/Channel (GrpcTimeout with Endpoint::timeout);
           CRaw     = a client that sends the header but enforces nothing itself
   server: STonic   = tonic Server (GrpcTimeout with Server::timeout under RecoverError);
           SStub    = a server that ignores grpc-timeout
   shape:  response head at tick sh_head, then sh_n messages sh_gap ticks apart, then the end.
   ------------------------------------------------------------------------------------------ *)
Inductive client_kind : Type := CChannel (ccfg : option N) | CRaw.
Inductive server_kind : Type := STonic (scfg : option N) | SStub.
Record shape : Type := mkShape { sh_streaming : bool; sh_head : N; sh_n : N; sh_gap : N }.

(* what became of the server-side work up to the head *)
Inductive fate : Type :=
| NotStarted               (* cut before the handler was invoked *)
| Done (t : N)             (* produced the head at tick t *)
| Dropped (t : N).         (* its future was dropped at tick t *)

Record call_obs : Type := mkCallObs {
  co_head : option status;   (* None = head arrived OK, Some st = failed instead *)
  co_head_tick : N;
  co_msgs : N;               (* messages the caller received *)
  co_final : option status;  (* None = OK *)
  co_end_tick : N;
  co_fate : fate;
  co_produced : N            (* messages the server side produced *)
}.

(* server side up to the head: result, instant, fate *)
Definition server_head (h : hm) (sk : server_kind) (sh : shape) : outcome (fut_result * N * fate) :=
  match sk with
  | STonic scfg =>
      match layer_limit h scfg with
      | Panic => Panic
      | Ok sl =>
          let '(r, f) := race (at_tick 0 0) (fire_of sl) (handler_ready (sh_head sh)) in
          Ok (r, f,
              match r with
              | Completed => Done (sh_head sh)
              | TimedOut => if f =? at_tick 0 0 then NotStarted else Dropped (tick_of f)
              end)
      end
  | SStub => Ok (Completed, handler_ready (sh_head sh), Done (sh_head sh))
  end.

(* the server side is reset when the client gives up at tick t *)
Definition fate_after_cancel (ft : fate) (t : N) : fate :=
  match ft with
  | NotStarted => NotStarted
  | Done h => if h <=? t then Done h else Dropped t
  | Dropped s => Dropped (N.min s t)
  end.

Definition unary_msgs (sh : shape) : N := if sh_streaming sh then sh_n sh else 1.

Definition call (s : tsrc) (ck : client_kind) (sk : server_kind) (sh : shape) : outcome call_obs :=
  match request_headers s with
  | Panic => Panic
  | Ok h =>
      match server_head h sk sh with
      | Panic => Panic
      | Ok (rs, fs, ft) =>
          (* what the server answers: the head, or the timeout status in a trailers-only response *)
          match (match rs with
                 | Completed => Ok None
                 | TimedOut => over_the_wire timeout_status
                 end) with
          | Panic => Panic
          | Ok answer =>
              let client_race :=
                match ck with
                | CRaw => Ok (Completed, fs + 1)
                | CChannel ccfg =>
                    match layer_limit h ccfg with
                    | Panic => Panic
                    | Ok cl => Ok (race (at_tick 0 LATE) (fire_of cl) (fs + 1))
                    end
                end in
              match client_race with
              | Panic => Panic
              | Ok (TimedOut, fc) =>
                  let t := tick_of fc in
                  Ok (mkCallObs (Some timeout_status) t 0 (Some timeout_status) t
                                (fate_after_cancel ft t) 0)
              | Ok (Completed, fc) =>
                  let t := tick_of fc in
                  match answer with
                  | Some st => Ok (mkCallObs (Some st) t 0 (Some st) t ft 0)
                  | None =>
                      (* the head is in: nothing races the rest of the response *)
                      let e := sh_head sh + sh_n sh * sh_gap sh in
                      Ok (mkCallObs None t (unary_msgs sh) None (N.max t e) ft (sh_n sh))
                  end
              end
          end
      end
  end.

(* ------------------------------------------------------------------------------------------
   Specification vocabulary (gRPC over HTTP/2: Timeout = TimeoutValue TimeoutUnit,
   TimeoutValue = 1..8 ASCII digits, TimeoutUnit = H | M | S | m | u | n).
   Written by hand from the spec, independent of the generated tables.
   ------------------------------------------------------------------------------------------ *)
Definition spec_unit_ns (u : N) : option N :=
  if u =? 72 then Some 3600000000000        (* H *)
  else if u =? 77 then Some 60000000000     (* M *)
  else if u =? 83 then Some 1000000000      (* S *)
  else if u =? 109 then Some 1000000        (* m *)
  else if u =? 117 then Some 1000           (* u *)
  else if u =? 110 then Some 1              (* n *)
  else None.

(* the duration a spec-conformant value denotes; None for a value that is not conformant *)
Definition denote (v : list N) : option N :=
  match split_last v with
  | None => None
  | Some (ds, u) =>
      if (1 <=? nlen ds) && (nlen ds <=? 8) && forallb is_digit ds then
        match spec_unit_ns u with
        | Some per => Some (dec_val ds * per)
        | None => None
        end
      else None
  end.
Definition unit_ns_of (v : list N) : option N :=
  match split_last v with
  | Some (_, u) => spec_unit_ns u
  | None => None
  end.

(* the largest duration that can be written: 99 999 999 hours and anything that truncates to it *)
Definition FMT_LIMIT : N := 100000000 * 3600000000000.

(* ------------------------------------------------------------------------------------------
   observables for the correspondence harness (harness/h_timeout)
   ------------------------------------------------------------------------------------------ *)
Definition obs_parsed (p : parsed) : tr :=
  match p with
  | Absent => Nd [Nn 0]
  | Value ns => Nd [Nn 1; Nn ns]
  | Ignored => Nd [Nn 2]
  | ParsePanic => Nd [Nn 99]
  end.

(* set_timeout on a request whose metadata is md: the resulting metadata and what the server's
   parser makes of it *)
Definition obs_set_timeout (md : hm) (d : N) : tr :=
  match set_timeout md d with
  | Panic => Nd [Nn 99]
  | Ok m => Nd [Nn 1; hm_canon m; obs_parsed (parse_timeout m)]
  end.

Definition obs_parse (m : hm) : tr := obs_parsed (parse_timeout m).

Definition obs_run (s : tsrc) (ccfg scfg : option N) (lat : N) : tr :=
  match run s ccfg scfg lat with
  | Panic => Nd [Nn 99]
  | Ok (None, t) => Nd [Nn Code_Ok; Bs []; Nn (t * NS_PER_TICK)]
  | Ok (Some st, t) => Nd [Nn (st_code st); Bs (st_msg st); Nn (t * NS_PER_TICK)]
  end.

Definition obs_status (st : option status) : list tr :=
  match st with
  | None => [Nn Code_Ok; Bs []]
  | Some s => [Nn (st_code s); Bs (st_msg s)]
  end.
Definition obs_fate (f : fate) : tr :=
  match f with
  | NotStarted => Nd [Nn 0]
  | Done t => Nd [Nn 1; Nn (t * NS_PER_TICK)]
  | Dropped t => Nd [Nn 2; Nn (t * NS_PER_TICK)]
  end.
Definition obs_call (s : tsrc) (ck : client_kind) (sk : server_kind) (sh : shape) : tr :=
  match call s ck sk sh with
  | Panic => Nd [Nn 99]
  | Ok o =>
      (* a unary caller sees the head only together with the end of the call *)
      Nd [Nd (obs_status (co_head o));
          Nn ((if sh_streaming sh then co_head_tick o else co_end_tick o) * NS_PER_TICK);
          Nn (co_msgs o);
          Nd (obs_status (co_final o)); Nn (co_end_tick o * NS_PER_TICK);
          obs_fate (co_fate o); Nn (co_produced o)]
  end.
