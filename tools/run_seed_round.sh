#!/bin/sh
# usage: run_seed2.sh C01 C02 ...   (confirms /tmp/seed2_<id> as seeded/r2-<id>, runs it against ./check <id>)
cd /verif
for p in "$@"; do SEED_WT=/tmp/seed${SEED_ROUND:-2}_$p tools/confirm_seed.sh r${SEED_ROUND:-2}-$p --full; done
for p in "$@"; do tools/try_seed_isolated.sh seeded/r${SEED_ROUND:-2}-$p/patch.diff $p > /tmp/seedrun${SEED_ROUND:-2}_$p.log 2>&1; echo "r${SEED_ROUND:-2}-$p on $p: $(grep -E '^VIOLATION|^OK|^KNOWN' /tmp/seedrun${SEED_ROUND:-2}_$p.log | cut -c1-150 | tr '\n' ' ')"; done
