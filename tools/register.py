#!/usr/bin/env python3
"""tools/register.py Cxx "<claim text>" [partial-note]  – add/refresh the MANIFEST.json entry of a property."""
import json, sys
pid = sys.argv[1]
claim = sys.argv[2]
m = json.load(open('/verif/MANIFEST.json'))
cfg = json.load(open('/verif/checks/%s.json' % pid))
note = "trusted: Coq 8.16.1 kernel + vm_compute (no native_compute), the rs2v translator where Gen tables are used, the Rust harness and the ./check comparer. " + "Premises, bounds, section hypotheses and canonicalisations (full list in checks/%s.json and TRUSTED_BASE.md): " % pid + " | ".join(cfg.get("assumptions", []))
entry = {
 "property_id": pid, "quick_cmd": "./check %s quick" % pid, "thorough_cmd": "./check %s thorough" % pid,
 "evidence_file": "evidence/%s.json" % pid, "replay_cmd_template": "./check %s quick --replay {path}" % pid,
 "engine": "coq-model-and-proofs",
 "level_claimed": {"category": "proof", "text": claim, "design_ref": "DESIGN.md 3/%s" % pid},
 "level_note": note,
 "technique": "machine-checked proof in Coq over an executable model + differential correspondence with the implementation (model evaluated in Coq by vm_compute)" + (" + tables regenerated from source by rs2v" if cfg.get("gen") else ""),
}
m['checks'] = [c for c in m['checks'] if c['property_id'] != pid] + [entry]
m['checks'].sort(key=lambda c: c['property_id'])
m['not_applicable'] = [x for x in m.get('not_applicable', []) if x['property_id'] != pid]
for e in m['engines']:
    if pid not in e['serves_properties']:
        e['serves_properties'].append(pid); e['serves_properties'].sort()
json.dump(m, open('/verif/MANIFEST.json', 'w'), indent=1)
print("registered", pid)
