#!/usr/bin/env python3
"""tools/record_seed_round.py <round> <results.json> – writes confirmed_by_orchestrator / checks_run into
seeded/r<round>-Cxx/meta.json from confirm.log and a hand-kept results file
{ "Cxx": {"first_run": "...", "after": "...", "caught_by": "..."} } and prints the DESIGN table rows."""
import json, sys, re, os
rnd, res = sys.argv[1], json.load(open(sys.argv[2]))
for p in sorted(res):
    d = '/verif/seeded/r%s-%s' % (rnd, p)
    m = json.load(open(d + '/meta.json'))
    log = open(d + '/confirm.log').read()
    m['round'] = int(rnd)
    m['confirmed_by_orchestrator'] = {
        'patch_applies_to_repo_head': 'applies_to_repo_head: yes' in log,
        'demo_fails_with_patch': bool(re.search(r'rc_with=(?!0\b)\d+', log)),
        'demo_passes_without_patch': 'rc_without=0' in log,
        'baseline_suite_with_patch': (re.findall(r'Summary.*', log) or ['?'])[-1].strip(),
        'how': 'SEED_WT=/tmp/seed%s_%s tools/confirm_seed.sh r%s-%s --full (see confirm.log)' % (rnd, p, rnd, p)}
    r = res[p]
    m['checks_run'] = [{'check': r.get('caught_by', p), 'first_run': r['first_run'], 'after_strengthening': r.get('after', ''),
                        'cmd': 'tools/try_seed_isolated.sh seeded/r%s-%s/patch.diff %s' % (rnd, p, r.get('caught_by', p).split()[0])}]
    json.dump(m, open(d + '/meta.json', 'w'), indent=1)
    cell = lambda t: t.replace('|', '/').replace('\n', ' ')
    print('| `seeded/r%s-%s` – %s | %s | %s | %s |' % (rnd, p, cell(m.get('summary', ''))[:230], cell(m.get('needs_to_manifest', ''))[:200], cell(r['first_run']), cell(r.get('after', ''))))
