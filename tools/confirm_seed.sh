#!/bin/sh
# tools/confirm_seed.sh <name> [--full]  – independently confirm a seeded change left in /tmp/seed_<name>:
# patch applies to a clean tree, demo fails with it and passes without it, (with --full) the
# whole baseline suite still passes with it.  Copies patch/demo/meta to /verif/seeded/<name>/.
N=$1; W=${SEED_WT:-/tmp/seed_$N}; O=/verif/seeded/$N
mkdir -p "$O"; LOG="$O/confirm.log"; : > "$LOG"
export CARGO_TARGET_DIR=$W/target CARGO_NET_OFFLINE=true RUST_BACKTRACE=0
CMD=$(python3 -c "import json;print(json.load(open('$W/out/meta.json'))['demo_cmd'])")
echo "demo_cmd: $CMD" >> "$LOG"
cd "$W" || exit 2
git diff > /tmp/confirm_$N.diff
cmp -s /tmp/confirm_$N.diff out/patch.diff || { git diff --stat >> "$LOG"; echo "NOTE: worktree diff differs from out/patch.diff (using worktree diff)" >> "$LOG"; }
cp /tmp/confirm_$N.diff "$O/patch.diff"
git -C /repo apply --check "$O/patch.diff" 2>>"$LOG" && echo "applies_to_repo_head: yes" >> "$LOG" || echo "applies_to_repo_head: NO" >> "$LOG"
echo "== demo WITH patch" >> "$LOG"; (sh -c "$CMD") > /tmp/confirm_$N.with 2>&1; RW=$?; tail -15 /tmp/confirm_$N.with >> "$LOG"; echo "rc_with=$RW" >> "$LOG"
git apply -R /tmp/confirm_$N.diff
echo "== demo WITHOUT patch" >> "$LOG"; (sh -c "$CMD") > /tmp/confirm_$N.without 2>&1; RO=$?; tail -8 /tmp/confirm_$N.without >> "$LOG"; echo "rc_without=$RO" >> "$LOG"
git apply /tmp/confirm_$N.diff
if [ "${2:-}" = "--full" ]; then
  echo "== baseline suite WITH patch" >> "$LOG"
  cargo nextest run --workspace --no-fail-fast --tool-config-file pb:/w/lib/nextest.toml --profile pb --test-threads 8 --offline > /tmp/confirm_$N.nextest 2>&1
  grep -E "Summary|^\s+FAIL" /tmp/confirm_$N.nextest | sort -u >> "$LOG"
fi
rm -rf "$O/demo"; cp -r out/demo "$O/demo" 2>/dev/null; cp out/meta.json "$O/meta.json"; rm -rf "$O/demo/target"
echo "confirm_seed $N: rc_with=$RW rc_without=$RO"
