#!/bin/sh
# tools/try_seed_isolated.sh <patch.diff|-> <Cxx> [tier]
# Runs one check against a scratch copy of /repo (with the patch applied) and a scratch copy of
# /verif, so that nothing in /repo or /verif is disturbed.  Scratch lives in /tmp/vt_<Cxx>_<pid> and is
# removed afterwards (set KEEP=1 to keep it).  "-" as patch = unchanged tree.
set -u
PATCH=$1; PID=$2; TIER=${3:-quick}
T=/tmp/vt_${PID}_$$
rm -rf "$T"; mkdir -p "$T"
git -C /repo worktree prune
git -C /repo worktree add -q --detach "$T/repo" HEAD || exit 2
if [ "$PATCH" != "-" ]; then git -C "$T/repo" apply "$(readlink -f "$PATCH")" || { echo "patch does not apply"; git -C /repo worktree remove --force "$T/repo"; exit 2; }; fi
cp /repo/Cargo.lock "$T/repo/Cargo.lock" 2>/dev/null
rsync -a --exclude .cache --exclude .git --exclude 'replays' /verif/ "$T/verif/"
# reuse compiled Coq objects? no: rebuild from scratch copy (the .vo files were copied with the tree)
find "$T/verif/harness" -name Cargo.toml | xargs sed -i "s#/repo/#$T/repo/#g"
cd "$T/verif"
VERIF_REPO="$T/repo" ./check "$PID" "$TIER"; RC=$?
mkdir -p /verif/.cache/seed_runs; cp -r "$T/verif/replays" "/verif/.cache/seed_runs/${PID}_$(basename "$(dirname "$(readlink -f "$PATCH" 2>/dev/null || echo none)")")" 2>/dev/null
cp "$T/verif/evidence/$PID.json" "/verif/.cache/seed_runs/${PID}_evidence.json" 2>/dev/null
if [ "${KEEP:-0}" != 1 ]; then git -C /repo worktree remove --force "$T/repo"; rm -rf "$T"; fi
echo "try_seed_isolated: $PID rc=$RC"
exit $RC
