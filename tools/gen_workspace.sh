#!/bin/sh
# Regenerate harness/Cargo.toml: members = every harness/*/ directory that already has a Cargo.toml
# (a half-created crate directory of one property must not break the builds of the others).
cd /verif/harness 2>/dev/null || cd "$(dirname "$0")/../harness"
M=$(for d in */; do d=${d%/}; [ -f "$d/Cargo.toml" ] && [ -f "$d/src/main.rs" -o -f "$d/src/lib.rs" ] && printf '"%s", ' "$d"; done)
NEW=$(printf '[workspace]\nmembers = [%s]\nresolver = "2"\n\n[profile.dev]\nopt-level = 1\ndebug = 0\nincremental = false\n' "${M%, }")
[ "$(cat Cargo.toml 2>/dev/null)" = "$NEW" ] || printf '%s\n' "$NEW" > Cargo.toml
