#!/bin/sh
# tools/run_seed4.sh Cxx ... : confirm /tmp/seed4_<id> as seeded/r4-<id> (demo both ways + whole baseline suite), then run ./check <id> against it in isolation
cd /verif
for p in "$@"; do
  SEED_WT=/tmp/seed4_$p tools/confirm_seed.sh r4-$p --full
  tools/try_seed_isolated.sh seeded/r4-$p/patch.diff $p > /tmp/seedrun4_$p.log 2>&1
  echo "r4-$p on $p: $(grep -E '^VIOLATION|^OK|^KNOWN' /tmp/seedrun4_$p.log | cut -c1-160 | tr '\n' ' ')"
  grep -E "rc_with|rc_without|Summary|applies_to" seeded/r4-$p/confirm.log | tr '\n' ' '; echo
done
