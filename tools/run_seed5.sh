#!/bin/sh
# tools/run_seed5.sh Cxx ... : confirm /tmp/seed5_<id> as seeded/r5-<id> (demo both ways + whole baseline suite), then run ./check <id> against it in isolation
cd /verif
for p in "$@"; do
  SEED_WT=/tmp/seed5_$p tools/confirm_seed.sh r5-$p --full
  rm -rf /tmp/seed5_$p/target; tools/try_seed_isolated.sh seeded/r5-$p/patch.diff $p > /tmp/seedrun5_$p.log 2>&1
  echo "r5-$p on $p: $(grep -E '^VIOLATION|^OK|^KNOWN' /tmp/seedrun5_$p.log | cut -c1-160 | tr '\n' ' ')"
  grep -E "rc_with|rc_without|Summary|applies_to" seeded/r5-$p/confirm.log | tr '\n' ' '; echo
done
