#!/usr/bin/env python3
# tools/mk_seed_round.py <round> <Cxx>...  – creates scratch worktrees /tmp/seed<round>_<Cxx> of /repo HEAD with
# out/PROPERTY.txt (property text + the ideas of earlier rounds, which the tester must avoid).
import json, sys, os, subprocess, glob
rnd = sys.argv[1]; ids = sys.argv[2:]
props = {json.loads(l)['id']: json.loads(l) for l in open('/verif/properties.jsonl')}
for n in ids:
    wt = '/tmp/seed%s_%s' % (rnd, n)
    if not os.path.isdir(wt):
        subprocess.check_call(['git', '-C', '/repo', 'worktree', 'add', '-q', '--detach', wt, 'HEAD'])
    os.makedirs(wt + '/out', exist_ok=True)
    prev = []
    for d in sorted(glob.glob('/verif/seeded/*%s/meta.json' % n)):
        try: prev.append(json.load(open(d)).get('summary', '')[:350])
        except Exception: pass
    p = props[n]
    open(wt + '/out/PROPERTY.txt', 'w').write(
        "%s: %s\n\n%s\n\nQuantifier: %s\n\nAnchored files: %s\n\nPrevious testers already tried these ideas - do something DIFFERENT (another mechanism, another site, another trigger; think about parts of the statement nobody attacked yet):\n%s\n"
        % (p['id'], p['title'], p['statement'], p['quantifier']['text'], ", ".join(p['anchors']['files']), "\n".join("  - " + x for x in prev)))
    print(wt)
