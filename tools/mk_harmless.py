#!/usr/bin/env python3
# tools/mk_harmless.py <Cxx>... – scratch worktrees /tmp/harm_<Cxx> of /repo HEAD with out/PROPERTY.txt for the
# behaviour-preserving-change testers (tools/harmless_prompt.txt)
import json, sys, os, subprocess
props = {json.loads(l)['id']: json.loads(l) for l in open('/verif/properties.jsonl')}
for n in sys.argv[1:]:
    wt = '/tmp/harm_%s' % n
    if not os.path.isdir(wt):
        subprocess.check_call(['git', '-C', '/repo', 'worktree', 'add', '-q', '--detach', wt, 'HEAD'])
    os.makedirs(wt + '/out', exist_ok=True)
    p = props[n]
    open(wt + '/out/PROPERTY.txt', 'w').write("%s: %s\n\n%s\n\nQuantifier: %s\n\nAnchored files: %s\n\nAnchored mechanisms:\n%s\n" % (
        p['id'], p['title'], p['statement'], p['quantifier']['text'], ", ".join(p['anchors']['files']),
        "\n".join("  - %s (%s)" % (m['name'], m['where']) for m in p['anchors']['mechanism'])))
    open('/tmp/harm_prompt_%s.txt' % n, 'w').write(open('/verif/tools/harmless_prompt.txt').read().replace('WORKTREE', wt))
    print(wt)
