#!/bin/sh
cd /verif
for d in seeded/*/; do n=$(basename $d); p=$(echo $n | sed 's/^r[0-9]-//'); 
  tools/try_seed_isolated.sh seeded/$n/patch.diff $p > /tmp/seedall_$n.log 2>&1
  echo "$n on $p: $(grep -E '^VIOLATION|^OK' /tmp/seedall_$n.log | cut -c1-110)"
done
