#!/bin/sh
# tools/try_seed.sh <patch.diff> <Cxx> [tier]  – apply a seeded change to /repo, run one check, undo it.
set -u
PATCH=$(readlink -f "$1"); PID=$2; TIER=${3:-quick}
cd /verif
git -C /repo diff --quiet || { echo "/repo has uncommitted changes"; exit 2; }
git -C /repo apply "$PATCH" || { echo "patch does not apply"; exit 2; }
./check "$PID" "$TIER"; RC=$?
git -C /repo checkout -- .
echo "try_seed: $PID rc=$RC"
exit $RC
