#!/bin/sh
# tools/run_harmless.sh <Cxx> [check ids...] – run the checks against the three behaviour-preserving changes
# left in /tmp/harm_<Cxx>/out by a tester; keeps them under /verif/harmless/<Cxx>/ and appends the
# verdicts to /verif/harmless/results.txt.  Default check: the property's own.
P=$1; shift; CHECKS=${*:-$P}
cd /verif; mkdir -p harmless/$P
cp /tmp/harm_$P/out/h*.diff /tmp/harm_$P/out/harmless.json harmless/$P/ 2>/dev/null
for h in h1 h2 h3; do
  [ -f harmless/$P/$h.diff ] || continue
  for c in $CHECKS; do
    tools/try_seed_isolated.sh harmless/$P/$h.diff $c > /tmp/harmrun_${P}_${h}_$c.log 2>&1
    echo "$P/$h on $c: $(grep -E '^VIOLATION|^OK|patch does not apply' /tmp/harmrun_${P}_${h}_$c.log | cut -c1-140 | tr '\n' ' ') $(grep -c 'NOTE translator fallback' /tmp/harmrun_${P}_${h}_$c.log) fallback" | tee -a harmless/results.txt
  done
done
