//! C12 correspondence harness: the real tonic InterceptedService / InterceptorLayer over a
//! recording inner tower service.
use bytes::Bytes;
use http::{HeaderMap, HeaderName, HeaderValue};
use http_body::Body as _;
use http_body_util::BodyExt;
use serde_json::{json, Value};
use std::sync::{Arc, Mutex};
use std::task::{Context, Poll};
use tonic::metadata::{Ascii, Binary, MetadataKey, MetadataMap, MetadataValue};
use tonic::service::interceptor::InterceptedService;
use tonic::service::InterceptorLayer;
use tonic::{Code, Status};
use tower_layer::Layer;
use tower_service::Service;
use vcommon::body::{noop_waker, spin, Ev, ScriptBody};
use vcommon::*;

const IMPORTS: &str =
    "From Verif Require Import Lib.Bytes Lib.Obs Lib.HeaderMap Model.Status Model.Metadata Model.Interceptor.";

const RESERVED: [&str; 6] = ["te", "user-agent", "content-type", "grpc-message", "grpc-message-type", "grpc-status"];
fn is_reserved(k: &str) -> bool {
    RESERVED.contains(&k)
}

#[derive(Clone, Debug, PartialEq)]
struct Marker(u32);
#[derive(Clone, Debug, PartialEq)]
struct Tag(String);
type Ext = (Option<u32>, Option<String>);
fn ext_of(e: &http::Extensions) -> Ext {
    (e.get::<Marker>().map(|m| m.0), e.get::<Tag>().map(|t| t.0.clone()))
}
fn ext_tr(e: &Ext) -> Tr {
    Tr::L(vec![Tr::opt(e.0.map(Tr::n)), Tr::opt(e.1.as_ref().map(|s| Tr::s(s)))])
}
fn ext_coq(e: &Ext) -> String {
    format!(
        "({}, {})",
        coq_opt(&e.0, |n| n.to_string()),
        coq_opt(&e.1, |s| coq_bytes(s.as_bytes()))
    )
}
fn version_n(v: http::Version) -> u32 {
    match v {
        http::Version::HTTP_09 => 9,
        http::Version::HTTP_10 => 10,
        http::Version::HTTP_11 => 11,
        http::Version::HTTP_2 => 20,
        http::Version::HTTP_3 => 30,
        _ => 0,
    }
}

// ------------------------------------------------------------------ metadata mutations (as h_metadata)
#[derive(Clone, Debug)]
struct Op {
    t: u8,
    key: String,
    val: Vec<u8>,
}
fn apply_ops_to(m: &mut MetadataMap, ops: &[Op]) {
    for o in ops {
        match o.t {
            0 | 1 => {
                let k = MetadataKey::<Ascii>::from_bytes(o.key.as_bytes());
                let v = MetadataValue::<Ascii>::try_from(&o.val[..]);
                if let (Ok(k), Ok(v)) = (k, v) {
                    if o.t == 0 {
                        m.insert(k, v);
                    } else {
                        m.append(k, v);
                    }
                }
            }
            2 | 3 => {
                if let Ok(k) = MetadataKey::<Binary>::from_bytes(o.key.as_bytes()) {
                    let v = MetadataValue::<Binary>::from_bytes(&o.val);
                    if o.t == 2 {
                        m.insert_bin(k, v);
                    } else {
                        m.append_bin(k, v);
                    }
                }
            }
            4 => {
                m.remove(o.key.as_str());
            }
            _ => {
                m.remove_bin(o.key.as_str());
            }
        }
    }
}
fn coq_ops(ops: &[Op]) -> String {
    coq_list(ops, |o| format!("({},({},{}))", o.t, coq_bytes(o.key.as_bytes()), coq_bytes(&o.val)))
}
fn ops_json(ops: &[Op]) -> Value {
    Value::Array(ops.iter().map(|o| json!([o.t, hex(o.key.as_bytes()), hex(&o.val)])).collect())
}
const ASCII_KEYS: &[&str] = &[
    "x-a", "x-b", "x-trace-id", "authorization", "te", "user-agent", "content-type", "grpc-message", "grpc-message-type",
    "grpc-status", "grpc-timeout", "grpc-encoding", "grpc-accept-encoding", "X-A", "Content-Type", "x-new",
    // standard HTTP names: "every other header" includes them
    "connection", "content-length", "transfer-encoding", "upgrade", "keep-alive", "host", "accept", "accept-encoding",
    "accept-language", "cookie", "set-cookie", "x-forwarded-for", "forwarded", "via", "trailer", "date", "expect", "range",
    "referer", "origin", "proxy-authorization", "proxy-connection", "cache-control", "pragma", "content-encoding",
    "content-language", "content-location", "if-match", "if-none-match", "last-modified", "etag", "location", "server",
    "warning", "www-authenticate", "age", "vary", "allow", "link", "priority", "Connection", "Keep-Alive",
];
const STD_HEADERS: &[(&str, &str)] = &[
    ("connection", "keep-alive"), ("content-length", "6"), ("transfer-encoding", "chunked"), ("upgrade", "h2c"),
    ("keep-alive", "timeout=5"), ("host", "example.com:50051"), ("accept", "*/*"), ("accept-encoding", "gzip, br"),
    ("cookie", "a=1"), ("cookie", "b=2"), ("authorization", "Bearer x"), ("x-forwarded-for", "10.0.0.1"), ("via", "1.1 proxy"),
    ("trailer", "grpc-status"), ("date", "Thu, 01 Oct 2026 00:00:00 GMT"), ("expect", "100-continue"), ("proxy-connection", "close"),
];
const BIN_KEYS: &[&str] = &["x-payload-bin", "x-other-bin", "-bin", "grpc-status-details-bin", "grpc-trace-bin", "X-Payload-Bin"];
fn gen_ascii_value(r: &mut Rng) -> Vec<u8> {
    let n = r.range(0, 8) as usize;
    (0..n)
        .map(|_| match r.below(12) {
            0 => b' ',
            1 => r.range(0x80, 0xff) as u8,
            _ => r.range(0x21, 0x7e) as u8,
        })
        .collect()
}
fn gen_ops(r: &mut Rng, max: u64, headers: &HeaderMap) -> Vec<Op> {
    let existing: Vec<String> = headers.keys().map(|k| k.as_str().to_string()).collect();
    let n = r.range(0, max);
    (0..n)
        .map(|_| {
            let t = r.below(6) as u8;
            let bin = t == 2 || t == 3 || t == 5;
            let key = if !existing.is_empty() && r.chance(1, 2) {
                // aim at an entry that is there (of either kind: the typed API refuses the wrong kind)
                r.pick(&existing).clone()
            } else if r.chance(1, 15) {
                (*r.pick(&["", "x y", "x\u{e9}"])).to_string()
            } else {
                (*r.pick(if bin { BIN_KEYS } else { ASCII_KEYS })).to_string()
            };
            let val = match t {
                0 | 1 => gen_ascii_value(r),
                2 | 3 => {
                    let len = r.range(0, 7) as usize;
                    r.bytes(len)
                }
                _ => vec![],
            };
            Op { t, key, val }
        })
        .collect()
}
const B64: &[u8; 64] = b"ABCDEFGHIJKLMNOPQRSTUVWXYZabcdefghijklmnopqrstuvwxyz0123456789+/";
fn b64(data: &[u8], pad: bool) -> Vec<u8> {
    let mut o = vec![];
    for c in data.chunks(3) {
        let n = (c[0] as u32) << 16 | (*c.get(1).unwrap_or(&0) as u32) << 8 | *c.get(2).unwrap_or(&0) as u32;
        o.push(B64[(n >> 18) as usize & 63]);
        o.push(B64[(n >> 12) as usize & 63]);
        if c.len() > 1 {
            o.push(B64[(n >> 6) as usize & 63]);
        } else if pad {
            o.push(b'=');
        }
        if c.len() > 2 {
            o.push(B64[n as usize & 63]);
        } else if pad {
            o.push(b'=');
        }
    }
    o
}
fn gen_headers(r: &mut Rng) -> HeaderMap {
    let mut h = HeaderMap::new();
    if r.chance(3, 4) {
        h.insert("te", HeaderValue::from_static("trailers"));
        h.insert("content-type", HeaderValue::from_static("application/grpc"));
    }
    if r.chance(1, 2) {
        h.insert("user-agent", HeaderValue::from_static("tonic/0.14"));
    }
    for _ in 0..r.below(4) {
        let (k, v) = *r.pick(STD_HEADERS);
        h.append(k, HeaderValue::from_static(v));
    }
    for _ in 0..r.below(6) {
        if r.chance(1, 3) {
            let k = r.pick(BIN_KEYS).to_ascii_lowercase();
            let len = r.range(0, 7) as usize;
            let b = r.bytes(len);
            let pad = r.chance(1, 2);
            h.append(HeaderName::from_bytes(k.as_bytes()).unwrap(), HeaderValue::from_bytes(&b64(&b, pad)).unwrap());
        } else {
            let k = r.pick(ASCII_KEYS).to_ascii_lowercase();
            if let Ok(v) = HeaderValue::from_bytes(&gen_ascii_value(r)) {
                h.append(HeaderName::from_bytes(k.as_bytes()).unwrap(), v);
            }
        }
    }
    h
}
fn gen_message(r: &mut Rng) -> String {
    let pieces: &[&str] = &["a", "Z", "0", " ", "%", "\"", "#", "<", "?", "{", "`", "\u{7f}", "\u{0}", "\n", "é", "€", "😀", "%41", "%zz", ":", "~"];
    let n = match r.below(8) {
        0 | 1 => 0,
        2..=6 => r.range(1, 8),
        _ => r.range(9, 40),
    };
    (0..n).map(|_| *r.pick(pieces)).collect()
}
fn gen_details(r: &mut Rng) -> Vec<u8> {
    let n = match r.below(8) {
        0..=2 => 0,
        3..=6 => r.range(1, 9),
        _ => r.range(10, 40),
    } as usize;
    r.bytes(n)
}

// ------------------------------------------------------------------ status observable (as h_status)
const MSG_PREFIX: &str = "Error deserializing status message header: ";
const DET_PREFIX: &str = "Error deserializing status details header: ";
const HTTP_PREFIX: &str = "grpc-status header missing, mapped from HTTP status code ";
fn canon_msg(m: &str) -> Vec<u8> {
    for p in [MSG_PREFIX, DET_PREFIX, HTTP_PREFIX] {
        if m.starts_with(p) {
            return p.as_bytes().to_vec();
        }
    }
    m.as_bytes().to_vec()
}
fn status_tr(st: &Status) -> Tr {
    Tr::L(vec![
        Tr::n(st.code() as i32 as u32),
        Tr::B(canon_msg(st.message())),
        Tr::b(st.details()),
        hm_tr(&st.metadata().clone().into_headers()),
    ])
}

// ------------------------------------------------------------------ the recording inner service
#[derive(Clone, Debug)]
struct Seen {
    method: String,
    uri: String,
    version: u32,
    headers: HeaderMap,
    ext: Ext,
    body: Vec<u8>,
}
fn seen_tr(s: &Seen) -> Tr {
    Tr::L(vec![Tr::s(&s.method), Tr::s(&s.uri), Tr::n(s.version), hm_tr(&s.headers), ext_tr(&s.ext), Tr::b(&s.body)])
}
/// the inner service's answer: code 0 = Err(text); else status, headers, body data, body trailers
type Resp = (u16, HeaderMap, Vec<u8>, Option<HeaderMap>);
#[derive(Clone)]
struct Recorder {
    calls: Arc<Mutex<Vec<Seen>>>,
    resp: Resp,
}
impl Service<http::Request<Vec<u8>>> for Recorder {
    type Response = http::Response<ScriptBody<String>>;
    type Error = String;
    type Future = std::future::Ready<Result<Self::Response, String>>;
    fn poll_ready(&mut self, _: &mut Context<'_>) -> Poll<Result<(), String>> {
        Poll::Ready(Ok(()))
    }
    fn call(&mut self, req: http::Request<Vec<u8>>) -> Self::Future {
        let (p, body) = req.into_parts();
        self.calls.lock().unwrap().push(Seen {
            method: p.method.as_str().to_string(),
            uri: p.uri.to_string(),
            version: version_n(p.version),
            headers: p.headers,
            ext: ext_of(&p.extensions),
            body,
        });
        if self.resp.0 == 0 {
            return std::future::ready(Err(String::from_utf8_lossy(&self.resp.2).to_string()));
        }
        let mut evs = vec![Ev::Data(self.resp.2.clone())];
        if let Some(t) = &self.resp.3 {
            evs.push(Ev::Trailers(t.clone()));
        }
        let mut res = http::Response::new(ScriptBody::new(evs).0);
        *res.status_mut() = http::StatusCode::from_u16(self.resp.0).unwrap();
        *res.headers_mut() = self.resp.1.clone();
        std::future::ready(Ok(res))
    }
}

// ------------------------------------------------------------------ one case
#[derive(Clone, Debug)]
struct Action {
    fresh: bool,
    ops: Vec<Op>,
    ext: Option<Ext>,
    reject: Option<(u32, String, Vec<u8>, Vec<Op>)>,
}
struct Req {
    method: String,
    uri: String,
    version: http::Version,
    headers: HeaderMap,
    ext: Ext,
    body: Vec<u8>,
}
#[derive(Default)]
struct Tap {
    in_md: Option<HeaderMap>,
    in_ext: Option<Ext>,
    out_md: Option<HeaderMap>,
    out_ext: Option<Ext>,
    calls: u32,
}
fn build_status(rj: &(u32, String, Vec<u8>, Vec<Op>)) -> (Status, HeaderMap) {
    let mut md = MetadataMap::new();
    apply_ops_to(&mut md, &rj.3);
    let h = md.clone().into_headers();
    (
        Status::with_details_and_metadata(Code::from_i32(rj.0 as i32), rj.1.clone(), Bytes::copy_from_slice(&rj.2), md),
        h,
    )
}
fn case(out: &mut Out, rq: Req, act: Action, resp: Resp, via_layer: bool, corpus: bool) {
    let calls = Arc::new(Mutex::new(vec![]));
    let tap = Arc::new(Mutex::new(Tap::default()));
    let inner = Recorder { calls: calls.clone(), resp: resp.clone() };
    let (a2, tap2) = (act.clone(), tap.clone());
    let f = move |mut req: tonic::Request<()>| -> Result<tonic::Request<()>, Status> {
        let mut t = tap2.lock().unwrap();
        t.calls += 1;
        t.in_md = Some(req.metadata().clone().into_headers());
        t.in_ext = Some(ext_of(req.extensions()));
        if let Some(rj) = &a2.reject {
            return Err(build_status(rj).0);
        }
        if a2.fresh {
            *req.metadata_mut() = MetadataMap::new();
        }
        apply_ops_to(req.metadata_mut(), &a2.ops);
        if let Some((m, tg)) = &a2.ext {
            req.extensions_mut().remove::<Marker>();
            req.extensions_mut().remove::<Tag>();
            if let Some(m) = m {
                req.extensions_mut().insert(Marker(*m));
            }
            if let Some(tg) = tg {
                req.extensions_mut().insert(Tag(tg.clone()));
            }
        }
        t.out_md = Some(req.metadata().clone().into_headers());
        t.out_ext = Some(ext_of(req.extensions()));
        Ok(req)
    };
    let mut hreq = http::Request::new(rq.body.clone());
    *hreq.method_mut() = http::Method::from_bytes(rq.method.as_bytes()).unwrap();
    *hreq.uri_mut() = rq.uri.parse().unwrap();
    *hreq.version_mut() = rq.version;
    *hreq.headers_mut() = rq.headers.clone();
    if let Some(m) = rq.ext.0 {
        hreq.extensions_mut().insert(Marker(m));
    }
    if let Some(t) = &rq.ext.1 {
        hreq.extensions_mut().insert(Tag(t.clone()));
    }
    let uri_s = hreq.uri().to_string();
    let method_s = hreq.method().as_str().to_string();

    // what came back: Ok(status, version, headers, body) / Err(inner error)
    #[derive(Debug)]
    struct BodySeen {
        data: Vec<u8>,
        trailers: Option<HeaderMap>,
        frames: usize,
        end_before: bool,
        size_exact: Option<u64>,
    }
    type Back = Result<(u16, u32, HeaderMap, BodySeen), String>;
    let res: Result<Back, String> = catch(std::panic::AssertUnwindSafe(|| {
        let w = noop_waker();
        let mut cx = Context::from_waker(&w);
        let fut_out = if via_layer {
            let mut svc = InterceptorLayer::new(f).layer(inner);
            assert!(matches!(svc.poll_ready(&mut cx), Poll::Ready(Ok(()))));
            spin(svc.call(hreq), 100).expect("future hangs")
        } else {
            let mut svc = InterceptedService::new(inner, f);
            assert!(matches!(svc.poll_ready(&mut cx), Poll::Ready(Ok(()))));
            spin(svc.call(hreq), 100).expect("future hangs")
        };
        match fut_out {
            Err(e) => Err(e),
            Ok(r) => {
                let (p, mut body) = r.into_parts();
                let mut b = BodySeen { data: vec![], trailers: None, frames: 0, end_before: body.is_end_stream(), size_exact: body.size_hint().exact() };
                spin(
                    async {
                        while let Some(fr) = body.frame().await {
                            b.frames += 1;
                            match fr.expect("body error").into_data() {
                                Ok(d) => b.data.extend_from_slice(&d),
                                Err(fr) => b.trailers = fr.into_trailers().ok(),
                            }
                        }
                    },
                    100,
                )
                .expect("body hangs");
                Ok((p.status.as_u16(), version_n(p.version), p.headers, b))
            }
        }
    }));
    let body_tr = |b: &BodySeen| {
        Tr::L(vec![
            Tr::L(if b.frames == 0 { vec![] } else { vec![Tr::L(vec![Tr::b(&b.data), Tr::opt(b.trailers.as_ref().map(hm_tr))])] }),
            Tr::bool(b.end_before),
            Tr::opt(b.size_exact.map(Tr::n)),
        ])
    };
    let seen: Vec<Seen> = calls.lock().unwrap().clone();
    let tap = tap.lock().unwrap();

    // ---- implementation observable + direct oracle
    let mut why: Option<String> = None;
    let out_tr = match &res {
        Err(p) => {
            why = Some(format!("panic: {}", p));
            Tr::L(vec![Tr::n(99u8)])
        }
        Ok(Err(e)) => Tr::L(vec![Tr::n(3u8), Tr::s(e)]),
        Ok(Ok((code, ver, h, body))) => {
            if act.reject.is_some() {
                Tr::L(vec![
                    Tr::n(2u8),
                    Tr::n(*code),
                    Tr::n(*ver),
                    hm_tr(h),
                    Tr::opt(Status::from_header_map(h).as_ref().map(status_tr)),
                    body_tr(body),
                ])
            } else {
                Tr::L(vec![Tr::n(1u8), Tr::n(*code), hm_tr(h), body_tr(body)])
            }
        }
    };
    if why.is_none() {
        if tap.calls != 1 {
            why = Some(format!("interceptor called {} times", tap.calls));
        } else if tap.in_md.as_ref() != Some(&rq.headers) || tap.in_ext.as_ref() != Some(&rq.ext) {
            why = Some("the interceptor did not see the request's headers / extensions".to_string());
        }
    }
    if why.is_none() {
        match &act.reject {
            None => {
                // accept: inner saw the interceptor's metadata/extensions + the original rest
                if seen.len() != 1 {
                    why = Some(format!("inner service called {} times after an accept", seen.len()));
                } else {
                    let s = &seen[0];
                    let (om, oe) = (tap.out_md.as_ref().unwrap(), tap.out_ext.as_ref().unwrap());
                    if s.method != method_s {
                        why = Some("method changed".into());
                    } else if s.uri != uri_s {
                        why = Some("uri changed".into());
                    } else if s.version != version_n(rq.version) {
                        why = Some("version changed".into());
                    } else if s.body != rq.body {
                        why = Some("body changed".into());
                    } else if &s.ext != oe {
                        why = Some("extensions are not the interceptor's".into());
                    } else if &s.headers != om {
                        why = Some("headers are not the interceptor's metadata".into());
                    } else if !act.fresh {
                        // every header the interceptor's mutations did not name is the original one
                        let named: Vec<String> = act.ops.iter().map(|o| o.key.to_ascii_lowercase()).collect();
                        for k in rq.headers.keys() {
                            if named.iter().any(|n| n == k.as_str()) {
                                continue;
                            }
                            let a: Vec<_> = rq.headers.get_all(k).iter().collect();
                            let c: Vec<_> = s.headers.get_all(k).iter().collect();
                            if a != c {
                                why = Some(format!("untouched header {} changed (reserved: {})", k, is_reserved(k.as_str())));
                            }
                        }
                        if act.ext.is_none() && s.ext != rq.ext {
                            why = Some("untouched extensions changed".into());
                        }
                    }
                    // the inner answer is passed on
                    match &res {
                        Ok(Err(e)) if resp.0 == 0 && e.as_bytes() == &String::from_utf8_lossy(&resp.2).as_bytes()[..] => {}
                        Ok(Ok((code, _, h, b))) if *code == resp.0 && h == &resp.1 && b.data == resp.2 && b.trailers == resp.3 && !b.end_before && b.size_exact.is_none() => {}
                        _ if why.is_none() => why = Some("the inner service's answer was not passed on unchanged".into()),
                        _ => {}
                    }
                }
            }
            Some(rj) => {
                let (st, mdh) = build_status(rj);
                if !seen.is_empty() {
                    why = Some("inner service invoked although the interceptor rejected".into());
                } else {
                    match &res {
                        Ok(Ok((code, _ver, h, body))) => {
                            let back = Status::from_header_map(h);
                            if *code != 200 {
                                why = Some(format!("HTTP status {}", code));
                            } else if h.get_all("content-type").iter().map(|v| v.as_bytes()).collect::<Vec<_>>() != vec![b"application/grpc"] {
                                why = Some("content-type is not exactly application/grpc".into());
                            } else if h.get_all("grpc-status").iter().count() != 1 {
                                why = Some("not exactly one grpc-status".into());
                            } else if !body.data.is_empty() || body.frames != 0 || body.trailers.is_some() {
                                why = Some("body is not empty".into());
                            } else if !body.end_before || body.size_exact != Some(0) {
                                why = Some("the empty body does not announce itself as ended / of size 0".into());
                            } else if mdh.contains_key("grpc-status-details-bin") {
                                // outside the premises of c12_reject_status_recovered (a user entry under the
                                // protocol name grpc-status-details-bin): only the wire-level clauses above apply
                            } else {
                                match back {
                                    None => why = Some("no status in the response headers".into()),
                                    Some(b) => {
                                        if b.code() != st.code() {
                                            why = Some(format!("code {:?} read back as {:?}", st.code(), b.code()));
                                        } else if b.message() != st.message() {
                                            why = Some("message changed".into());
                                        } else if b.details() != st.details() {
                                            why = Some("details changed".into());
                                        } else {
                                            // metadata: exactly the status metadata minus the six reserved names,
                                            // plus the content-type tonic wrote
                                            let bm = b.metadata().clone().into_headers();
                                            for k in mdh.keys() {
                                                if is_reserved(k.as_str()) {
                                                    continue;
                                                }
                                                let a: Vec<_> = mdh.get_all(k).iter().collect();
                                                let c: Vec<_> = bm.get_all(k).iter().collect();
                                                if a != c {
                                                    why = Some(format!("status metadata {} changed", k));
                                                }
                                            }
                                            for k in bm.keys() {
                                                if k.as_str() == "content-type" {
                                                    if bm.get_all(k).iter().map(|v| v.as_bytes()).collect::<Vec<_>>() != vec![b"application/grpc"] {
                                                        why = Some("recovered content-type is not tonic's".into());
                                                    }
                                                } else if !mdh.contains_key(k) || is_reserved(k.as_str()) {
                                                    why = Some(format!("status metadata {} appeared", k));
                                                }
                                            }
                                        }
                                    }
                                }
                            }
                        }
                        _ => why = Some("a rejected call did not produce a response".into()),
                    }
                }
            }
        }
    }
    let obs = Tr::L(vec![Tr::L(seen.iter().map(seen_tr).collect()), out_tr]);

    // ---- model expression
    let reject_coq = match &act.reject {
        None => "None".to_string(),
        Some(rj) => {
            let (_, mdh) = build_status(rj);
            format!("(Some (mkStatus {} {} {} {}))", rj.0, coq_bytes(rj.1.as_bytes()), coq_bytes(&rj.2), coq_hm(&mdh))
        }
    };
    let model = format!(
        "obs_intercept (mkAction {} {} {} {}) ({}, ({}, {})) (mkHttpReq {} {} {} {} {} {})",
        coq_bool(act.fresh),
        coq_ops(&act.ops),
        coq_opt(&act.ext, ext_coq),
        reject_coq,
        resp.0,
        coq_hm(&resp.1),
        format!("({}, {})", coq_bytes(&resp.2), coq_opt(&resp.3, |t| coq_hm(t))),
        coq_bytes(method_s.as_bytes()),
        coq_bytes(uri_s.as_bytes()),
        version_n(rq.version),
        coq_hm(&rq.headers),
        ext_coq(&rq.ext),
        coq_bytes(&rq.body),
    );
    let kind = if act.reject.is_some() { "reject" } else { "accept" };
    out.hist("action", if act.reject.is_some() { "reject" } else if act.fresh { "replace-all" } else if act.ops.is_empty() && act.ext.is_none() { "identity" } else { "mutate" });
    for o in &act.ops {
        out.hist("action.op", ["insert", "append", "insert_bin", "append_bin", "remove", "remove_bin"][o.t as usize]);
    }
    out.hist("request.version", version_n(rq.version));
    out.hist("request.method", &rq.method);
    out.hist("request.has_reserved_header", rq.headers.keys().any(|k| is_reserved(k.as_str())));
    out.hist("request.has_repeated_header", rq.headers.keys().any(|k| rq.headers.get_all(k).iter().count() > 1));
    out.hist("request.has_binary_header", rq.headers.keys().any(|k| k.as_str().ends_with("-bin")));
    out.hist("via", if via_layer { "InterceptorLayer" } else { "InterceptedService::new" });
    if let Some(rj) = &act.reject {
        out.hist("reject.code", rj.0);
        out.hist("reject.details_len_mod3", rj.2.len() % 3);
    }
    out.push(Case {
        kind: if corpus { format!("corpus.{}", kind) } else { kind.to_string() },
        input: json!({
            "method": rq.method, "uri": rq.uri, "version": version_n(rq.version), "headers": hm_json(&rq.headers),
            "ext": [rq.ext.0, rq.ext.1], "body": hex(&rq.body),
            "action": {"fresh": act.fresh, "ops": ops_json(&act.ops), "ext": act.ext.as_ref().map(|e| json!([e.0, e.1])),
                       "reject": act.reject.as_ref().map(|r| json!([r.0, hex(r.1.as_bytes()), hex(&r.2), ops_json(&r.3)]))},
            "inner_response": [resp.0, hm_json(&resp.1), hex(&resp.2), resp.3.as_ref().map(hm_json)], "via_layer": via_layer,
        }),
        model,
        impl_obs: obs,
        oracle: why,
        nontrivial: !rq.headers.is_empty() || act.reject.is_some() || !act.ops.is_empty(),
    });
}

const METHODS: &[&str] = &["POST", "GET", "PUT", "DELETE", "HEAD", "OPTIONS", "CONNECT", "PATCH", "TRACE", "FOO", "M-SEARCH"];
const URIS: &[&str] = &[
    "/pkg.Svc/Method", "/", "/a/b?q=1&r=%20", "http://example.com:50051/pkg.Svc/Method", "https://[::1]:443/x?y",
    "http://user@host/p", "*", "example.com:443", "/grpc.health.v1.Health/Check", "/%E2%82%AC",
];
const VERSIONS: &[http::Version] = &[http::Version::HTTP_09, http::Version::HTTP_10, http::Version::HTTP_11, http::Version::HTTP_2, http::Version::HTTP_3];

fn gen_ext(r: &mut Rng) -> Ext {
    (
        if r.chance(1, 2) { Some(r.below(1000) as u32) } else { None },
        if r.chance(1, 3) { Some((*r.pick(&["t", "tag-1", "é"])).to_string()) } else { None },
    )
}
fn gen_req(r: &mut Rng) -> Req {
    let blen = match r.below(4) {
        0 => 0,
        1 | 2 => r.range(1, 12),
        _ => r.range(64, 300),
    } as usize;
    let body = if blen >= 64 { vec![r.below(256) as u8; blen] } else { r.bytes(blen) };
    Req {
        method: (*r.pick(METHODS)).to_string(),
        uri: (*r.pick(URIS)).to_string(),
        version: *r.pick(VERSIONS),
        headers: gen_headers(r),
        ext: gen_ext(r),
        body,
    }
}
fn gen_resp(r: &mut Rng) -> Resp {
    let code = *r.pick(&[200u16, 200, 200, 404, 500, 204, 0]);
    let mut h = HeaderMap::new();
    if code != 0 {
        for _ in 0..r.below(3) {
            let k = *r.pick(&["content-type", "grpc-status", "x-inner", "grpc-encoding"]);
            h.append(k, HeaderValue::from_static("v"));
        }
    }
    let n = r.range(0, 6) as usize;
    let body = if code == 0 { b"inner failed".to_vec() } else { r.bytes(n) };
    let trailers = if code != 0 && r.chance(1, 2) {
        let mut t = HeaderMap::new();
        t.insert("grpc-status", HeaderValue::from_static("0"));
        if r.chance(1, 2) {
            t.append("x-trailer", HeaderValue::from_static("t"));
        }
        Some(t)
    } else {
        None
    };
    (code, h, body, trailers)
}

fn op(t: u8, k: &str, v: &[u8]) -> Op {
    Op { t, key: k.to_string(), val: v.to_vec() }
}

fn main() {
    let a = args();
    let mut out = Out::new(&a.out);
    let mut r = Rng::new(a.seed);

    // ---- corpus: reserved headers must survive an accepting interceptor; every action kind once
    let mk_req = |version| {
        let mut h = HeaderMap::new();
        h.insert("te", HeaderValue::from_static("trailers"));
        h.insert("content-type", HeaderValue::from_static("application/grpc"));
        h.insert("user-agent", HeaderValue::from_static("test-tonic"));
        h.insert("grpc-status", HeaderValue::from_static("7"));
        h.insert("grpc-message", HeaderValue::from_static("m"));
        h.insert("grpc-message-type", HeaderValue::from_static("t"));
        h.append("x-a", HeaderValue::from_static("1"));
        h.append("x-a", HeaderValue::from_static("2"));
        h.append("x-p-bin", HeaderValue::from_static("AP8H"));
        h.append("x-p-bin", HeaderValue::from_static("QQ=="));
        for (k, v) in STD_HEADERS {
            h.append(*k, HeaderValue::from_static(v));
        }
        Req { method: "POST".into(), uri: "/pkg.Svc/Method".into(), version, headers: h, ext: (Some(7), None), body: b"\x00\x00\x00\x00\x01x".to_vec() }
    };
    let ok_resp = || {
        let mut h = HeaderMap::new();
        h.insert("content-type", HeaderValue::from_static("application/grpc"));
        let mut t = HeaderMap::new();
        t.insert("grpc-status", HeaderValue::from_static("0"));
        (200u16, h, b"\x00\x00\x00\x00\x00".to_vec(), Some(t))
    };
    let acts = vec![
        Action { fresh: false, ops: vec![], ext: None, reject: None },
        Action { fresh: false, ops: vec![op(0, "x-new", b"n"), op(1, "x-a", b"3"), op(3, "x-p-bin", b"\x01")], ext: None, reject: None },
        Action { fresh: false, ops: vec![op(4, "x-a", b""), op(5, "x-p-bin", b""), op(4, "te", b"")], ext: Some((None, Some("t".into()))), reject: None },
        Action { fresh: false, ops: vec![op(0, "x-a", b"only"), op(0, "content-type", b"text/plain"), op(0, "TE", b"x")], ext: Some((Some(8), None)), reject: None },
        Action { fresh: true, ops: vec![op(1, "authorization", b"Bearer x")], ext: Some((None, None)), reject: None },
        Action { fresh: false, ops: vec![], ext: None, reject: Some((16, "no".into(), vec![], vec![])) },
        Action { fresh: false, ops: vec![], ext: None, reject: Some((7, "denied: 100% \"é\"\n".into(), vec![0, 255, 7, 9], vec![op(1, "x-why", b"acl"), op(1, "te", b"forged"), op(1, "content-type", b"text/html"), op(1, "grpc-status", b"0"), op(3, "x-d-bin", b"\x00\x01"), op(1, "x-why", b"2")])) },
        Action { fresh: false, ops: vec![], ext: None, reject: Some((0, "".into(), vec![1], vec![op(3, "grpc-status-details-bin", b"user")])) },
    ];
    for (i, act) in acts.iter().enumerate() {
        for v in VERSIONS {
            case(&mut out, mk_req(*v), act.clone(), ok_resp(), i % 2 == 0, true);
        }
    }
    for c in 0..17u32 {
        let act = Action { fresh: false, ops: vec![], ext: None, reject: Some((c, format!("code {}", c), vec![c as u8], vec![])) };
        case(&mut out, mk_req(http::Version::HTTP_2), act, ok_resp(), false, true);
    }
    for m in METHODS {
        for u in URIS {
            let mut rq = mk_req(http::Version::HTTP_2);
            rq.method = m.to_string();
            rq.uri = u.to_string();
            case(&mut out, rq, acts[1].clone(), ok_resp(), true, true);
        }
    }

    // ---- generated
    let n = if a.thorough { 12000 } else { 1200 } * a.scale.max(1);
    for i in 0..n {
        let rq = gen_req(&mut r);
        let kind = r.below(10);
        let act = match kind {
            0 => Action { fresh: false, ops: vec![], ext: None, reject: None },
            1..=4 => Action {
                fresh: false,
                ops: gen_ops(&mut r, 4, &rq.headers),
                ext: if r.chance(1, 3) { Some(gen_ext(&mut r)) } else { None },
                reject: None,
            },
            5 => Action { fresh: true, ops: gen_ops(&mut r, 3, &rq.headers), ext: Some(gen_ext(&mut r)), reject: None },
            _ => {
                let md_ops = gen_ops(&mut r, 4, &HeaderMap::new()).into_iter().filter(|o| o.t < 4).collect();
                Action {
                    fresh: r.chance(1, 4),
                    ops: gen_ops(&mut r, 2, &rq.headers),
                    ext: None,
                    reject: Some((r.below(17) as u32, gen_message(&mut r), gen_details(&mut r), md_ops)),
                }
            }
        };
        let resp = gen_resp(&mut r);
        case(&mut out, rq, act, resp, i % 2 == 0, false);
    }

    out.finish(
        IMPORTS,
        "accept / reject: the real InterceptedService (built directly and through InterceptorLayer) over a recording inner tower service; requests over 11 methods x 10 URI shapes x 5 HTTP versions with header maps holding reserved, repeated and (padded / unpadded) binary entries, two extension types and a body; interceptor actions identity / insert / append / remove (+_bin, also aimed at reserved names and at entries of the wrong kind) / replace everything / change extensions / reject with a random status (17 codes x hostile messages x details of every length mod 3 x metadata incl. reserved names); inner answers incl. non-200 and Err. Non-trivial = request has headers, or the action mutates or rejects. Distinct = distinct (kind, model expression).",
        json!({}),
    );
}
