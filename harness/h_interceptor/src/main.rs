//! C12 correspondence harness: the real tonic InterceptedService / InterceptorLayer over a
//! recording inner tower service with scripted poll_ready, futures and response bodies.
use bytes::Bytes;
use http::{HeaderMap, HeaderName, HeaderValue};
use http_body::{Frame, SizeHint};
use serde_json::{json, Value};
use std::collections::{BTreeMap, VecDeque};
use std::future::Future;
use std::pin::Pin;
use std::sync::atomic::{AtomicUsize, Ordering};
use std::sync::{Arc, Mutex};
use std::task::{Context, Poll};
use tonic::metadata::{Ascii, Binary, MetadataKey, MetadataMap, MetadataValue};
use tonic::service::interceptor::InterceptedService;
use tonic::service::InterceptorLayer;
use tonic::{Code, Status};
use tower_layer::Layer;
use tower_service::Service;
use vcommon::body::noop_waker;
use vcommon::*;

const IMPORTS: &str =
    "From Verif Require Import Lib.Bytes Lib.Obs Lib.HeaderMap Model.Status Model.Metadata Model.Interceptor.";

const RESERVED: [&str; 6] = ["te", "user-agent", "content-type", "grpc-message", "grpc-message-type", "grpc-status"];
fn is_reserved(k: &str) -> bool {
    RESERVED.contains(&k)
}

#[derive(Clone, Debug, PartialEq)]
struct Marker(u32);
#[derive(Clone, Debug, PartialEq)]
struct Tag(String);
type Ext = (Option<u32>, Option<String>);
fn ext_of(e: &http::Extensions) -> Ext {
    (e.get::<Marker>().map(|m| m.0), e.get::<Tag>().map(|t| t.0.clone()))
}
fn ext_tr(e: &Ext) -> Tr {
    Tr::L(vec![Tr::opt(e.0.map(Tr::n)), Tr::opt(e.1.as_ref().map(|s| Tr::s(s)))])
}
fn ext_coq(e: &Ext) -> String {
    format!(
        "({}, {})",
        coq_opt(&e.0, |n| n.to_string()),
        coq_opt(&e.1, |s| coq_bytes(s.as_bytes()))
    )
}
fn version_n(v: http::Version) -> u32 {
    match v {
        http::Version::HTTP_09 => 9,
        http::Version::HTTP_10 => 10,
        http::Version::HTTP_11 => 11,
        http::Version::HTTP_2 => 20,
        http::Version::HTTP_3 => 30,
        _ => 0,
    }
}

// ------------------------------------------------------------------ metadata mutations (as h_metadata)
#[derive(Clone, Debug)]
struct Op {
    t: u8,
    key: String,
    val: Vec<u8>,
}
fn apply_ops_to(m: &mut MetadataMap, ops: &[Op]) {
    for o in ops {
        match o.t {
            0 | 1 => {
                let k = MetadataKey::<Ascii>::from_bytes(o.key.as_bytes());
                let v = MetadataValue::<Ascii>::try_from(&o.val[..]);
                if let (Ok(k), Ok(v)) = (k, v) {
                    if o.t == 0 {
                        m.insert(k, v);
                    } else {
                        m.append(k, v);
                    }
                }
            }
            2 | 3 => {
                if let Ok(k) = MetadataKey::<Binary>::from_bytes(o.key.as_bytes()) {
                    let v = MetadataValue::<Binary>::from_bytes(&o.val);
                    if o.t == 2 {
                        m.insert_bin(k, v);
                    } else {
                        m.append_bin(k, v);
                    }
                }
            }
            4 => {
                m.remove(o.key.as_str());
            }
            _ => {
                m.remove_bin(o.key.as_str());
            }
        }
    }
}
fn coq_ops(ops: &[Op]) -> String {
    coq_list(ops, |o| format!("({},({},{}))", o.t, coq_bytes(o.key.as_bytes()), coq_bytes(&o.val)))
}
fn ops_json(ops: &[Op]) -> Value {
    Value::Array(ops.iter().map(|o| json!([o.t, hex(o.key.as_bytes()), hex(&o.val)])).collect())
}
const ASCII_KEYS: &[&str] = &[
    "x-a", "x-b", "x-trace-id", "authorization", "te", "user-agent", "content-type", "grpc-message", "grpc-message-type",
    "grpc-status", "grpc-timeout", "grpc-encoding", "grpc-accept-encoding", "X-A", "Content-Type", "x-new",
    // standard HTTP names: "every other header" includes them
    "connection", "content-length", "transfer-encoding", "upgrade", "keep-alive", "host", "accept", "accept-encoding",
    "accept-language", "cookie", "set-cookie", "x-forwarded-for", "forwarded", "via", "trailer", "date", "expect", "range",
    "referer", "origin", "proxy-authorization", "proxy-connection", "cache-control", "pragma", "content-encoding",
    "content-language", "content-location", "if-match", "if-none-match", "last-modified", "etag", "location", "server",
    "warning", "www-authenticate", "age", "vary", "allow", "link", "priority", "Connection", "Keep-Alive",
];
const STD_HEADERS: &[(&str, &str)] = &[
    ("connection", "keep-alive"), ("content-length", "6"), ("transfer-encoding", "chunked"), ("upgrade", "h2c"),
    ("keep-alive", "timeout=5"), ("host", "example.com:50051"), ("accept", "*/*"), ("accept-encoding", "gzip, br"),
    ("cookie", "a=1"), ("cookie", "b=2"), ("authorization", "Bearer x"), ("x-forwarded-for", "10.0.0.1"), ("via", "1.1 proxy"),
    ("trailer", "grpc-status"), ("date", "Thu, 01 Oct 2026 00:00:00 GMT"), ("expect", "100-continue"), ("proxy-connection", "close"),
];
const BIN_KEYS: &[&str] = &["x-payload-bin", "x-other-bin", "-bin", "grpc-status-details-bin", "grpc-trace-bin", "X-Payload-Bin"];
fn gen_ascii_value(r: &mut Rng) -> Vec<u8> {
    let n = r.range(0, 8) as usize;
    (0..n)
        .map(|_| match r.below(12) {
            0 => b' ',
            1 => r.range(0x80, 0xff) as u8,
            _ => r.range(0x21, 0x7e) as u8,
        })
        .collect()
}
fn gen_ops(r: &mut Rng, max: u64, headers: &HeaderMap) -> Vec<Op> {
    let existing: Vec<String> = headers.keys().map(|k| k.as_str().to_string()).collect();
    let n = r.range(0, max);
    (0..n)
        .map(|_| {
            let t = r.below(6) as u8;
            let bin = t == 2 || t == 3 || t == 5;
            let key = if !existing.is_empty() && r.chance(1, 2) {
                // aim at an entry that is there (of either kind: the typed API refuses the wrong kind)
                r.pick(&existing).clone()
            } else if r.chance(1, 15) {
                (*r.pick(&["", "x y", "x\u{e9}"])).to_string()
            } else {
                (*r.pick(if bin { BIN_KEYS } else { ASCII_KEYS })).to_string()
            };
            let val = match t {
                0 | 1 => gen_ascii_value(r),
                2 | 3 => {
                    let len = r.range(0, 7) as usize;
                    r.bytes(len)
                }
                _ => vec![],
            };
            Op { t, key, val }
        })
        .collect()
}
const B64: &[u8; 64] = b"ABCDEFGHIJKLMNOPQRSTUVWXYZabcdefghijklmnopqrstuvwxyz0123456789+/";
fn b64(data: &[u8], pad: bool) -> Vec<u8> {
    let mut o = vec![];
    for c in data.chunks(3) {
        let n = (c[0] as u32) << 16 | (*c.get(1).unwrap_or(&0) as u32) << 8 | *c.get(2).unwrap_or(&0) as u32;
        o.push(B64[(n >> 18) as usize & 63]);
        o.push(B64[(n >> 12) as usize & 63]);
        if c.len() > 1 {
            o.push(B64[(n >> 6) as usize & 63]);
        } else if pad {
            o.push(b'=');
        }
        if c.len() > 2 {
            o.push(B64[n as usize & 63]);
        } else if pad {
            o.push(b'=');
        }
    }
    o
}
fn gen_headers(r: &mut Rng) -> HeaderMap {
    let mut h = HeaderMap::new();
    if r.chance(3, 4) {
        h.insert("te", HeaderValue::from_static("trailers"));
        h.insert("content-type", HeaderValue::from_static("application/grpc"));
    }
    if r.chance(1, 2) {
        h.insert("user-agent", HeaderValue::from_static("tonic/0.14"));
    }
    for _ in 0..r.below(4) {
        let (k, v) = *r.pick(STD_HEADERS);
        h.append(k, HeaderValue::from_static(v));
    }
    for _ in 0..r.below(6) {
        if r.chance(1, 3) {
            let k = r.pick(BIN_KEYS).to_ascii_lowercase();
            let len = r.range(0, 7) as usize;
            let b = r.bytes(len);
            let pad = r.chance(1, 2);
            h.append(HeaderName::from_bytes(k.as_bytes()).unwrap(), HeaderValue::from_bytes(&b64(&b, pad)).unwrap());
        } else {
            let k = r.pick(ASCII_KEYS).to_ascii_lowercase();
            if let Ok(v) = HeaderValue::from_bytes(&gen_ascii_value(r)) {
                h.append(HeaderName::from_bytes(k.as_bytes()).unwrap(), v);
            }
        }
    }
    h
}
fn gen_message(r: &mut Rng) -> String {
    let pieces: &[&str] = &["a", "Z", "0", " ", "%", "\"", "#", "<", "?", "{", "`", "\u{7f}", "\u{0}", "\n", "é", "€", "😀", "%41", "%zz", ":", "~"];
    let n = match r.below(8) {
        0 | 1 => 0,
        2..=6 => r.range(1, 8),
        _ => r.range(9, 40),
    };
    (0..n).map(|_| *r.pick(pieces)).collect()
}
fn gen_details(r: &mut Rng) -> Vec<u8> {
    let n = match r.below(8) {
        0..=2 => 0,
        3..=6 => r.range(1, 9),
        _ => r.range(10, 40),
    } as usize;
    r.bytes(n)
}

// ------------------------------------------------------------------ status observable (as h_status)
const MSG_PREFIX: &str = "Error deserializing status message header: ";
const DET_PREFIX: &str = "Error deserializing status details header: ";
const HTTP_PREFIX: &str = "grpc-status header missing, mapped from HTTP status code ";
fn canon_msg(m: &str) -> Vec<u8> {
    for p in [MSG_PREFIX, DET_PREFIX, HTTP_PREFIX] {
        if m.starts_with(p) {
            return p.as_bytes().to_vec();
        }
    }
    m.as_bytes().to_vec()
}
fn status_tr(st: &Status) -> Tr {
    Tr::L(vec![
        Tr::n(st.code() as i32 as u32),
        Tr::B(canon_msg(st.message())),
        Tr::b(st.details()),
        hm_tr(&st.metadata().clone().into_headers()),
    ])
}


// ------------------------------------------------------------------ independent codecs (oracle only)
/// percent-decoding written here (not tonic's / the percent-encoding crate's): None unless every
/// '%' is followed by two hex digits and every byte is a visible ASCII character or a space
fn own_pct_decode(v: &[u8]) -> Option<Vec<u8>> {
    let hexv = |c: u8| match c {
        b'0'..=b'9' => Some(c - b'0'),
        b'a'..=b'f' => Some(c - b'a' + 10),
        b'A'..=b'F' => Some(c - b'A' + 10),
        _ => None,
    };
    let mut o = vec![];
    let mut i = 0;
    while i < v.len() {
        let c = v[i];
        if !(0x20..=0x7e).contains(&c) {
            return None;
        }
        if c == b'%' {
            let h = hexv(*v.get(i + 1)?)?;
            let l = hexv(*v.get(i + 2)?)?;
            o.push(h * 16 + l);
            i += 3;
        } else {
            o.push(c);
            i += 1;
        }
    }
    Some(o)
}
/// base64 decoding written here: standard alphabet, padding optional, no stray characters
fn own_b64_decode(v: &[u8]) -> Option<Vec<u8>> {
    let body: Vec<u8> = {
        let mut e = v.len();
        while e > 0 && v[e - 1] == b'=' && v.len() - e < 2 {
            e -= 1;
        }
        v[..e].to_vec()
    };
    if body.len() % 4 == 1 || (v.len() != body.len() && v.len() % 4 != 0) {
        return None;
    }
    let mut o = vec![];
    let mut acc: u32 = 0;
    let mut bits = 0;
    for c in body {
        let s = B64.iter().position(|x| *x == c)? as u32;
        acc = (acc << 6) | s;
        bits += 6;
        if bits >= 8 {
            bits -= 8;
            o.push((acc >> bits) as u8);
            acc &= (1 << bits) - 1;
        }
    }
    if acc != 0 {
        return None; // non-zero trailing bits
    }
    Some(o)
}
type Grouped = BTreeMap<String, Vec<Vec<u8>>>;
fn group_pairs(p: &[(String, Vec<u8>)]) -> Grouped {
    let mut g = Grouped::new();
    for (k, v) in p {
        g.entry(k.clone()).or_default().push(v.clone());
    }
    g
}
fn group_hm(h: &HeaderMap) -> Grouped {
    let mut g = Grouped::new();
    for (k, v) in h.iter() {
        g.entry(k.as_str().to_string()).or_default().push(v.as_bytes().to_vec());
    }
    g
}

// ------------------------------------------------------------------ scripted inner body / future / service
type Hint = (u64, Option<u64>);
#[derive(Clone, Debug)]
enum BEv {
    Pending,
    Data(Vec<u8>),
    Trailers(HeaderMap),
    Err(String),
}
/// while a step is at the head of the script the body reports `end` / `hint`; poll_frame answers
/// `ev` and drops the step.  Exhausted: poll_frame None, `fin`.  The reported values are arbitrary
/// (not derived from the frames): a wrapper that delegates must repeat them, whatever they are.
#[derive(Clone, Debug)]
struct Step {
    end: bool,
    hint: Hint,
    ev: BEv,
}
#[derive(Clone, Debug)]
struct BodyScript {
    steps: Vec<Step>,
    fin: (bool, Hint),
}
struct HintBody {
    steps: VecDeque<Step>,
    fin: (bool, Hint),
}
impl HintBody {
    fn new(s: &BodyScript) -> Self {
        HintBody { steps: s.steps.clone().into(), fin: s.fin }
    }
}
fn mk_hint(h: Hint) -> SizeHint {
    let mut s = SizeHint::new();
    s.set_lower(h.0);
    if let Some(u) = h.1 {
        s.set_upper(u);
    }
    s
}
impl http_body::Body for HintBody {
    type Data = Bytes;
    type Error = String;
    fn poll_frame(mut self: Pin<&mut Self>, _: &mut Context<'_>) -> Poll<Option<Result<Frame<Bytes>, String>>> {
        match self.steps.pop_front() {
            None => Poll::Ready(None),
            Some(s) => match s.ev {
                BEv::Pending => Poll::Pending,
                BEv::Data(d) => Poll::Ready(Some(Ok(Frame::data(Bytes::from(d))))),
                BEv::Trailers(t) => Poll::Ready(Some(Ok(Frame::trailers(t)))),
                BEv::Err(e) => Poll::Ready(Some(Err(e))),
            },
        }
    }
    fn is_end_stream(&self) -> bool {
        self.steps.front().map(|s| s.end).unwrap_or(self.fin.0)
    }
    fn size_hint(&self) -> SizeHint {
        mk_hint(self.steps.front().map(|s| s.hint).unwrap_or(self.fin.1))
    }
}
fn hint_tr(h: &SizeHint) -> Tr {
    Tr::L(vec![Tr::n(h.lower()), Tr::opt(h.upper().map(Tr::n))])
}
/// use a body as the script of uses says (0 poll_frame, 1 is_end_stream, 2 size_hint)
fn use_body<B: http_body::Body<Data = Bytes, Error = String> + Unpin>(b: &mut B, bops: &[u8]) -> Vec<Tr> {
    let w = noop_waker();
    let mut cx = Context::from_waker(&w);
    bops.iter()
        .map(|o| match o {
            0 => match Pin::new(&mut *b).poll_frame(&mut cx) {
                Poll::Pending => Tr::L(vec![Tr::n(0u8)]),
                Poll::Ready(None) => Tr::L(vec![Tr::n(1u8)]),
                Poll::Ready(Some(Ok(fr))) => match fr.into_data() {
                    Ok(d) => Tr::L(vec![Tr::n(2u8), Tr::b(&d)]),
                    Err(fr) => Tr::L(vec![Tr::n(3u8), hm_tr(&fr.into_trailers().ok().expect("a frame is data or trailers"))]),
                },
                Poll::Ready(Some(Err(e))) => Tr::L(vec![Tr::n(4u8), Tr::s(&e)]),
            },
            1 => Tr::L(vec![Tr::n(5u8), Tr::bool(b.is_end_stream())]),
            _ => Tr::L(vec![Tr::n(6u8), hint_tr(&b.size_hint())]),
        })
        .collect()
}
fn coq_hint(h: &Hint) -> String {
    format!("({}, {})", h.0, coq_opt(&h.1, |u| u.to_string()))
}
fn coq_body(b: &BodyScript) -> String {
    format!(
        "({}, ({}, {}))",
        coq_list(&b.steps, |s| {
            let ev = match &s.ev {
                BEv::Pending => "(0, (inl [], []))".to_string(),
                BEv::Data(d) => format!("(1, (inl {}, []))", coq_bytes(d)),
                BEv::Trailers(t) => format!("(1, (inr {}, []))", coq_hm(t)),
                BEv::Err(e) => format!("(2, (inl [], {}))", coq_bytes(e.as_bytes())),
            };
            format!("({}, {}, {})", coq_bool(s.end), coq_hint(&s.hint), ev)
        }),
        coq_bool(b.fin.0),
        coq_hint(&b.fin.1)
    )
}
fn body_json(b: &BodyScript) -> Value {
    json!({"steps": b.steps.iter().map(|s| json!([s.end, [s.hint.0, s.hint.1], match &s.ev {
        BEv::Pending => json!("pending"), BEv::Data(d) => json!({"data": hex(d)}),
        BEv::Trailers(t) => json!({"trailers": hm_json(t)}), BEv::Err(e) => json!({"err": e}) }])).collect::<Vec<_>>(),
        "fin": [b.fin.0, [b.fin.1 .0, b.fin.1 .1]]})
}

/// the inner service's answer: Err(text) or (status, headers, scripted body)
#[derive(Clone, Debug)]
enum Answer {
    Err(String),
    Ok(u16, HeaderMap, BodyScript),
}
fn coq_answer(a: &Answer) -> String {
    match a {
        Answer::Err(e) => format!("(inl {})", coq_bytes(e.as_bytes())),
        Answer::Ok(c, h, b) => format!("(inr (({}, {}), {}))", c, coq_hm(h), coq_body(b)),
    }
}
/// the inner future: Pending `pend` times, then the answer; every poll is counted
struct ScriptFut {
    pend: usize,
    out: Option<Result<http::Response<HintBody>, String>>,
    polls: Arc<AtomicUsize>,
}
impl Future for ScriptFut {
    type Output = Result<http::Response<HintBody>, String>;
    fn poll(mut self: Pin<&mut Self>, _: &mut Context<'_>) -> Poll<Self::Output> {
        self.polls.fetch_add(1, Ordering::SeqCst);
        if self.pend > 0 {
            self.pend -= 1;
            Poll::Pending
        } else {
            Poll::Ready(self.out.take().expect("the inner future was polled after completion"))
        }
    }
}

#[derive(Clone, Debug)]
struct Seen {
    method: String,
    uri: String,
    version: u32,
    headers: HeaderMap,
    ext: Ext,
    body: Vec<u8>,
}
fn seen_tr(s: &Seen) -> Tr {
    Tr::L(vec![Tr::s(&s.method), Tr::s(&s.uri), Tr::n(s.version), hm_tr(&s.headers), ext_tr(&s.ext), Tr::b(&s.body)])
}
#[derive(Clone, Debug)]
enum Entry {
    Ready,
    Call(Seen),
}
#[derive(Clone, Debug, PartialEq)]
enum ReadyEv {
    Pending,
    Ok,
    Err(String),
}
fn ready_tr(p: &Poll<Result<(), String>>) -> Tr {
    match p {
        Poll::Pending => Tr::L(vec![Tr::n(0u8)]),
        Poll::Ready(Ok(())) => Tr::L(vec![Tr::n(1u8)]),
        Poll::Ready(Err(e)) => Tr::L(vec![Tr::n(2u8), Tr::s(e)]),
    }
}
/// the recording inner service: scripted poll_ready (Ready(Ok) once the script is exhausted), a log of
/// everything it is asked, one ScriptFut per call
struct Recorder {
    log: Arc<Mutex<Vec<Entry>>>,
    ready: VecDeque<ReadyEv>,
    pend: usize,
    answer: Answer,
    fut_polls: Arc<AtomicUsize>,
}
impl Service<http::Request<Vec<u8>>> for Recorder {
    type Response = http::Response<HintBody>;
    type Error = String;
    type Future = ScriptFut;
    fn poll_ready(&mut self, _: &mut Context<'_>) -> Poll<Result<(), String>> {
        self.log.lock().unwrap().push(Entry::Ready);
        match self.ready.pop_front() {
            None | Some(ReadyEv::Ok) => Poll::Ready(Ok(())),
            Some(ReadyEv::Pending) => Poll::Pending,
            Some(ReadyEv::Err(e)) => Poll::Ready(Err(e)),
        }
    }
    fn call(&mut self, req: http::Request<Vec<u8>>) -> ScriptFut {
        let (p, body) = req.into_parts();
        self.log.lock().unwrap().push(Entry::Call(Seen {
            method: p.method.as_str().to_string(),
            uri: p.uri.to_string(),
            version: version_n(p.version),
            headers: p.headers,
            ext: ext_of(&p.extensions),
            body,
        }));
        let out = match &self.answer {
            Answer::Err(e) => Err(e.clone()),
            Answer::Ok(c, h, b) => {
                let mut res = http::Response::new(HintBody::new(b));
                *res.status_mut() = http::StatusCode::from_u16(*c).unwrap();
                *res.headers_mut() = h.clone();
                Ok(res)
            }
        };
        ScriptFut { pend: self.pend, out: Some(out), polls: self.fut_polls.clone() }
    }
}

// ------------------------------------------------------------------ one case = one service, a sequence of uses
/// the metadata of a rejecting status: built through the typed MetadataMap API, or given as raw header
/// entries (MetadataMap::from_headers) - then the expectation does not go through tonic at all
#[derive(Clone, Debug)]
enum MdSpec {
    Ops(Vec<Op>),
    Raw(Vec<(String, Vec<u8>)>),
}
#[derive(Clone, Debug)]
struct StatusSpec {
    code: u32,
    msg: String,
    details: Vec<u8>,
    md: MdSpec,
}
#[derive(Clone, Debug)]
struct Action {
    fresh: bool,
    ops: Vec<Op>,
    ext: Option<Ext>,
    reject: Option<StatusSpec>,
}
#[derive(Clone)]
struct Req {
    method: String,
    uri: String,
    version: http::Version,
    headers: HeaderMap,
    ext: Ext,
    body: Vec<u8>,
}
#[derive(Clone)]
struct Cfg {
    ready: Vec<ReadyEv>,
    pend: usize,
    answer: Answer,
    polls_acc: usize,
    polls_rej: usize,
    bops: Vec<u8>,
}
#[derive(Default, Clone)]
struct Tap {
    in_md: HeaderMap,
    in_ext: Ext,
    out: Option<(HeaderMap, Ext)>,
}
/// the status a spec describes and its metadata as (name, value) entries in map order
fn build_status(s: &StatusSpec) -> (Status, Vec<(String, Vec<u8>)>) {
    let (md, pairs) = match &s.md {
        MdSpec::Ops(ops) => {
            let mut md = MetadataMap::new();
            apply_ops_to(&mut md, ops);
            let h = md.clone().into_headers();
            let pairs = h.iter().map(|(k, v)| (k.as_str().to_string(), v.as_bytes().to_vec())).collect();
            (md, pairs)
        }
        MdSpec::Raw(p) => {
            let mut h = HeaderMap::new();
            for (k, v) in p {
                h.append(HeaderName::from_bytes(k.as_bytes()).unwrap(), HeaderValue::from_bytes(v).unwrap());
            }
            // the model gets the entries in the map's iteration order (entries of one name together)
            let pairs = h.iter().map(|(k, v)| (k.as_str().to_string(), v.as_bytes().to_vec())).collect();
            (MetadataMap::from_headers(h), pairs)
        }
    };
    (Status::with_details_and_metadata(Code::from_i32(s.code as i32), s.msg.clone(), Bytes::copy_from_slice(&s.details), md), pairs)
}
fn spec_pairs_independent(s: &StatusSpec) -> Option<Grouped> {
    match &s.md {
        MdSpec::Raw(p) => Some(group_pairs(p)),
        MdSpec::Ops(_) => None,
    }
}
fn coq_status(s: &StatusSpec) -> String {
    let (_, pairs) = build_status(s);
    let pv: Vec<(Vec<u8>, Vec<u8>)> = pairs.iter().map(|(k, v)| (k.as_bytes().to_vec(), v.clone())).collect();
    format!("(mkStatus {} {} {} {})", s.code, coq_bytes(s.msg.as_bytes()), coq_bytes(&s.details), coq_pairs(&pv))
}
fn coq_action(a: &Action) -> String {
    format!(
        "(mkAction {} {} {} {})",
        coq_bool(a.fresh),
        coq_ops(&a.ops),
        coq_opt(&a.ext, ext_coq),
        match &a.reject {
            None => "None".to_string(),
            Some(s) => format!("(Some {})", coq_status(s)),
        }
    )
}
fn coq_req(rq: &Req, uri_s: &str) -> String {
    format!(
        "(mkHttpReq {} {} {} {} {} {})",
        coq_bytes(rq.method.as_bytes()),
        coq_bytes(uri_s.as_bytes()),
        version_n(rq.version),
        coq_hm(&rq.headers),
        ext_coq(&rq.ext),
        coq_bytes(&rq.body)
    )
}
fn status_json(s: &StatusSpec) -> Value {
    json!({"code": s.code, "msg": hex(s.msg.as_bytes()), "details": hex(&s.details), "md": match &s.md {
        MdSpec::Ops(o) => json!({"ops": ops_json(o)}),
        MdSpec::Raw(p) => json!({"raw": p.iter().map(|(k, v)| json!([k, hex(v)])).collect::<Vec<_>>()}) }})
}
fn action_json(a: &Action) -> Value {
    json!({"fresh": a.fresh, "ops": ops_json(&a.ops), "ext": a.ext.as_ref().map(|e| json!([e.0, e.1])),
           "reject": a.reject.as_ref().map(status_json)})
}

/// the wire-level check of a rejected call's response head, independent of tonic's Status code:
/// own decimal / percent / base64 codecs, expectation from the spec
fn judge_reject_head(spec: &StatusSpec, md: &Grouped, md_independent: bool, code: u16, h: &HeaderMap) -> Option<String> {
    if code != 200 {
        return Some(format!("HTTP status {}", code));
    }
    let wire = group_hm(h);
    // expected names.  grpc-status-details-bin is the protocol's on this path: the status's own
    // details or, without details, NO such header - a user entry of that name in the status
    // metadata never reaches the wire (F-C04e / F-C12a, fixed by ed827503)
    let mut want: BTreeMap<String, Option<Vec<Vec<u8>>>> = BTreeMap::new(); // None = judged by decoding
    want.insert("content-type".into(), Some(vec![b"application/grpc".to_vec()]));
    for (k, vs) in md {
        if !is_reserved(k) && k.as_str() != "grpc-status-details-bin" {
            want.insert(k.clone(), Some(vs.clone()));
        }
    }
    want.insert("grpc-status".into(), Some(vec![spec.code.to_string().into_bytes()]));
    if !spec.msg.is_empty() {
        want.insert("grpc-message".into(), None);
    }
    if !spec.details.is_empty() {
        want.insert("grpc-status-details-bin".into(), None);
    }
    for k in wire.keys() {
        if !want.contains_key(k) {
            return Some(format!("response header {} does not belong to the status", k));
        }
    }
    for (k, w) in &want {
        let got = match wire.get(k) {
            None => return Some(format!("response header {} is missing", k)),
            Some(g) => g,
        };
        match w {
            Some(vs) => {
                if got != vs {
                    return Some(format!("response header {} does not carry the status's value(s)", k));
                }
            }
            None => {
                if got.len() != 1 {
                    return Some(format!("{} values of {}", got.len(), k));
                }
                if k == "grpc-message" {
                    if own_pct_decode(&got[0]).as_deref() != Some(spec.msg.as_bytes()) {
                        return Some("grpc-message does not percent-decode (own decoder) to the status message".into());
                    }
                } else if own_b64_decode(&got[0]).as_deref() != Some(&spec.details[..]) {
                    return Some("grpc-status-details-bin does not base64-decode (own decoder) to the status details".into());
                }
            }
        }
    }
    // what a caller recovers with tonic's reader, against the SPEC (not against a tonic-built status)
    let back = match Status::from_header_map(h) {
        None => return Some("no status in the response headers".into()),
        Some(b) => b,
    };
    if back.code() as i32 != spec.code as i32 {
        return Some(format!("code {} read back as {:?}", spec.code, back.code()));
    }
    if back.message() != spec.msg {
        return Some("message changed".into());
    }
    // the details are the interceptor's status's own in ALL cases (no switch: a user entry named
    // grpc-status-details-bin in the status metadata is only excused from being delivered itself)
    if back.details() != &spec.details[..] {
        return Some("details changed: the caller does not recover the details of the interceptor's status".into());
    }
    let bm = group_hm(&back.metadata().clone().into_headers());
    let mut want_md: Grouped = md.iter().filter(|(k, _)| !is_reserved(k) && k.as_str() != "grpc-status-details-bin").map(|(k, v)| (k.clone(), v.clone())).collect();
    want_md.insert("content-type".into(), vec![b"application/grpc".to_vec()]);
    if bm != want_md {
        return Some(format!(
            "recovered metadata is not the status metadata minus the reserved names plus tonic's content-type{}",
            if md_independent { " (expectation from raw entries)" } else { "" }
        ));
    }
    None
}

enum SOp {
    Ready,
    Call(Req),
}
fn build_hreq(rq: &Req) -> http::Request<Vec<u8>> {
    let mut hreq = http::Request::new(rq.body.clone());
    *hreq.method_mut() = http::Method::from_bytes(rq.method.as_bytes()).unwrap();
    *hreq.uri_mut() = rq.uri.parse().unwrap();
    *hreq.version_mut() = rq.version;
    *hreq.headers_mut() = rq.headers.clone();
    if let Some(m) = rq.ext.0 {
        hreq.extensions_mut().insert(Marker(m));
    }
    if let Some(t) = &rq.ext.1 {
        hreq.extensions_mut().insert(Tag(t.clone()));
    }
    hreq
}

fn run_seq(out: &mut Out, kind: &str, acts: Vec<Action>, cfg: Cfg, ops: Vec<SOp>, via_layer: bool) {
    let log = Arc::new(Mutex::new(vec![]));
    let fut_polls = Arc::new(AtomicUsize::new(0));
    let taps: Arc<Mutex<Vec<Tap>>> = Arc::new(Mutex::new(vec![]));
    let inner = Recorder { log: log.clone(), ready: cfg.ready.clone().into(), pend: cfg.pend, answer: cfg.answer.clone(), fut_polls: fut_polls.clone() };
    let (acts2, taps2) = (acts.clone(), taps.clone());
    let mut counter: usize = 0; // the interceptor's own state (FnMut)
    let f = move |mut req: tonic::Request<()>| -> Result<tonic::Request<()>, Status> {
        let a = if acts2.is_empty() { Action { fresh: false, ops: vec![], ext: None, reject: None } } else { acts2[counter % acts2.len()].clone() };
        counter += 1;
        let mut t = Tap { in_md: req.metadata().clone().into_headers(), in_ext: ext_of(req.extensions()), out: None };
        if let Some(rj) = &a.reject {
            taps2.lock().unwrap().push(t);
            return Err(build_status(rj).0);
        }
        if a.fresh {
            *req.metadata_mut() = MetadataMap::new();
        }
        apply_ops_to(req.metadata_mut(), &a.ops);
        if let Some((m, tg)) = &a.ext {
            req.extensions_mut().remove::<Marker>();
            req.extensions_mut().remove::<Tag>();
            if let Some(m) = m {
                req.extensions_mut().insert(Marker(*m));
            }
            if let Some(tg) = tg {
                req.extensions_mut().insert(Tag(tg.clone()));
            }
        }
        t.out = Some((req.metadata().clone().into_headers(), ext_of(req.extensions())));
        taps2.lock().unwrap().push(t);
        Ok(req)
    };
    let mut svc: InterceptedService<Recorder, _> = if via_layer { InterceptorLayer::new(f).layer(inner) } else { InterceptedService::new(inner, f) };

    let w = noop_waker();
    let mut cx = Context::from_waker(&w);
    let mut why: Option<String> = None;
    let fail = |w: &mut Option<String>, s: String| {
        if w.is_none() {
            *w = Some(s);
        }
    };
    let mut results: Vec<Tr> = vec![];
    let mut ready_script: VecDeque<ReadyEv> = cfg.ready.clone().into();
    let mut n_calls = 0usize;
    let mut uris: Vec<String> = vec![];
    for op in &ops {
        let log_before = log.lock().unwrap().len();
        let taps_before = taps.lock().unwrap().len();
        let polls_before = fut_polls.load(Ordering::SeqCst);
        match op {
            SOp::Ready => {
                let r = catch(std::panic::AssertUnwindSafe(|| svc.poll_ready(&mut cx)));
                match r {
                    Err(p) => {
                        fail(&mut why, format!("poll_ready panicked: {}", p));
                        results.push(Tr::L(vec![Tr::n(0u8), Tr::L(vec![Tr::n(99u8)])]));
                    }
                    Ok(p) => {
                        // direct check: poll_ready is the inner service's, one for one, the interceptor is not run
                        let want = match ready_script.pop_front() {
                            None | Some(ReadyEv::Ok) => Poll::Ready(Ok(())),
                            Some(ReadyEv::Pending) => Poll::Pending,
                            Some(ReadyEv::Err(e)) => Poll::Ready(Err(e)),
                        };
                        if p != want {
                            fail(&mut why, "poll_ready did not return what the inner service's poll_ready returned".into());
                        }
                        let lg = log.lock().unwrap();
                        if lg.len() != log_before + 1 || !matches!(lg[log_before], Entry::Ready) {
                            fail(&mut why, "poll_ready did not poll the inner service exactly once".into());
                        }
                        if taps.lock().unwrap().len() != taps_before {
                            fail(&mut why, "poll_ready ran the interceptor".into());
                        }
                        results.push(Tr::L(vec![Tr::n(0u8), ready_tr(&p)]));
                    }
                }
            }
            SOp::Call(rq) => {
                let act = if acts.is_empty() { Action { fresh: false, ops: vec![], ext: None, reject: None } } else { acts[n_calls % acts.len()].clone() };
                n_calls += 1;
                let hreq = build_hreq(rq);
                let uri_s = hreq.uri().to_string();
                let method_s = hreq.method().as_str().to_string();
                uris.push(uri_s.clone());
                let fut = catch(std::panic::AssertUnwindSafe(|| svc.call(hreq)));
                let mut fut = match fut {
                    Err(p) => {
                        fail(&mut why, format!("call panicked: {}", p));
                        results.push(Tr::L(vec![Tr::n(1u8), Tr::L(vec![Tr::L(vec![Tr::n(99u8)])])]));
                        continue;
                    }
                    Ok(f) => Box::pin(f),
                };
                // the inner service is invoked inside call(), before the future is ever polled
                let seen_now: Vec<Entry> = log.lock().unwrap()[log_before..].to_vec();
                let tap_now: Vec<Tap> = taps.lock().unwrap()[taps_before..].to_vec();
                if tap_now.len() != 1 {
                    fail(&mut why, format!("interceptor ran {} times for one call", tap_now.len()));
                } else if tap_now[0].in_md != rq.headers || tap_now[0].in_ext != rq.ext {
                    fail(&mut why, "the interceptor did not see the request's headers / extensions".into());
                }
                let n_polls = if act.reject.is_some() { cfg.polls_rej } else { cfg.polls_acc };
                let mut trace: Vec<Tr> = vec![];
                for i in 0..n_polls {
                    let r = catch(std::panic::AssertUnwindSafe(|| fut.as_mut().poll(&mut cx)));
                    match r {
                        Err(p) => {
                            trace.push(Tr::L(vec![Tr::n(99u8)]));
                            if act.reject.is_some() && i >= 1 {
                                // a spent future may panic when polled again (the Future contract leaves a
                                // poll after completion open; the text of that panic is nobody's business)
                            } else {
                                fail(&mut why, format!("poll {} of the response future panicked: {}", i, p));
                            }
                        }
                        Ok(Poll::Pending) => {
                            trace.push(Tr::L(vec![Tr::n(0u8)]));
                            if act.reject.is_some() {
                                fail(&mut why, "the future of a rejected call was Pending".into());
                            } else if i >= cfg.pend {
                                fail(&mut why, "Pending although the inner future was ready".into());
                            }
                        }
                        Ok(Poll::Ready(Err(e))) => {
                            trace.push(Tr::L(vec![Tr::n(3u8), Tr::s(&e)]));
                            match (&act.reject, &cfg.answer) {
                                (None, Answer::Err(want)) if *want == e && i == cfg.pend => {}
                                _ => fail(&mut why, "an error that is not the inner service's answer at that poll".into()),
                            }
                        }
                        Ok(Poll::Ready(Ok(resp))) => {
                            let (p, mut body) = resp.into_parts();
                            let bt = use_body(&mut body, &cfg.bops);
                            let (code, ver) = (p.status.as_u16(), version_n(p.version));
                            match &act.reject {
                                None => {
                                    trace.push(Tr::L(vec![Tr::n(1u8), Tr::n(code), hm_tr(&p.headers), Tr::L(bt.clone())]));
                                    match &cfg.answer {
                                        Answer::Ok(c, h, b) if i == cfg.pend => {
                                            if *c != code || h != &p.headers {
                                                fail(&mut why, "the inner response's head was not passed on unchanged".into());
                                            }
                                            // the body is the inner body for every use: the same uses on the same script, directly
                                            let direct = use_body(&mut HintBody::new(b), &cfg.bops);
                                            if direct != bt {
                                                fail(&mut why, "the response body does not behave like the inner body (frames / is_end_stream / size_hint)".into());
                                            }
                                        }
                                        _ => fail(&mut why, "a response that is not the inner service's answer at that poll".into()),
                                    }
                                }
                                Some(spec) => {
                                    trace.push(Tr::L(vec![
                                        Tr::n(2u8),
                                        Tr::n(code),
                                        Tr::n(ver),
                                        hm_tr(&p.headers),
                                        Tr::opt(Status::from_header_map(&p.headers).as_ref().map(status_tr)),
                                        Tr::L(bt.clone()),
                                    ]));
                                    if i != 0 {
                                        fail(&mut why, "a rejected call's future was ready twice".into());
                                    }
                                    let (_, pairs) = build_status(spec);
                                    let (md, indep) = match spec_pairs_independent(spec) {
                                        Some(g) => (g, true),
                                        None => (group_pairs(&pairs), false),
                                    };
                                    if let Some(s) = judge_reject_head(spec, &md, indep, code, &p.headers) {
                                        fail(&mut why, s);
                                    }
                                    // trailers-only: no frame ever, ended, exactly 0 bytes - at every use
                                    let inert: Vec<Tr> = cfg.bops.iter().map(|o| match o {
                                        0 => Tr::L(vec![Tr::n(1u8)]),
                                        1 => Tr::L(vec![Tr::n(5u8), Tr::bool(true)]),
                                        _ => Tr::L(vec![Tr::n(6u8), Tr::L(vec![Tr::n(0u8), Tr::opt(Some(Tr::n(0u8)))])]),
                                    }).collect();
                                    if bt != inert {
                                        fail(&mut why, "the body of a rejected call is not empty / ended / of size 0 at every use".into());
                                    }
                                }
                            }
                        }
                    }
                }
                results.push(Tr::L(vec![Tr::n(1u8), Tr::L(trace)]));
                // ---- direct oracle on what the inner service saw
                let polled = fut_polls.load(Ordering::SeqCst) - polls_before;
                match &act.reject {
                    Some(_) => {
                        if !seen_now.is_empty() || log.lock().unwrap().len() != log_before {
                            fail(&mut why, "inner service invoked although the interceptor rejected".into());
                        }
                        if polled != 0 {
                            fail(&mut why, "an inner future was polled for a rejected call".into());
                        }
                    }
                    None => {
                        if polled != n_polls.min(cfg.pend + 1) {
                            fail(&mut why, format!("the inner future was polled {} times for {} polls of the response future", polled, n_polls));
                        }
                        let calls: Vec<&Seen> = seen_now.iter().filter_map(|e| if let Entry::Call(s) = e { Some(s) } else { None }).collect();
                        if calls.len() != 1 || seen_now.len() != 1 || log.lock().unwrap().len() != log_before + 1 {
                            fail(&mut why, format!("inner service used {} times by one accepted call", seen_now.len()));
                        } else if let Some((om, oe)) = tap_now.first().and_then(|t| t.out.as_ref()) {
                            let s = calls[0];
                            if s.method != method_s {
                                fail(&mut why, "method changed".into());
                            } else if s.uri != uri_s {
                                fail(&mut why, "uri changed".into());
                            } else if s.version != version_n(rq.version) {
                                fail(&mut why, "version changed".into());
                            } else if s.body != rq.body {
                                fail(&mut why, "body changed".into());
                            } else if &s.ext != oe {
                                fail(&mut why, "extensions are not the interceptor's".into());
                            } else if &s.headers != om {
                                fail(&mut why, "headers are not the interceptor's metadata".into());
                            } else if !act.fresh {
                                // every header the interceptor's mutations did not name is the original one
                                let named: Vec<String> = act.ops.iter().map(|o| o.key.to_ascii_lowercase()).collect();
                                for k in rq.headers.keys() {
                                    if named.iter().any(|n| n == k.as_str()) {
                                        continue;
                                    }
                                    let a: Vec<_> = rq.headers.get_all(k).iter().collect();
                                    let c: Vec<_> = s.headers.get_all(k).iter().collect();
                                    if a != c {
                                        fail(&mut why, format!("untouched header {} changed (reserved: {})", k, is_reserved(k.as_str())));
                                    }
                                }
                                if act.ext.is_none() && s.ext != rq.ext {
                                    fail(&mut why, "untouched extensions changed".into());
                                }
                            }
                        } else {
                            fail(&mut why, "the interceptor's output was not recorded".into());
                        }
                    }
                }
            }
        }
    }
    let lg: Vec<Entry> = log.lock().unwrap().clone();
    let obs = Tr::L(vec![
        Tr::L(results),
        Tr::L(lg.iter().map(|e| match e {
            Entry::Ready => Tr::L(vec![Tr::n(0u8)]),
            Entry::Call(s) => Tr::L(vec![Tr::n(1u8), seen_tr(s)]),
        }).collect()),
    ]);

    // ---- model expression
    let mut ui = 0;
    let ops_coq: Vec<String> = ops.iter().map(|o| match o {
        SOp::Ready => "None".to_string(),
        SOp::Call(rq) => {
            let s = format!("(Some {})", coq_req(rq, &uris[ui]));
            ui += 1;
            s
        }
    }).collect();
    let model = format!(
        "obs_seq {} (mkCfg {} {} {} {} {} {}) [{}]",
        coq_list(&acts, coq_action),
        coq_list(&cfg.ready, |e| match e {
            ReadyEv::Pending => "(0, [])".to_string(),
            ReadyEv::Ok => "(1, [])".to_string(),
            ReadyEv::Err(e) => format!("(2, {})", coq_bytes(e.as_bytes())),
        }),
        cfg.pend,
        coq_answer(&cfg.answer),
        cfg.polls_acc,
        cfg.polls_rej,
        coq_list(&cfg.bops, |b| b.to_string()),
        ops_coq.join("; "),
    );

    // ---- input distribution
    let mut nontrivial = false;
    let mut k = 0;
    for op in &ops {
        match op {
            SOp::Ready => out.hist("op", "poll_ready"),
            SOp::Call(rq) => {
                let act = if acts.is_empty() { None } else { Some(&acts[k % acts.len()]) };
                k += 1;
                out.hist("op", "call");
                let label = match act {
                    None => "identity",
                    Some(a) if a.reject.is_some() => "reject",
                    Some(a) if a.fresh => "replace-all",
                    Some(a) if a.ops.is_empty() && a.ext.is_none() => "identity",
                    _ => "mutate",
                };
                out.hist("action", label);
                if let Some(a) = act {
                    for o in &a.ops {
                        out.hist("action.op", ["insert", "append", "insert_bin", "append_bin", "remove", "remove_bin"][o.t as usize]);
                    }
                    if let Some(rj) = &a.reject {
                        out.hist("reject.code", rj.code);
                        out.hist("reject.details_len_mod3", rj.details.len() % 3);
                        out.hist("reject.md", match &rj.md { MdSpec::Ops(_) => "typed API", MdSpec::Raw(_) => "raw entries (independent expectation)" });
                        out.hist("reject.md_has_details_bin_and_no_details", build_status(rj).1.iter().any(|(k, _)| k == "grpc-status-details-bin") && rj.details.is_empty());
                    }
                    nontrivial |= a.reject.is_some() || !a.ops.is_empty();
                }
                nontrivial |= !rq.headers.is_empty();
                out.hist("request.version", version_n(rq.version));
                out.hist("request.method", &rq.method);
                out.hist("request.has_reserved_header", rq.headers.keys().any(|k| is_reserved(k.as_str())));
                out.hist("request.has_repeated_header", rq.headers.keys().any(|k| rq.headers.get_all(k).iter().count() > 1));
                out.hist("request.has_binary_header", rq.headers.keys().any(|k| k.as_str().ends_with("-bin")));
            }
        }
    }
    out.hist("via", if via_layer { "InterceptorLayer" } else { "InterceptedService::new" });
    out.hist("inner_future.pendings", cfg.pend);
    out.hist("polls.accepted_call", if cfg.polls_acc > cfg.pend { "to completion" } else { "stopped while Pending" });
    out.hist("polls.rejected_call", cfg.polls_rej);
    out.hist("poll_ready.script", cfg.ready.iter().map(|e| match e { ReadyEv::Pending => "P", ReadyEv::Ok => "O", ReadyEv::Err(_) => "E" }).collect::<String>());
    if let Answer::Ok(_, _, b) = &cfg.answer {
        out.hist("inner_body.steps", b.steps.len());
        out.hist("inner_body.end_stream_values", format!("{:?}", { let mut v: Vec<bool> = b.steps.iter().map(|s| s.end).chain([b.fin.0]).collect(); v.sort(); v.dedup(); v }));
        out.hist("inner_body.has_exact_hint", b.steps.iter().map(|s| s.hint).chain([b.fin.1]).any(|h| h.1 == Some(h.0)));
    } else {
        out.hist("inner_body.steps", "inner Err");
    }
    out.hist("body_uses", cfg.bops.len());
    out.push(Case {
        kind: kind.to_string(),
        input: json!({
            "acts": acts.iter().map(action_json).collect::<Vec<_>>(),
            "ops": ops.iter().map(|o| match o { SOp::Ready => json!("poll_ready"), SOp::Call(rq) => json!({
                "method": rq.method, "uri": rq.uri, "version": version_n(rq.version), "headers": hm_json(&rq.headers),
                "ext": [rq.ext.0, rq.ext.1], "body": hex(&rq.body)}) }).collect::<Vec<_>>(),
            "cfg": {"ready": cfg.ready.iter().map(|e| format!("{:?}", e)).collect::<Vec<_>>(), "pend": cfg.pend,
                    "answer": match &cfg.answer { Answer::Err(e) => json!({"err": e}), Answer::Ok(c, h, b) => json!({"status": c, "headers": hm_json(h), "body": body_json(b)}) },
                    "polls_acc": cfg.polls_acc, "polls_rej": cfg.polls_rej, "bops": cfg.bops},
            "via_layer": via_layer,
        }),
        model,
        impl_obs: obs,
        oracle: why,
        nontrivial,
    });
}

/// header-map capacity: a rejecting status with `n` distinct metadata names
fn cap_name(i: usize) -> String {
    let l = |x: usize| (b'a' + (x % 26) as u8) as char;
    format!("k{}{}{}{}", l(i / 17576), l(i / 676), l(i / 26), l(i))
}
fn run_cap(out: &mut Out, n: usize, code: u32, msg: &str, details: &[u8], polls: usize) {
    let log = Arc::new(Mutex::new(vec![]));
    let inner = Recorder { log: log.clone(), ready: VecDeque::new(), pend: 0, answer: Answer::Err(String::new()), fut_polls: Arc::new(AtomicUsize::new(0)) };
    let mut md = MetadataMap::with_capacity(n);
    for i in 0..n {
        md.insert(MetadataKey::<Ascii>::from_bytes(cap_name(i).as_bytes()).unwrap(), MetadataValue::from_static("v"));
    }
    let st = Status::with_details_and_metadata(Code::from_i32(code as i32), msg.to_string(), Bytes::copy_from_slice(details), md);
    let mut slot = Some(st);
    let mut svc = InterceptedService::new(inner, move |_r: tonic::Request<()>| -> Result<tonic::Request<()>, Status> { Err(slot.take().expect("one call")) });
    let w = noop_waker();
    let mut cx = Context::from_waker(&w);
    let mut fut = Box::pin(svc.call(http::Request::new(vec![])));
    let names = 1 + n + 1 + (!msg.is_empty()) as usize + (!details.is_empty()) as usize;
    let fits = names <= 24576;
    let mut why = None;
    let mut trace = vec![];
    for i in 0..polls {
        match catch(std::panic::AssertUnwindSafe(|| fut.as_mut().poll(&mut cx))) {
            Err(p) => {
                trace.push(Tr::L(vec![Tr::n(99u8)]));
                // over the capacity of http::HeaderMap the panic is the documented outcome (checks/C12.json)
                if (i == 0 && fits) || (i == 0 && !p.contains("MAX_SIZE")) || false {
                    why = Some(format!("poll {} panicked: {}", i, p));
                }
            }
            Ok(Poll::Ready(Ok(resp))) => {
                let h = resp.headers();
                trace.push(Tr::L(vec![Tr::n(2u8), Tr::n(resp.status().as_u16()), Tr::n(version_n(resp.version())), Tr::n(h.keys_len() as u64), Tr::n(h.len() as u64)]));
                if !fits || h.keys_len() != names || i != 0 {
                    why = Some(format!("{} header names in the response, {} expected", h.keys_len(), names));
                }
                // every metadata name arrived
                if (0..n).any(|j| h.get(cap_name(j).as_str()).map(|v| v.as_bytes()) != Some(b"v")) {
                    why = Some("a metadata entry of the status is missing".into());
                }
            }
            Ok(_) => {
                trace.push(Tr::L(vec![Tr::n(98u8)]));
                why = Some("a rejected call did not produce a response".into());
            }
        }
    }
    if !log.lock().unwrap().is_empty() {
        why = Some("inner service invoked although the interceptor rejected".into());
    }
    out.hist("cap.names_in_response", if fits { "<= 24576 (fits)" } else { "> 24576 (panic)" });
    out.push(Case {
        kind: "corpus.cap".to_string(),
        input: json!({"metadata_names": n, "code": code, "msg": msg, "details": hex(details), "polls": polls}),
        model: format!("obs_cap {} {} {} {} {}", n, code, coq_bytes(msg.as_bytes()), coq_bytes(details), polls),
        impl_obs: Tr::L(trace),
        oracle: why,
        nontrivial: true,
    });
}

const METHODS: &[&str] = &["POST", "GET", "PUT", "DELETE", "HEAD", "OPTIONS", "CONNECT", "PATCH", "TRACE", "FOO", "M-SEARCH"];
const URIS: &[&str] = &[
    "/pkg.Svc/Method", "/", "/a/b?q=1&r=%20", "http://example.com:50051/pkg.Svc/Method", "https://[::1]:443/x?y",
    "http://user@host/p", "*", "example.com:443", "/grpc.health.v1.Health/Check", "/%E2%82%AC",
];
const VERSIONS: &[http::Version] = &[http::Version::HTTP_09, http::Version::HTTP_10, http::Version::HTTP_11, http::Version::HTTP_2, http::Version::HTTP_3];

fn gen_ext(r: &mut Rng) -> Ext {
    (
        if r.chance(1, 2) { Some(r.below(1000) as u32) } else { None },
        if r.chance(1, 3) { Some((*r.pick(&["t", "tag-1", "é"])).to_string()) } else { None },
    )
}
fn gen_req(r: &mut Rng) -> Req {
    let blen = match r.below(4) {
        0 => 0,
        1 | 2 => r.range(1, 12),
        _ => r.range(64, 300),
    } as usize;
    let body = if blen >= 64 { vec![r.below(256) as u8; blen] } else { r.bytes(blen) };
    Req {
        method: (*r.pick(METHODS)).to_string(),
        uri: (*r.pick(URIS)).to_string(),
        version: *r.pick(VERSIONS),
        headers: gen_headers(r),
        ext: gen_ext(r),
        body,
    }
}
fn gen_hint(r: &mut Rng) -> Hint {
    let lo = *r.pick(&[0u64, 0, 1, 5, 300, u32::MAX as u64 + 1]);
    let up = match r.below(4) {
        0 => None,
        1 => Some(lo),
        _ => Some(lo + r.range(0, 9)),
    };
    (lo, up)
}
fn gen_body_script(r: &mut Rng) -> BodyScript {
    let n = r.below(4) as usize;
    let steps = (0..n)
        .map(|_| {
            let ev = match r.below(8) {
                0 => BEv::Pending,
                1 => BEv::Err((*r.pick(&["reset", "", "boom é"])).to_string()),
                2 | 3 => {
                    let mut t = HeaderMap::new();
                    t.insert("grpc-status", HeaderValue::from_static("0"));
                    if r.chance(1, 2) {
                        t.append("x-trailer", HeaderValue::from_static("t"));
                        t.append("x-trailer", HeaderValue::from_static("u"));
                    }
                    BEv::Trailers(t)
                }
                _ => {
                    let len = r.range(0, 6) as usize;
                    BEv::Data(r.bytes(len))
                }
            };
            Step { end: r.chance(1, 2), hint: gen_hint(r), ev }
        })
        .collect();
    BodyScript { steps, fin: (r.chance(1, 2), gen_hint(r)) }
}
fn gen_answer(r: &mut Rng) -> Answer {
    let code = *r.pick(&[200u16, 200, 200, 404, 500, 204, 0]);
    if code == 0 {
        return Answer::Err((*r.pick(&["inner failed", "", "é"])).to_string());
    }
    let mut h = HeaderMap::new();
    for _ in 0..r.below(3) {
        let k = *r.pick(&["content-type", "grpc-status", "x-inner", "grpc-encoding"]);
        h.append(k, HeaderValue::from_static("v"));
    }
    Answer::Ok(code, h, gen_body_script(r))
}
fn gen_bops(r: &mut Rng) -> Vec<u8> {
    // every kind of use before, between and after the frames, past the end included
    let n = r.range(2, 10);
    (0..n).map(|_| *r.pick(&[0u8, 0, 0, 1, 2])).collect()
}
fn gen_cfg(r: &mut Rng, multi: bool) -> Cfg {
    let ready = if multi || r.chance(1, 4) {
        (0..r.below(4)).map(|_| match r.below(3) { 0 => ReadyEv::Pending, 1 => ReadyEv::Ok, _ => ReadyEv::Err((*r.pick(&["not ready", "closed", ""])).to_string()) }).collect()
    } else {
        vec![]
    };
    let pend = *r.pick(&[0usize, 0, 1, 2, 3]);
    Cfg {
        ready,
        pend,
        answer: gen_answer(r),
        polls_acc: if r.chance(1, 8) { r.range(0, pend as u64) as usize } else { pend + 1 },
        polls_rej: *r.pick(&[1usize, 1, 2, 3]),
        bops: gen_bops(r),
    }
}
fn gen_raw_md(r: &mut Rng) -> Vec<(String, Vec<u8>)> {
    let n = r.range(0, 5);
    (0..n)
        .map(|_| {
            if r.chance(1, 3) {
                let k = r.pick(BIN_KEYS).to_ascii_lowercase();
                let len = r.range(0, 7) as usize;
                let b = r.bytes(len);
                (k, b64(&b, r.chance(1, 2)))
            } else {
                let k = r.pick(ASCII_KEYS).to_ascii_lowercase();
                let v: Vec<u8> = gen_ascii_value(r).into_iter().filter(|b| *b != 0x7f).collect();
                (k, v)
            }
        })
        .collect()
}
fn gen_status(r: &mut Rng) -> StatusSpec {
    let md = if r.chance(1, 2) {
        MdSpec::Raw(gen_raw_md(r))
    } else {
        MdSpec::Ops(gen_ops(r, 4, &HeaderMap::new()).into_iter().filter(|o| o.t < 4).collect())
    };
    StatusSpec { code: r.below(17) as u32, msg: gen_message(r), details: gen_details(r), md }
}
fn gen_action(r: &mut Rng, headers: &HeaderMap) -> Action {
    match r.below(10) {
        0 => Action { fresh: false, ops: vec![], ext: None, reject: None },
        1..=4 => Action { fresh: false, ops: gen_ops(r, 4, headers), ext: if r.chance(1, 3) { Some(gen_ext(r)) } else { None }, reject: None },
        5 => Action { fresh: true, ops: gen_ops(r, 3, headers), ext: Some(gen_ext(r)), reject: None },
        _ => Action { fresh: r.chance(1, 4), ops: gen_ops(r, 2, headers), ext: None, reject: Some(gen_status(r)) },
    }
}

fn op(t: u8, k: &str, v: &[u8]) -> Op {
    Op { t, key: k.to_string(), val: v.to_vec() }
}
fn accept_none() -> Action {
    Action { fresh: false, ops: vec![], ext: None, reject: None }
}
fn reject_with(code: u32, msg: &str, details: &[u8], md: MdSpec) -> Action {
    Action { fresh: false, ops: vec![], ext: None, reject: Some(StatusSpec { code, msg: msg.into(), details: details.to_vec(), md }) }
}

fn main() {
    let a = args();
    let mut out = Out::new(&a.out);
    let mut r = Rng::new(a.seed);

    // ---- corpus: reserved headers must survive an accepting interceptor; every action kind once
    let mk_req = |version| {
        let mut h = HeaderMap::new();
        h.insert("te", HeaderValue::from_static("trailers"));
        h.insert("content-type", HeaderValue::from_static("application/grpc"));
        h.insert("user-agent", HeaderValue::from_static("test-tonic"));
        h.insert("grpc-status", HeaderValue::from_static("7"));
        h.insert("grpc-message", HeaderValue::from_static("m"));
        h.insert("grpc-message-type", HeaderValue::from_static("t"));
        h.append("x-a", HeaderValue::from_static("1"));
        h.append("x-a", HeaderValue::from_static("2"));
        h.append("x-p-bin", HeaderValue::from_static("AP8H"));
        h.append("x-p-bin", HeaderValue::from_static("QQ=="));
        for (k, v) in STD_HEADERS {
            h.append(*k, HeaderValue::from_static(v));
        }
        Req { method: "POST".into(), uri: "/pkg.Svc/Method".into(), version, headers: h, ext: (Some(7), None), body: b"\x00\x00\x00\x00\x01x".to_vec() }
    };
    // the inner answer of the corpus: a body whose is_end_stream / size_hint change from step to step and
    // are NOT http-body's defaults, data, a Pending, trailers
    let ok_answer = || {
        let mut h = HeaderMap::new();
        h.insert("content-type", HeaderValue::from_static("application/grpc"));
        let mut t = HeaderMap::new();
        t.insert("grpc-status", HeaderValue::from_static("0"));
        Answer::Ok(
            200,
            h,
            BodyScript {
                steps: vec![
                    Step { end: false, hint: (5, Some(5)), ev: BEv::Data(b"\x00\x00\x00\x00\x00".to_vec()) },
                    Step { end: false, hint: (0, Some(7)), ev: BEv::Pending },
                    Step { end: true, hint: (0, None), ev: BEv::Trailers(t) },
                ],
                fin: (true, (0, Some(0))),
            },
        )
    };
    let full_bops = vec![1u8, 2, 0, 1, 2, 0, 1, 2, 0, 1, 2, 0, 1, 2, 0];
    let cfg0 = |pend: usize| Cfg { ready: vec![], pend, answer: ok_answer(), polls_acc: pend + 1, polls_rej: 2, bops: full_bops.clone() };
    let acts = vec![
        accept_none(),
        Action { fresh: false, ops: vec![op(0, "x-new", b"n"), op(1, "x-a", b"3"), op(3, "x-p-bin", b"\x01")], ext: None, reject: None },
        Action { fresh: false, ops: vec![op(4, "x-a", b""), op(5, "x-p-bin", b""), op(4, "te", b"")], ext: Some((None, Some("t".into()))), reject: None },
        Action { fresh: false, ops: vec![op(0, "x-a", b"only"), op(0, "content-type", b"text/plain"), op(0, "TE", b"x")], ext: Some((Some(8), None)), reject: None },
        Action { fresh: true, ops: vec![op(1, "authorization", b"Bearer x")], ext: Some((None, None)), reject: None },
        reject_with(16, "no", &[], MdSpec::Ops(vec![])),
        reject_with(7, "denied: 100% \"é\"\n", &[0, 255, 7, 9], MdSpec::Ops(vec![op(1, "x-why", b"acl"), op(1, "te", b"forged"), op(1, "content-type", b"text/html"), op(1, "grpc-status", b"0"), op(3, "x-d-bin", b"\x00\x01"), op(1, "x-why", b"2")])),
        reject_with(0, "", &[1], MdSpec::Ops(vec![op(3, "grpc-status-details-bin", b"user")])),
        // the witness of F-C04e / F-C12a (fixed by ed827503): empty details and a user entry under
        // grpc-status-details-bin - judged in full: no such header on the wire, NO details recovered
        reject_with(7, "no", &[], MdSpec::Ops(vec![op(2, "grpc-status-details-bin", b"user")])),
        reject_with(7, "", &[], MdSpec::Raw(vec![("grpc-status-details-bin".into(), b"user".to_vec()), ("grpc-status-details-bin".into(), b"!!".to_vec()), ("x-keep".into(), b"1".to_vec())])),
        reject_with(3, "raw md", &[9, 8, 7, 6, 5], MdSpec::Raw(vec![("x-why".into(), b"acl".to_vec()), ("te".into(), b"forged".to_vec()), ("x-d-bin".into(), b"AAE".to_vec()), ("x-why".into(), b"2".to_vec()), ("grpc-message".into(), b"forged".to_vec()), ("user-agent".into(), b"ua".to_vec()), ("grpc-message-type".into(), b"t".to_vec()), ("x-obs".into(), vec![0xe9, b' ', b'x'])])),
    ];
    for (i, act) in acts.iter().enumerate() {
        for (j, v) in VERSIONS.iter().enumerate() {
            let kind = if act.reject.is_some() { "corpus.reject" } else { "corpus.accept" };
            run_seq(&mut out, kind, vec![act.clone()], cfg0(j % 3), vec![SOp::Ready, SOp::Call(mk_req(*v))], i % 2 == 0);
        }
    }
    for c in 0..17u32 {
        let act = reject_with(c, &format!("code {}", c), &[c as u8], if c % 2 == 0 { MdSpec::Ops(vec![]) } else { MdSpec::Raw(vec![("x-code".into(), c.to_string().into_bytes())]) });
        run_seq(&mut out, "corpus.reject", vec![act], cfg0(0), vec![SOp::Ready, SOp::Call(mk_req(http::Version::HTTP_2))], false);
    }
    for (mi, m) in METHODS.iter().enumerate() {
        for (ui, u) in URIS.iter().enumerate() {
            // quick tier: a diagonal band of the method x URI table; thorough: all of it
            if !a.thorough && (mi + ui) % 3 != 0 {
                continue;
            }
            let mut rq = mk_req(http::Version::HTTP_2);
            rq.method = m.to_string();
            rq.uri = u.to_string();
            run_seq(&mut out, "corpus.accept", vec![acts[1].clone()], cfg0(1), vec![SOp::Ready, SOp::Call(rq)], true);
        }
    }
    // poll_ready: every answer of the inner service is passed on, before / between / after calls; the
    // interceptor's own state (a call counter choosing the action) advances on rejected calls too
    {
        let rq = mk_req(http::Version::HTTP_2);
        let mut rq2 = mk_req(http::Version::HTTP_11);
        rq2.headers.insert("x-second", HeaderValue::from_static("2"));
        let cfg = Cfg { ready: vec![ReadyEv::Pending, ReadyEv::Err("closed".into()), ReadyEv::Ok, ReadyEv::Pending], pend: 2, answer: ok_answer(), polls_acc: 3, polls_rej: 3, bops: full_bops.clone() };
        for via in [false, true] {
            run_seq(&mut out, "corpus.seq", vec![acts[1].clone(), acts[6].clone(), acts[2].clone()], cfg.clone(),
                    vec![SOp::Ready, SOp::Ready, SOp::Call(rq.clone()), SOp::Ready, SOp::Call(rq2.clone()), SOp::Call(rq.clone()), SOp::Ready, SOp::Ready, SOp::Call(rq2.clone()), SOp::Call(rq2.clone())], via);
            run_seq(&mut out, "corpus.seq", vec![], Cfg { answer: Answer::Err("inner failed".into()), ..cfg.clone() }, vec![SOp::Call(rq.clone()), SOp::Ready, SOp::Call(rq2.clone())], via);
            // a call that is never polled still reached the inner service; a stopped future stays Pending
            run_seq(&mut out, "corpus.seq", vec![acts[0].clone()], Cfg { polls_acc: 0, ..cfg.clone() }, vec![SOp::Call(rq.clone())], via);
            run_seq(&mut out, "corpus.seq", vec![acts[0].clone()], Cfg { polls_acc: 2, ..cfg.clone() }, vec![SOp::Call(rq.clone())], via);
        }
    }
    // header-map capacity (N-C04-1 through the reject path): the boundary of http::HeaderMap
    for (n, msg, det) in [(24574usize, "", &b""[..]), (24574, "m", b""), (24573, "m", b""), (24573, "m", b"d"), (24575, "", b""), (24572, "m", b"d"), (3, "m", b"d")] {
        run_cap(&mut out, n, 13, msg, det, 2);
    }

    // ---- generated
    let n = if a.thorough { 8000 } else { 800 } * a.scale.max(1);
    for i in 0..n {
        let rq = gen_req(&mut r);
        if i % 5 == 4 {
            // a sequence of uses of one service with a stateful interceptor
            let n_acts = r.range(1, 3);
            let acts: Vec<Action> = (0..n_acts).map(|_| gen_action(&mut r, &rq.headers)).collect();
            let n_ops = r.range(2, 6);
            let ops: Vec<SOp> = (0..n_ops).map(|_| if r.chance(2, 5) { SOp::Ready } else if r.chance(1, 2) { SOp::Call(rq.clone()) } else { SOp::Call(gen_req(&mut r)) }).collect();
            let cfg = gen_cfg(&mut r, true);
            run_seq(&mut out, "seq", acts, cfg, ops, i % 2 == 0);
        } else {
            let act = gen_action(&mut r, &rq.headers);
            let cfg = gen_cfg(&mut r, false);
            let kind = if act.reject.is_some() { "reject" } else { "accept" };
            run_seq(&mut out, kind, vec![act], cfg, vec![SOp::Ready, SOp::Call(rq)], i % 2 == 0);
        }
    }

    out.finish(
        IMPORTS,
        "accept / reject / seq: the real InterceptedService (built directly and through InterceptorLayer) over a recording inner tower service with a scripted poll_ready, a scripted inner future (0-3 Pendings) and a scripted inner response body whose frames (data / trailers / error / Pending), is_end_stream and size_hint are arbitrary per step; every case is a sequence of poll_ready / call on ONE service with an FnMut interceptor (call counter choosing the action): accept / reject = [poll_ready, call], seq = 2-6 uses, 1-3 actions; the response future is polled a scripted number of times (rejected calls also past completion), the response body is used through a scripted interleaving of poll_frame / is_end_stream / size_hint incl. past its end. Requests over 11 methods x 10 URI shapes x 5 HTTP versions with header maps holding reserved, repeated and (padded / unpadded) binary entries, two extension types and a body; interceptor actions identity / insert / append / remove (+_bin, also aimed at reserved names and at entries of the wrong kind) / replace everything / change extensions / reject with a random status (17 codes x hostile messages x details of every length mod 3 x metadata incl. reserved names, built through the typed API or given as raw header entries); inner answers incl. non-200 and Err. corpus.cap: rejecting statuses with 3 .. 24575 metadata names around http::HeaderMap's capacity. Non-trivial = a request has headers, or an action mutates or rejects. Distinct = distinct (kind, model expression).",
        json!({
            "oracle_switches": [
                "corpus.cap over 24576 header names: the panic of http::HeaderMap is the modelled, documented outcome; judged: inner service not invoked, the panic is the capacity one"
            ],
            "independent_of_tonic_in_the_reject_oracle": "grpc-status (decimal), grpc-message (own percent decoder), grpc-status-details-bin (own base64 decoder; absent for a status without details whatever its metadata holds under that name - F-C04e, strict), header-name set; for raw-entry statuses also the expected metadata"
        }),
    );
}
