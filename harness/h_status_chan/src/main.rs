//! C04, client-only build: tonic compiled with only the `channel` feature (no `server`).
//! Same model expressions as h_status (`from_error_code`, `reset_stream_code`).
use serde_json::json;
use tonic::{Code, Status};
use vcommon::*;

const IMPORTS: &str = "From Verif Require Import Lib.Bytes Lib.Obs Lib.HeaderMap Model.Status.";

#[derive(Debug)]
struct Wrap(Option<Box<dyn std::error::Error + Send + Sync>>);
impl std::fmt::Display for Wrap {
    fn fmt(&self, f: &mut std::fmt::Formatter<'_>) -> std::fmt::Result {
        write!(f, "wrapper")
    }
}
impl std::error::Error for Wrap {
    fn source(&self) -> Option<&(dyn std::error::Error + 'static)> {
        self.0.as_ref().map(|e| &**e as &(dyn std::error::Error + 'static))
    }
}
/// node encoding: (kind, arg): 0 Status(code) | 1 TimeoutExpired | 2 ConnectError | 3 h2 error with reason | 5 other wrapper
fn build_chain(nodes: &[(u8, u32)]) -> Option<Box<dyn std::error::Error + Send + Sync>> {
    let (first, rest) = nodes.split_first()?;
    let inner = build_chain(rest);
    Some(match first.0 {
        0 => Box::new(Status::new(Code::from_i32(first.1 as i32), "chain")),
        1 => Box::new(tonic::TimeoutExpired(())),
        2 => Box::new(tonic::ConnectError(inner.unwrap_or_else(|| Box::new(Wrap(None))))),
        3 => Box::new(h2::Error::from(h2::Reason::from(first.1))),
        _ => Box::new(Wrap(inner)),
    })
}
fn chain_coq(nodes: &[(u8, u32)]) -> String {
    coq_list(nodes, |n| match n.0 {
        0 => format!("EStatus {}", n.1),
        1 => "ETimeout".into(),
        2 => "EConnect".into(),
        3 => format!("EH2 (Some {})", n.1),
        _ => "EOther".into(),
    })
}
fn case_from_error(out: &mut Out, nodes: Vec<(u8, u32)>) {
    // Status, TimeoutExpired and h2::Error have no source: the chain ends at the first of them
    let end = nodes.iter().position(|n| matches!(n.0, 0 | 1 | 3)).map(|i| i + 1).unwrap_or(nodes.len());
    let nodes: Vec<(u8, u32)> = nodes[..end].to_vec();
    let model = format!("Nn (from_error_code {})", chain_coq(&nodes));
    let res = catch(std::panic::AssertUnwindSafe(|| {
        build_chain(&nodes).map(|e| Status::from_error(e).code() as i32 as u32)
    }));
    let (obs, mut oracle) = match res {
        Err(p) => (Tr::n(99u8), Some(format!("panic: {}", p))),
        Ok(None) => return,
        Ok(Some(c)) => (Tr::n(c), None),
    };
    // direct oracle for the simplest chains: a bare h2 error is classified by the gRPC table
    if let [(3, r)] = nodes[..] {
        let want = match r {
            0 | 1 | 2 | 3 | 4 | 6 | 9 | 10 => Some(13),
            7 => Some(14),
            8 => Some(1),
            11 => Some(8),
            12 => Some(7),
            5 | 13 => None, // not mapped by the gRPC table: INTERNAL or UNKNOWN
            _ => Some(2),
        };
        if let (Some(w), Tr::N(c)) = (want, &obs) {
            if *c != w as u128 {
                oracle = Some(format!("from_error(h2 reason {}) = code {}, table says {}", r, c, w));
            }
        }
    }
    if let [(2, _), ..] = nodes[..] {
        if obs != Tr::n(14u8) {
            oracle = Some("a ConnectError was not classified UNAVAILABLE".into());
        }
    }
    out.push(Case {
        kind: "chan.from_error".into(),
        input: json!({"chain": nodes}),
        model,
        impl_obs: obs,
        oracle,
        nontrivial: nodes.len() >= 2,
    });
}

#[derive(Default, Clone)]
struct RawDecoder;
impl tonic::codec::Decoder for RawDecoder {
    type Item = Vec<u8>;
    type Error = Status;
    fn decode(&mut self, src: &mut tonic::codec::DecodeBuf<'_>) -> Result<Option<Vec<u8>>, Status> {
        use bytes::Buf;
        let mut v = vec![0u8; src.remaining()];
        src.copy_to_slice(&mut v);
        Ok(Some(v))
    }
}
struct PipeConnector(std::sync::Arc<std::sync::Mutex<Option<tokio::io::DuplexStream>>>);
impl tower_service::Service<http::Uri> for PipeConnector {
    type Response = hyper_util::rt::TokioIo<tokio::io::DuplexStream>;
    type Error = std::io::Error;
    type Future = std::future::Ready<Result<Self::Response, Self::Error>>;
    fn poll_ready(&mut self, _: &mut std::task::Context<'_>) -> std::task::Poll<Result<(), Self::Error>> {
        std::task::Poll::Ready(Ok(()))
    }
    fn call(&mut self, _: http::Uri) -> Self::Future {
        std::future::ready(match self.0.lock().unwrap().take() {
            Some(io) => Ok(hyper_util::rt::TokioIo::new(io)),
            None => Err(std::io::Error::new(std::io::ErrorKind::Other, "no more pipes")),
        })
    }
}
#[derive(Default, Clone)]
struct RawEncoder;
impl tonic::codec::Encoder for RawEncoder {
    type Item = Vec<u8>;
    type Error = Status;
    fn encode(&mut self, item: Vec<u8>, dst: &mut tonic::codec::EncodeBuf<'_>) -> Result<(), Status> {
        use bytes::BufMut;
        dst.put_slice(&item);
        Ok(())
    }
}
#[derive(Default, Clone)]
struct RawCodec;
impl tonic::codec::Codec for RawCodec {
    type Encode = Vec<u8>;
    type Decode = Vec<u8>;
    type Encoder = RawEncoder;
    type Decoder = RawDecoder;
    fn encoder(&mut self) -> RawEncoder {
        RawEncoder
    }
    fn decoder(&mut self) -> RawDecoder {
        RawDecoder
    }
}
/// the peer answers the call's stream with RST_STREAM(reason), before (`late` = false) or after
/// the response headers; the client is the full tonic Channel stack
fn case_reset(out: &mut Out, reason: u32, late: bool) {
    let rt = tokio::runtime::Builder::new_current_thread().enable_all().build().unwrap();
    let res: Result<Result<u32, String>, String> = catch(std::panic::AssertUnwindSafe(|| {
        rt.block_on(async move {
            let (c, s) = tokio::io::duplex(1 << 16);
            tokio::spawn(async move {
                let mut conn = match h2::server::handshake(s).await {
                    Ok(c) => c,
                    Err(_) => return,
                };
                while let Some(Ok((_req, mut respond))) = conn.accept().await {
                    if late {
                        let resp = http::Response::builder()
                            .status(200)
                            .header("content-type", "application/grpc")
                            .body(())
                            .unwrap();
                        if let Ok(mut send) = respond.send_response(resp, false) {
                            send.send_reset(h2::Reason::from(reason));
                        }
                    } else {
                        respond.send_reset(h2::Reason::from(reason));
                    }
                }
            });
            let ep = tonic::transport::Endpoint::from_static("http://pipe.test");
            let ch = ep.connect_with_connector_lazy(PipeConnector(std::sync::Arc::new(std::sync::Mutex::new(Some(c)))));
            let mut g = tonic::client::Grpc::new(ch);
            let fut = async {
                g.ready().await.map_err(|e| format!("not ready: {}", e))?;
                let r = g
                    .unary::<Vec<u8>, Vec<u8>, _>(
                        tonic::Request::new(vec![1, 2, 3]),
                        http::uri::PathAndQuery::from_static("/p.S/M"),
                        RawCodec,
                    )
                    .await;
                match r {
                    Ok(_) => Err("call succeeded although the stream was reset".to_string()),
                    Err(st) => Ok(st.code() as i32 as u32),
                }
            };
            match tokio::time::timeout(std::time::Duration::from_secs(20), fut).await {
                Ok(r) => r,
                Err(_) => Err("hang".to_string()),
            }
        })
    }));
    let (obs, oracle) = match res {
        Err(p) => (Tr::n(99u8), Some(format!("panic: {}", p))),
        Ok(Err(e)) => (Tr::n(98u8), Some(e)),
        Ok(Ok(c)) => {
            let want = match reason {
                0 | 1 | 2 | 3 | 4 | 6 | 9 | 10 => Some(13),
                7 => Some(14),
                8 => Some(1),
                11 => Some(8),
                12 => Some(7),
                5 | 13 => None, // not mapped by the gRPC table: INTERNAL or UNKNOWN
                _ => Some(2),
            };
            let why = match want {
                Some(w) if w != c => Some(format!("stream reset with HTTP/2 error {} seen as code {}, table says {}", reason, c, w)),
                None if c != 13 && c != 2 => Some(format!("stream reset with HTTP/2 error {} seen as code {}", reason, c)),
                _ => None,
            };
            (Tr::n(c), why)
        }
    };
    out.push(Case {
        kind: if late { "chan.reset.after_headers".into() } else { "chan.reset.before_headers".into() },
        input: json!({"reason": reason, "late": late}),
        model: format!("Nn (reset_stream_code {})", reason),
        impl_obs: obs,
        oracle,
        nontrivial: true,
    });
}


fn main() {
    let a = args();
    let mut out = Out::new(&a.out);
    let mut r = Rng::new(a.seed);
    for reason in (0..=16u32).chain([255, 65536]) {
        case_reset(&mut out, reason, false);
        case_reset(&mut out, reason, true);
    }
    let node_pool: Vec<(u8, u32)> = (0..17u32).map(|c| (0u8, c)).chain([(1, 0), (2, 0), (5, 0)]).chain((0..=14u32).map(|x| (3u8, x))).chain([(3u8, 255u32)]).collect();
    for a1 in &node_pool {
        case_from_error(&mut out, vec![*a1]);
        for a2 in [(5u8, 0u32), (0, 5), (1, 0), (2, 0), (3, 8)] {
            case_from_error(&mut out, vec![a2, *a1]);
        }
    }
    for _ in 0..(if a.thorough { 2000 } else { 200 }) {
        let n = r.range(2, 5) as usize;
        let ch: Vec<(u8, u32)> = (0..n).map(|_| *r.pick(&node_pool)).collect();
        case_from_error(&mut out, ch);
    }
    out.finish(
        IMPORTS,
        "client-only build of tonic (feature `channel` without `server`): a real RST_STREAM(r) from an h2 peer before/after the response headers through the full Channel stack, and Status::from_error on error chains; non-trivial = chains of length >= 2 and every reset case; distinct = distinct (kind, model expression)",
        json!({"tonic_features": ["channel"]}),
    );
}
