//! An independent reading (and writing) of `google.rpc.Status` and of the ten standard error
//! detail messages.  Written from the protobuf encoding specification
//! (protobuf.dev/programming-guides/encoding) and the field numbers of google/rpc/status.proto,
//! google/rpc/error_details.proto, google/protobuf/any.proto and google/protobuf/duration.proto.
//! Nothing of prost, prost-types or tonic-types is used here, and nothing is read from the
//! tables that rs2v regenerates: a field tag that is swapped in tonic-types' generated code,
//! on the encode and the decode side alike, still disagrees with this file.
//!
//! A verdict is three-valued.  `Ok`: the bytes are a well-formed message by the letter of the
//! specification and mean this value for every conformant parser.  `Malformed`: every conformant
//! parser has to reject them (truncation, an unterminated varint, field number 0, wire types 6/7,
//! a string field that is not UTF-8).  `Unsure`: implementations legitimately differ (groups,
//! a known field sent with another wire type - the specification says "treat as unknown", prost
//! rejects, and reads a map entry regardless -, varints that overflow 64 bits, keys beyond 32 bits, durations whose normalisation
//! overflows); nothing is claimed about those.
use vcommon::Tr;

#[derive(Clone, Debug, PartialEq)]
pub enum V<T> {
    Ok(T),
    Malformed(&'static str),
    Unsure(&'static str),
}

#[derive(Clone, Debug, PartialEq)]
pub enum Wv {
    Var(u64),
    F64,
    Len(Vec<u8>),
    F32,
}

/// One varint: `Ok(None)` = overflows 64 bits (tenth byte above 1)
fn varint(buf: &[u8], pos: &mut usize) -> Result<Option<u64>, &'static str> {
    let mut v: u128 = 0;
    for i in 0..10 {
        let b = *buf.get(*pos).ok_or("truncated varint")?;
        *pos += 1;
        v |= ((b & 0x7f) as u128) << (7 * i);
        if b < 0x80 {
            return Ok(if v > u64::MAX as u128 { None } else { Some(v as u64) });
        }
    }
    Err("varint of more than ten bytes")
}

/// the fields of one message body, in order.  A field number of `schema` that comes with another
/// wire type than its declared one ends the reading as `Unsure` on the spot: from there on parsers
/// differ (the specification skips it as unknown, prost rejects it - or, for a map field, reads an
/// entry whatever the wire type says).
pub fn fields(buf: &[u8], schema: &[(u32, K)]) -> V<Vec<(u32, Wv)>> {
    let mut pos = 0;
    let mut out = vec![];
    let mut unsure: Option<&'static str> = None;
    while pos < buf.len() {
        let key = match varint(buf, &mut pos) {
            Err(e) => return V::Malformed(e),
            Ok(None) => return V::Unsure("key overflows 64 bits"),
            Ok(Some(k)) => k,
        };
        if key > u32::MAX as u64 {
            return V::Unsure("key beyond 32 bits");
        }
        let (num, wt) = ((key >> 3) as u32, key & 7);
        if wt == 6 || wt == 7 {
            return V::Malformed("wire type 6 or 7");
        }
        if num == 0 {
            return V::Malformed("field number 0");
        }
        if let Some((_, k)) = schema.iter().find(|(t, _)| *t == num) {
            let declared = match k {
                K::I32 | K::I64 => 0,
                _ => 2,
            };
            if wt != declared {
                return V::Unsure("known field with an unexpected wire type");
            }
        }
        let v = match wt {
            0 => match varint(buf, &mut pos) {
                Err(e) => return V::Malformed(e),
                Ok(None) => {
                    unsure = unsure.or(Some("varint overflows 64 bits"));
                    continue;
                }
                Ok(Some(v)) => Wv::Var(v),
            },
            1 => {
                if buf.len() - pos < 8 {
                    return V::Malformed("truncated fixed64");
                }
                pos += 8;
                Wv::F64
            }
            5 => {
                if buf.len() - pos < 4 {
                    return V::Malformed("truncated fixed32");
                }
                pos += 4;
                Wv::F32
            }
            2 => {
                let n = match varint(buf, &mut pos) {
                    Err(e) => return V::Malformed(e),
                    Ok(None) => return V::Malformed("length beyond the buffer"),
                    Ok(Some(n)) => n,
                };
                if n > (buf.len() - pos) as u64 {
                    return V::Malformed("length beyond the buffer");
                }
                let b = buf[pos..pos + n as usize].to_vec();
                pos += n as usize;
                Wv::Len(b)
            }
            _ => return V::Unsure("group"),
        };
        out.push((num, v));
    }
    match unsure {
        Some(w) => V::Unsure(w),
        None => V::Ok(out),
    }
}

// ------------------------------------------------------------------ schemas (from the .proto files)
#[derive(Clone, Copy)]
pub enum K {
    I32,
    I64,
    Str,
    Bytes,
    RepStr,
    Msg(&'static [(u32, K)]),
    RepMsg(&'static [(u32, K)]),
    MapStrStr,
}
#[derive(Clone, Debug, PartialEq)]
pub enum Val {
    Int(i64),
    Bs(Vec<u8>),
    RepStr(Vec<Vec<u8>>),
    Msg(Option<Vec<Val>>),
    RepMsg(Vec<Vec<Val>>),
    /// insertion order, a repeated key keeps its place and takes the later value
    Map(Vec<(Vec<u8>, Vec<u8>)>),
}

// google/protobuf/any.proto
pub const ANY: &[(u32, K)] = &[(1, K::Str), (2, K::Bytes)];
// google/protobuf/duration.proto
pub const DURATION: &[(u32, K)] = &[(1, K::I64), (2, K::I32)];
// google/rpc/status.proto
pub const STATUS: &[(u32, K)] = &[(1, K::I32), (2, K::Str), (3, K::RepMsg(ANY))];
// google/rpc/error_details.proto
pub const RETRY_INFO: &[(u32, K)] = &[(1, K::Msg(DURATION))];
pub const DEBUG_INFO: &[(u32, K)] = &[(1, K::RepStr), (2, K::Str)];
pub const QUOTA_VIOLATION: &[(u32, K)] = &[(1, K::Str), (2, K::Str)]; // subject, description
pub const QUOTA_FAILURE: &[(u32, K)] = &[(1, K::RepMsg(QUOTA_VIOLATION))];
pub const ERROR_INFO: &[(u32, K)] = &[(1, K::Str), (2, K::Str), (3, K::MapStrStr)]; // reason, domain, metadata
pub const PRECONDITION_VIOLATION: &[(u32, K)] = &[(1, K::Str), (2, K::Str), (3, K::Str)]; // type, subject, description
pub const PRECONDITION_FAILURE: &[(u32, K)] = &[(1, K::RepMsg(PRECONDITION_VIOLATION))];
pub const FIELD_VIOLATION: &[(u32, K)] = &[(1, K::Str), (2, K::Str)]; // field, description
pub const BAD_REQUEST: &[(u32, K)] = &[(1, K::RepMsg(FIELD_VIOLATION))];
pub const REQUEST_INFO: &[(u32, K)] = &[(1, K::Str), (2, K::Str)]; // request_id, serving_data
pub const RESOURCE_INFO: &[(u32, K)] = &[(1, K::Str), (2, K::Str), (3, K::Str), (4, K::Str)]; // resource_type, resource_name, owner, description
pub const HELP_LINK: &[(u32, K)] = &[(1, K::Str), (2, K::Str)]; // description, url
pub const HELP: &[(u32, K)] = &[(1, K::RepMsg(HELP_LINK))];
pub const LOCALIZED_MESSAGE: &[(u32, K)] = &[(1, K::Str), (2, K::Str)]; // locale, message
const MAP_ENTRY: &[(u32, K)] = &[(1, K::Str), (2, K::Str)];

pub const DETAIL_SCHEMAS: [&[(u32, K)]; 10] = [
    RETRY_INFO, DEBUG_INFO, QUOTA_FAILURE, ERROR_INFO, PRECONDITION_FAILURE, BAD_REQUEST, REQUEST_INFO, RESOURCE_INFO, HELP,
    LOCALIZED_MESSAGE,
];
pub const DETAIL_URLS: [&str; 10] = [
    "type.googleapis.com/google.rpc.RetryInfo",
    "type.googleapis.com/google.rpc.DebugInfo",
    "type.googleapis.com/google.rpc.QuotaFailure",
    "type.googleapis.com/google.rpc.ErrorInfo",
    "type.googleapis.com/google.rpc.PreconditionFailure",
    "type.googleapis.com/google.rpc.BadRequest",
    "type.googleapis.com/google.rpc.RequestInfo",
    "type.googleapis.com/google.rpc.ResourceInfo",
    "type.googleapis.com/google.rpc.Help",
    "type.googleapis.com/google.rpc.LocalizedMessage",
];

fn default(k: K) -> Val {
    match k {
        K::I32 | K::I64 => Val::Int(0),
        K::Str | K::Bytes => Val::Bs(vec![]),
        K::RepStr => Val::RepStr(vec![]),
        K::Msg(_) => Val::Msg(None),
        K::RepMsg(_) => Val::RepMsg(vec![]),
        K::MapStrStr => Val::Map(vec![]),
    }
}

/// proto3 reading of a message body against a schema: singular scalars - the last one wins,
/// singular messages merge, repeated fields append, unknown fields are skipped
pub fn read(schema: &'static [(u32, K)], buf: &[u8]) -> V<Vec<Val>> {
    let init: Vec<Val> = schema.iter().map(|(_, k)| default(*k)).collect();
    merge(schema, init, buf)
}
fn merge(schema: &'static [(u32, K)], mut st: Vec<Val>, buf: &[u8]) -> V<Vec<Val>> {
    let fs = match fields(buf, schema) {
        V::Ok(f) => f,
        V::Malformed(w) => return V::Malformed(w),
        V::Unsure(w) => return V::Unsure(w),
    };
    let mut unsure: Option<&'static str> = None;
    let mut malformed: Option<&'static str> = None;
    for (num, v) in fs {
        let Some(i) = schema.iter().position(|(t, _)| *t == num) else { continue };
        let k = schema[i].1;
        match (k, v) {
            (K::I32, Wv::Var(n)) => st[i] = Val::Int(n as u32 as i32 as i64),
            (K::I64, Wv::Var(n)) => st[i] = Val::Int(n as i64),
            (K::Str, Wv::Len(b)) => {
                if std::str::from_utf8(&b).is_err() {
                    malformed = malformed.or(Some("string field is not UTF-8"));
                }
                st[i] = Val::Bs(b)
            }
            (K::Bytes, Wv::Len(b)) => st[i] = Val::Bs(b),
            (K::RepStr, Wv::Len(b)) => {
                if std::str::from_utf8(&b).is_err() {
                    malformed = malformed.or(Some("string field is not UTF-8"));
                }
                if let Val::RepStr(l) = &mut st[i] {
                    l.push(b)
                }
            }
            (K::Msg(s), Wv::Len(b)) => {
                let cur = match &st[i] {
                    Val::Msg(Some(c)) => c.clone(),
                    _ => s.iter().map(|(_, k)| default(*k)).collect(),
                };
                match merge(s, cur, &b) {
                    V::Ok(m) => st[i] = Val::Msg(Some(m)),
                    V::Malformed(w) => malformed = malformed.or(Some(w)),
                    V::Unsure(w) => unsure = unsure.or(Some(w)),
                }
            }
            (K::RepMsg(s), Wv::Len(b)) => match read(s, &b) {
                V::Ok(m) => {
                    if let Val::RepMsg(l) = &mut st[i] {
                        l.push(m)
                    }
                }
                V::Malformed(w) => malformed = malformed.or(Some(w)),
                V::Unsure(w) => unsure = unsure.or(Some(w)),
            },
            (K::MapStrStr, Wv::Len(b)) => match read(MAP_ENTRY, &b) {
                V::Ok(m) => {
                    let (Val::Bs(key), Val::Bs(val)) = (m[0].clone(), m[1].clone()) else { unreachable!() };
                    if let Val::Map(l) = &mut st[i] {
                        match l.iter_mut().find(|(k2, _)| *k2 == key) {
                            Some(e) => e.1 = val,
                            None => l.push((key, val)),
                        }
                    }
                }
                V::Malformed(w) => malformed = malformed.or(Some(w)),
                V::Unsure(w) => unsure = unsure.or(Some(w)),
            },
            _ => unreachable!("fields() checks the wire type of every known field"),
        }
    }
    // whatever a parser makes of the unsure parts, it cannot accept a message that also breaks the
    // specification elsewhere (prost rejects the unsure constructs listed above themselves)
    match (malformed, unsure) {
        (Some(w), _) => V::Malformed(w),
        (None, Some(w)) => V::Unsure(w),
        (None, None) => V::Ok(st),
    }
}

// ------------------------------------------------------------------ google.rpc.Status
#[derive(Clone, Debug, PartialEq)]
pub struct StatusI {
    pub code: i32,
    pub message: Vec<u8>,
    /// (type_url, value)
    pub details: Vec<(Vec<u8>, Vec<u8>)>,
}
pub fn read_status(buf: &[u8]) -> V<StatusI> {
    match read(STATUS, buf) {
        V::Malformed(w) => V::Malformed(w),
        V::Unsure(w) => V::Unsure(w),
        V::Ok(v) => {
            let (Val::Int(code), Val::Bs(message), Val::RepMsg(anys)) = (v[0].clone(), v[1].clone(), v[2].clone()) else { unreachable!() };
            let details = anys
                .into_iter()
                .map(|a| {
                    let (Val::Bs(u), Val::Bs(x)) = (a[0].clone(), a[1].clone()) else { unreachable!() };
                    (u, x)
                })
                .collect();
            V::Ok(StatusI { code: code as i32, message, details })
        }
    }
}
pub fn kind_of_url(url: &[u8]) -> Option<usize> {
    DETAIL_URLS.iter().position(|u| u.as_bytes() == url)
}

/// observable of a byte string (as `obs_bytes` of the model: up to 96 bytes as they are, longer ones
/// by length and two digests)
pub fn pb(b: &[u8]) -> Tr {
    fn digest(a: u128, b: &[u8]) -> u128 {
        b.iter().fold(0u128, |h, x| (h * a + *x as u128 + 1) & ((1 << 61) - 1))
    }
    if b.len() <= 96 {
        Tr::b(b)
    } else {
        Tr::L(vec![Tr::n(76u8), Tr::n(b.len() as u64), Tr::N(digest(263, b)), Tr::N(digest(1009, b))])
    }
}
fn bs(v: &Val) -> Tr {
    match v {
        Val::Bs(b) => pb(b),
        _ => unreachable!(),
    }
}
fn rows(v: &Val) -> Tr {
    match v {
        Val::RepMsg(l) => Tr::L(l.iter().map(|m| Tr::L(m.iter().map(bs).collect())).collect()),
        _ => unreachable!(),
    }
}

/// the value of one detail payload, shown in the shape the harness shows an `ErrorDetail`.
/// A retry delay is the number seconds + nanos / 10^9 that the Duration message denotes
/// (duration.proto); tonic-types documents that a negative delay is read as zero.
pub fn read_detail(kind: usize, value: &[u8]) -> V<Tr> {
    let v = match read(DETAIL_SCHEMAS[kind], value) {
        V::Ok(v) => v,
        V::Malformed(w) => return V::Malformed(w),
        V::Unsure(w) => return V::Unsure(w),
    };
    let t = match kind {
        0 => {
            let delay = match &v[0] {
                Val::Msg(None) => None,
                Val::Msg(Some(d)) => {
                    let (Val::Int(s), Val::Int(n)) = (d[0].clone(), d[1].clone()) else { unreachable!() };
                    let total: i128 = s as i128 * 1_000_000_000 + n as i128;
                    if total <= 0 {
                        Some((0u64, 0u32))
                    } else {
                        let secs = total / 1_000_000_000;
                        if secs > i64::MAX as i128 {
                            return V::Unsure("duration beyond the seconds of an int64");
                        }
                        Some((secs as u64, (total % 1_000_000_000) as u32))
                    }
                }
                _ => unreachable!(),
            };
            Tr::tag(0, vec![Tr::opt(delay.map(|(s, n)| Tr::L(vec![Tr::n(s), Tr::n(n)])))])
        }
        1 => {
            let Val::RepStr(stack) = &v[0] else { unreachable!() };
            Tr::tag(1, vec![Tr::L(stack.iter().map(|s| pb(s)).collect()), bs(&v[1])])
        }
        2 => Tr::tag(2, vec![rows(&v[0])]),
        3 => {
            let Val::Map(m) = &v[2] else { unreachable!() };
            let mut sorted = m.clone();
            sorted.sort();
            Tr::tag(3, vec![bs(&v[0]), bs(&v[1]), Tr::L(sorted.iter().map(|(k, x)| Tr::L(vec![pb(k), pb(x)])).collect())])
        }
        4 => Tr::tag(4, vec![rows(&v[0])]),
        5 => Tr::tag(5, vec![rows(&v[0])]),
        6 => Tr::tag(6, vec![bs(&v[0]), bs(&v[1])]),
        7 => Tr::tag(7, vec![bs(&v[0]), bs(&v[1]), bs(&v[2]), bs(&v[3])]),
        8 => Tr::tag(8, vec![rows(&v[0])]),
        _ => Tr::tag(9, vec![bs(&v[0]), bs(&v[1])]),
    };
    V::Ok(t)
}

/// What the specification lets one say about the decode side of `StatusExt` on these details
/// bytes.  `None` in a slot = nothing is claimed.
pub struct Expect {
    /// `Some(None)`: undecodable; `Some(Some((code as u32, message, type urls)))`
    pub embedded: Option<Option<(u32, Vec<u8>, Vec<Vec<u8>>)>>,
    /// check_error_details_vec: `Some(None)` = Err, `Some(Some(list))`
    pub vec: Option<Option<Vec<Tr>>>,
    /// get_details_<kind>: `Some(None)` = None
    pub getters: [Option<Option<Tr>>; 10],
    pub why_unsure: Option<&'static str>,
}
pub fn expect(details: &[u8]) -> Expect {
    const NO: Option<Option<Tr>> = None;
    const NONE: Option<Option<Tr>> = Some(None);
    match read_status(details) {
        V::Unsure(w) => Expect { embedded: None, vec: None, getters: [NO; 10], why_unsure: Some(w) },
        V::Malformed(_) => Expect { embedded: Some(None), vec: Some(None), getters: [NONE; 10], why_unsure: None },
        V::Ok(st) => {
            let known: Vec<(usize, V<Tr>)> = st.details.iter().filter_map(|(u, x)| kind_of_url(u).map(|k| (k, read_detail(k, x)))).collect();
            let mut why = None;
            let vec = if known.iter().any(|(_, v)| matches!(v, V::Malformed(_))) {
                Some(None)
            } else if let Some((_, V::Unsure(w))) = known.iter().find(|(_, v)| matches!(v, V::Unsure(_))) {
                why = Some(*w);
                None
            } else {
                Some(Some(known.iter().map(|(_, v)| match v { V::Ok(t) => t.clone(), _ => unreachable!() }).collect()))
            };
            let mut getters = [NO; 10];
            for (k, g) in getters.iter_mut().enumerate() {
                *g = NONE;
                for (k2, v) in &known {
                    if *k2 != k {
                        continue;
                    }
                    match v {
                        V::Ok(t) => {
                            *g = Some(Some(t.clone()));
                            break;
                        }
                        V::Malformed(_) => continue,
                        V::Unsure(_) => {
                            *g = None;
                            break;
                        }
                    }
                }
            }
            Expect { embedded: Some(Some((st.code as u32, st.message.clone(), st.details.iter().map(|(u, _)| u.clone()).collect()))), vec, getters, why_unsure: why }
        }
    }
}

// ------------------------------------------------------------------ writer
pub fn put_varint(mut v: u64, out: &mut Vec<u8>) {
    loop {
        if v < 0x80 {
            out.push(v as u8);
            return;
        }
        out.push((v as u8 & 0x7f) | 0x80);
        v >>= 7;
    }
}
/// a varint padded with continuation bytes to `len` bytes (non-minimal encoding, legal)
pub fn put_varint_padded(v: u64, len: usize, out: &mut Vec<u8>) {
    let mut b = vec![];
    put_varint(v, &mut b);
    while b.len() < len.min(10) {
        let l = b.len();
        b[l - 1] |= 0x80;
        b.push(0);
    }
    out.extend(b);
}
pub fn put_key(tag: u32, wt: u8, out: &mut Vec<u8>) {
    put_varint(((tag as u64) << 3) | wt as u64, out);
}
pub fn put_len(tag: u32, payload: &[u8], out: &mut Vec<u8>) {
    put_key(tag, 2, out);
    put_varint(payload.len() as u64, out);
    out.extend_from_slice(payload);
}
