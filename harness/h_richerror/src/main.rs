//! C20 correspondence harness: rich error details attached to a status (as a set or as an
//! ordered list), sent through the header encoding, read back with every getter of `StatusExt`;
//! and arbitrary / mutated bytes as details for the decode side.
use bytes::Bytes;
use http::HeaderMap;
use prost::Message;
use serde_json::{json, Value};
use std::collections::HashMap;
use std::panic::AssertUnwindSafe;
use std::time::Duration;
use tonic::metadata::{MetadataKey, MetadataMap, MetadataValue};
use tonic::{Code, Status};
use tonic_types::{
    pb, BadRequest, DebugInfo, ErrorDetail, ErrorDetails, ErrorInfo, FieldViolation, Help, HelpLink,
    LocalizedMessage, PreconditionFailure, PreconditionViolation, QuotaFailure, QuotaViolation,
    RequestInfo, ResourceInfo, RetryInfo, StatusExt,
};
use vcommon::*;

mod wire;
use wire::{put_key as key, put_len as ld, put_varint as varint, put_varint_padded as varint_padded, V};

const IMPORTS: &str =
    "From Verif Require Import Lib.Bytes Lib.Obs Lib.HeaderMap Model.Status Model.ProtoWire Model.RichError.";

/// seconds of the largest protobuf Duration (and of RetryInfo::MAX_RETRY_DELAY)
const PB_MAX_SECS: u64 = 315_576_000_000;
const DETAILS_BIN: &str = "grpc-status-details-bin";
const URLS: [&str; 10] = [
    "type.googleapis.com/google.rpc.RetryInfo",
    "type.googleapis.com/google.rpc.DebugInfo",
    "type.googleapis.com/google.rpc.QuotaFailure",
    "type.googleapis.com/google.rpc.ErrorInfo",
    "type.googleapis.com/google.rpc.PreconditionFailure",
    "type.googleapis.com/google.rpc.BadRequest",
    "type.googleapis.com/google.rpc.RequestInfo",
    "type.googleapis.com/google.rpc.ResourceInfo",
    "type.googleapis.com/google.rpc.Help",
    "type.googleapis.com/google.rpc.LocalizedMessage",
];

// ------------------------------------------------------------------ description of one detail
/// What the harness decided to attach; the implementation value and the model literal are both
/// derived from it, and the oracle compares what comes back with it.
#[derive(Clone, Debug, PartialEq)]
enum Det {
    /// `via_new`: built with RetryInfo::new (clamps) or as a struct literal (pub field)
    Retry { delay: Option<(u64, u32)>, via_new: bool },
    Debug(Vec<String>, String),
    Quota(Vec<(String, String)>),
    /// pairs have distinct keys
    Info(String, String, Vec<(String, String)>),
    Prec(Vec<(String, String, String)>),
    Bad(Vec<(String, String)>),
    Req(String, String),
    Res(String, String, String, String),
    Help(Vec<(String, String)>),
    Loc(String, String),
}
impl Det {
    fn kind(&self) -> usize {
        match self {
            Det::Retry { .. } => 0,
            Det::Debug(..) => 1,
            Det::Quota(..) => 2,
            Det::Info(..) => 3,
            Det::Prec(..) => 4,
            Det::Bad(..) => 5,
            Det::Req(..) => 6,
            Det::Res(..) => 7,
            Det::Help(..) => 8,
            Det::Loc(..) => 9,
        }
    }
}

/// 15 bytes to a number, big endian (mirrors `chunks15` of the model)
fn chunks15(b: &[u8]) -> Vec<u128> {
    b.chunks(15).map(|c| c.iter().fold(0u128, |a, x| a * 256 + *x as u128)).collect()
}
/// observable of a byte string: as it is up to 96 bytes, length and two digests above (`obs_bytes`)
fn pb(b: &[u8]) -> Tr {
    wire::pb(b)
}
fn ps(s: &str) -> Tr {
    pb(s.as_bytes())
}
/// Gallina byte string; long ones packed (`unpack`) unless they are one run
fn cb(b: &[u8]) -> String {
    if b.len() <= 24 || b.iter().all(|x| *x == b[0]) {
        coq_bytes(b)
    } else {
        format!("(unpack {} [{}])", b.len(), chunks15(b).iter().map(|n| format!("0x{:x}", n)).collect::<Vec<_>>().join(";"))
    }
}
fn cs(s: &str) -> String {
    cb(s.as_bytes())
}
fn hs(s: &str) -> Value {
    json!(hex(s.as_bytes()))
}
fn unhs(v: &Value) -> String {
    String::from_utf8(unhex(v.as_str().unwrap())).unwrap()
}
fn coq_dur(d: &Option<(u64, u32)>) -> String {
    coq_opt(d, |(s, n)| format!("(mkDur {} {})", s, n))
}
fn dur(d: &Option<(u64, u32)>) -> Option<Duration> {
    d.map(|(s, n)| Duration::new(s, n))
}

/// the implementation value, the Gallina literal of type `error_detail`, and the inner record
/// literal (for `mkED`).  ErrorInfo metadata is listed in the iteration order of the very map
/// instance that is handed to the implementation.
fn build(d: &Det) -> (ErrorDetail, String, String) {
    match d {
        Det::Retry { delay, via_new } => {
            let (v, lit) = if *via_new {
                (RetryInfo::new(dur(delay)), format!("(retry_info_new {})", coq_dur(delay)))
            } else {
                (RetryInfo { retry_delay: dur(delay) }, format!("(mkRetryInfo {})", coq_dur(delay)))
            };
            (v.into(), format!("(DRetryInfo {})", lit), lit)
        }
        Det::Debug(stack, detail) => {
            let lit = format!("(mkDebugInfo {} {})", coq_list(stack, |s| cs(s)), cs(detail));
            (DebugInfo::new(stack.clone(), detail.clone()).into(), format!("(DDebugInfo {})", lit), lit)
        }
        Det::Quota(vs) => {
            let lit = format!("(mkQuotaFailure {})", coq_list(vs, |(a, b)| format!("(mkQuotaViolation {} {})", cs(a), cs(b))));
            let v = QuotaFailure::new(vs.iter().map(|(a, b)| QuotaViolation::new(a.clone(), b.clone())).collect::<Vec<_>>());
            (v.into(), format!("(DQuotaFailure {})", lit), lit)
        }
        Det::Info(reason, domain, pairs) => {
            let map: HashMap<String, String> = pairs.iter().cloned().collect();
            let order: Vec<(String, String)> = map.iter().map(|(k, v)| (k.clone(), v.clone())).collect();
            let lit = format!("(mkErrorInfo {} {} {})", cs(reason), cs(domain), coq_list(&order, |(k, v)| format!("({},{})", cs(k), cs(v))));
            (ErrorInfo::new(reason.clone(), domain.clone(), map).into(), format!("(DErrorInfo {})", lit), lit)
        }
        Det::Prec(vs) => {
            let lit = format!("(mkPreconditionFailure {})", coq_list(vs, |(a, b, c)| format!("(mkPreconditionViolation {} {} {})", cs(a), cs(b), cs(c))));
            let v = PreconditionFailure::new(vs.iter().map(|(a, b, c)| PreconditionViolation::new(a.clone(), b.clone(), c.clone())).collect::<Vec<_>>());
            (v.into(), format!("(DPreconditionFailure {})", lit), lit)
        }
        Det::Bad(vs) => {
            let lit = format!("(mkBadRequest {})", coq_list(vs, |(a, b)| format!("(mkFieldViolation {} {})", cs(a), cs(b))));
            let v = BadRequest::new(vs.iter().map(|(a, b)| FieldViolation::new(a.clone(), b.clone())).collect::<Vec<_>>());
            (v.into(), format!("(DBadRequest {})", lit), lit)
        }
        Det::Req(a, b) => {
            let lit = format!("(mkRequestInfo {} {})", cs(a), cs(b));
            (RequestInfo::new(a.clone(), b.clone()).into(), format!("(DRequestInfo {})", lit), lit)
        }
        Det::Res(a, b, c, e) => {
            let lit = format!("(mkResourceInfo {} {} {} {})", cs(a), cs(b), cs(c), cs(e));
            (ResourceInfo::new(a.clone(), b.clone(), c.clone(), e.clone()).into(), format!("(DResourceInfo {})", lit), lit)
        }
        Det::Help(ls) => {
            let lit = format!("(mkHelp {})", coq_list(ls, |(a, b)| format!("(mkHelpLink {} {})", cs(a), cs(b))));
            let v = Help::new(ls.iter().map(|(a, b)| HelpLink::new(a.clone(), b.clone())).collect::<Vec<_>>());
            (v.into(), format!("(DHelp {})", lit), lit)
        }
        Det::Loc(a, b) => {
            let lit = format!("(mkLocalizedMessage {} {})", cs(a), cs(b));
            (LocalizedMessage::new(a.clone(), b.clone()).into(), format!("(DLocalizedMessage {})", lit), lit)
        }
    }
}

/// the ErrorDetails value through the public builders (`style` picks set_* / add_* / with_*),
/// and the ten `option` arguments of `mkED`
fn build_set(ds: &[Option<Det>; 10], style: u64) -> (ErrorDetails, String) {
    let mut ed = ErrorDetails::new();
    let mut lits: Vec<String> = vec![];
    let mut first = true;
    for (i, d) in ds.iter().enumerate() {
        let bit = (style >> i) & 1 == 1;
        match d {
            None => lits.push("None".into()),
            Some(d) => {
                let (_, _, lit) = build(d);
                let mut lit = lit;
                match d {
                    Det::Retry { delay, .. } => {
                        if first && bit {
                            ed = ErrorDetails::with_retry_info(dur(delay));
                        } else {
                            ed.set_retry_info(dur(delay));
                        }
                        lit = format!("(retry_info_new {})", coq_dur(delay));
                    }
                    Det::Debug(a, b) => {
                        ed.set_debug_info(a.clone(), b.clone());
                    }
                    Det::Quota(vs) => {
                        if bit && !vs.is_empty() {
                            for (a, b) in vs {
                                ed.add_quota_failure_violation(a.clone(), b.clone());
                            }
                        } else {
                            ed.set_quota_failure(vs.iter().map(|(a, b)| QuotaViolation::new(a.clone(), b.clone())).collect::<Vec<_>>());
                        }
                    }
                    Det::Info(r, dm, pairs) => {
                        let map: HashMap<String, String> = pairs.iter().cloned().collect();
                        let order: Vec<(String, String)> = map.iter().map(|(k, v)| (k.clone(), v.clone())).collect();
                        lit = format!("(mkErrorInfo {} {} {})", cs(r), cs(dm), coq_list(&order, |(k, v)| format!("({},{})", cs(k), cs(v))));
                        ed.set_error_info(r.clone(), dm.clone(), map);
                    }
                    Det::Prec(vs) => {
                        if bit && !vs.is_empty() {
                            for (a, b, c) in vs {
                                ed.add_precondition_failure_violation(a.clone(), b.clone(), c.clone());
                            }
                        } else {
                            ed.set_precondition_failure(vs.iter().map(|(a, b, c)| PreconditionViolation::new(a.clone(), b.clone(), c.clone())).collect::<Vec<_>>());
                        }
                    }
                    Det::Bad(vs) => {
                        if bit && !vs.is_empty() {
                            for (a, b) in vs {
                                ed.add_bad_request_violation(a.clone(), b.clone());
                            }
                        } else {
                            ed.set_bad_request(vs.iter().map(|(a, b)| FieldViolation::new(a.clone(), b.clone())).collect::<Vec<_>>());
                        }
                    }
                    Det::Req(a, b) => {
                        ed.set_request_info(a.clone(), b.clone());
                    }
                    Det::Res(a, b, c, e) => {
                        ed.set_resource_info(a.clone(), b.clone(), c.clone(), e.clone());
                    }
                    Det::Help(ls) => {
                        if bit && !ls.is_empty() {
                            for (a, b) in ls {
                                ed.add_help_link(a.clone(), b.clone());
                            }
                        } else {
                            ed.set_help(ls.iter().map(|(a, b)| HelpLink::new(a.clone(), b.clone())).collect::<Vec<_>>());
                        }
                    }
                    Det::Loc(a, b) => {
                        ed.set_localized_message(a.clone(), b.clone());
                    }
                }
                first = false;
                lits.push(format!("(Some {})", lit));
            }
        }
    }
    (ed, format!("(mkED {})", lits.join(" ")))
}

// ------------------------------------------------------------------ observables
fn tr_dur(d: &Option<Duration>) -> Tr {
    Tr::opt(d.map(|d| Tr::L(vec![Tr::n(d.as_secs()), Tr::n(d.subsec_nanos())])))
}
fn sorted_pairs(m: &HashMap<String, String>) -> Tr {
    let mut v: Vec<(Vec<u8>, Vec<u8>)> = m.iter().map(|(k, v)| (k.as_bytes().to_vec(), v.as_bytes().to_vec())).collect();
    v.sort();
    Tr::L(v.into_iter().map(|(k, v)| Tr::L(vec![pb(&k), pb(&v)])).collect())
}
fn tr_detail(d: &ErrorDetail) -> Tr {
    match d {
        ErrorDetail::RetryInfo(x) => Tr::tag(0, vec![tr_dur(&x.retry_delay)]),
        ErrorDetail::DebugInfo(x) => Tr::tag(1, vec![Tr::L(x.stack_entries.iter().map(|s| ps(s)).collect()), ps(&x.detail)]),
        ErrorDetail::QuotaFailure(x) => Tr::tag(2, vec![Tr::L(x.violations.iter().map(|v| Tr::L(vec![ps(&v.subject), ps(&v.description)])).collect())]),
        ErrorDetail::ErrorInfo(x) => Tr::tag(3, vec![ps(&x.reason), ps(&x.domain), sorted_pairs(&x.metadata)]),
        ErrorDetail::PreconditionFailure(x) => Tr::tag(4, vec![Tr::L(x.violations.iter().map(|v| Tr::L(vec![ps(&v.r#type), ps(&v.subject), ps(&v.description)])).collect())]),
        ErrorDetail::BadRequest(x) => Tr::tag(5, vec![Tr::L(x.field_violations.iter().map(|v| Tr::L(vec![ps(&v.field), ps(&v.description)])).collect())]),
        ErrorDetail::RequestInfo(x) => Tr::tag(6, vec![ps(&x.request_id), ps(&x.serving_data)]),
        ErrorDetail::ResourceInfo(x) => Tr::tag(7, vec![ps(&x.resource_type), ps(&x.resource_name), ps(&x.owner), ps(&x.description)]),
        ErrorDetail::Help(x) => Tr::tag(8, vec![Tr::L(x.links.iter().map(|v| Tr::L(vec![ps(&v.description), ps(&v.url)])).collect())]),
        ErrorDetail::LocalizedMessage(x) => Tr::tag(9, vec![ps(&x.locale), ps(&x.message)]),
        _ => Tr::tag(255, vec![]),
    }
}
fn tr_details(d: &ErrorDetails) -> Tr {
    Tr::L(vec![
        Tr::opt(d.retry_info().cloned().map(|x| tr_detail(&x.into()))),
        Tr::opt(d.debug_info().cloned().map(|x| tr_detail(&x.into()))),
        Tr::opt(d.quota_failure().cloned().map(|x| tr_detail(&x.into()))),
        Tr::opt(d.error_info().cloned().map(|x| tr_detail(&x.into()))),
        Tr::opt(d.precondition_failure().cloned().map(|x| tr_detail(&x.into()))),
        Tr::opt(d.bad_request().cloned().map(|x| tr_detail(&x.into()))),
        Tr::opt(d.request_info().cloned().map(|x| tr_detail(&x.into()))),
        Tr::opt(d.resource_info().cloned().map(|x| tr_detail(&x.into()))),
        Tr::opt(d.help().cloned().map(|x| tr_detail(&x.into()))),
        Tr::opt(d.localized_message().cloned().map(|x| tr_detail(&x.into()))),
    ])
}
fn tr_vec(v: &[ErrorDetail]) -> Tr {
    Tr::L(v.iter().map(tr_detail).collect())
}
fn ok(t: Tr) -> Tr {
    Tr::L(vec![Tr::n(0u8), t])
}
fn err() -> Tr {
    Tr::L(vec![Tr::n(1u8)])
}
fn panicked() -> Tr {
    Tr::L(vec![Tr::n(99u8)])
}
/// one call of the implementation under catch_unwind
fn call<T>(f: impl FnOnce() -> T, show: impl FnOnce(T) -> Tr, panics: &mut Vec<String>, what: &str) -> Tr {
    match catch(AssertUnwindSafe(f)) {
        Ok(v) => show(v),
        Err(p) => {
            panics.push(format!("{}: {}", what, p));
            panicked()
        }
    }
}

/// the six parts of `obs_decode`, kept apart for the oracle
struct Decoded {
    check: Tr,
    get: Tr,
    check_vec: Tr,
    get_vec: Tr,
    getters: Vec<Tr>,
    embedded: Tr,
    panics: Vec<String>,
    /// RpcStatusExt on the decoded pb::Status disagrees with StatusExt on the tonic::Status
    rpc_ext: Option<String>,
}
/// `[Nn 78; Nn i]`: equal to item i of the list shown by check_error_details_vec
fn reference(i: usize) -> Tr {
    Tr::L(vec![Tr::n(78u8), Tr::n(i as u64)])
}
fn ref_first(items: &[Tr], t: &Tr) -> Tr {
    items.iter().position(|x| x == t).map(reference).unwrap_or_else(|| t.clone())
}
fn ref_last(items: &[Tr], t: &Tr) -> Tr {
    items.iter().rposition(|x| x == t).map(reference).unwrap_or_else(|| t.clone())
}
/// `[Nn 79]`: equal to the result shown just before
fn same_or(prev: &Tr, t: Tr) -> Tr {
    if *prev == t {
        Tr::L(vec![Tr::n(79u8)])
    } else {
        t
    }
}
/// apply `f` under `ok(..)`
fn map_ok(t: &Tr, f: impl FnOnce(&Tr) -> Tr) -> Tr {
    match t {
        Tr::L(v) if v.len() == 2 && v[0] == Tr::N(0) => ok(f(&v[1])),
        x => x.clone(),
    }
}
/// apply `f` to the content of every `Tr::opt` slot of a list
fn map_slots(t: &Tr, f: impl Fn(&Tr) -> Tr) -> Tr {
    match t {
        Tr::L(slots) => Tr::L(slots.iter().map(|s| match s {
            Tr::L(o) if o.len() == 1 => Tr::L(vec![f(&o[0])]),
            x => x.clone(),
        }).collect()),
        x => x.clone(),
    }
}
impl Decoded {
    /// the compact form printed by `obs_decode`
    fn tr(&self) -> Tr {
        let items: Vec<Tr> = match &self.check_vec {
            Tr::L(v) if v.len() == 2 && v[0] == Tr::N(0) => match &v[1] {
                Tr::L(l) => l.clone(),
                _ => vec![],
            },
            _ => vec![],
        };
        let cv = self.check_vec.clone();
        let set = |t: &Tr| map_ok(t, |x| map_slots(x, |d| ref_last(&items, d)));
        let cs = set(&self.check);
        Tr::L(vec![
            cv.clone(),
            same_or(&cv, self.get_vec.clone()),
            cs.clone(),
            same_or(&cs, set(&self.get)),
            Tr::L(self.getters.iter().map(|g| map_ok(g, |o| match o {
                Tr::L(v) if v.len() == 1 => Tr::L(vec![ref_first(&items, &v[0])]),
                x => x.clone(),
            })).collect()),
            self.embedded.clone(),
        ])
    }
}
/// a type URL in the embedded status: the number of its kind for the ten standard URLs (compared
/// with the constants of wire.rs, not with tonic-types'), the bytes otherwise (`obs_url`)
fn url_tr(u: &[u8]) -> Tr {
    match wire::kind_of_url(u) {
        Some(k) => Tr::n(k as u64),
        None => pb(u),
    }
}
fn decode_all(st: &Status) -> Decoded {
    let mut p = vec![];
    let check = call(|| st.check_error_details(), |r| r.map(|d| ok(tr_details(&d))).unwrap_or_else(|_| err()), &mut p, "check_error_details");
    let get = call(|| st.get_error_details(), |d| ok(tr_details(&d)), &mut p, "get_error_details");
    let check_vec = call(|| st.check_error_details_vec(), |r| r.map(|d| ok(tr_vec(&d))).unwrap_or_else(|_| err()), &mut p, "check_error_details_vec");
    let get_vec = call(|| st.get_error_details_vec(), |d| ok(tr_vec(&d)), &mut p, "get_error_details_vec");
    let show = |o: Option<ErrorDetail>| ok(Tr::opt(o.as_ref().map(tr_detail)));
    let getters = vec![
        call(|| st.get_details_retry_info().map(ErrorDetail::from), show, &mut p, "get_details_retry_info"),
        call(|| st.get_details_debug_info().map(ErrorDetail::from), show, &mut p, "get_details_debug_info"),
        call(|| st.get_details_quota_failure().map(ErrorDetail::from), show, &mut p, "get_details_quota_failure"),
        call(|| st.get_details_error_info().map(ErrorDetail::from), show, &mut p, "get_details_error_info"),
        call(|| st.get_details_precondition_failure().map(ErrorDetail::from), show, &mut p, "get_details_precondition_failure"),
        call(|| st.get_details_bad_request().map(ErrorDetail::from), show, &mut p, "get_details_bad_request"),
        call(|| st.get_details_request_info().map(ErrorDetail::from), show, &mut p, "get_details_request_info"),
        call(|| st.get_details_resource_info().map(ErrorDetail::from), show, &mut p, "get_details_resource_info"),
        call(|| st.get_details_help().map(ErrorDetail::from), show, &mut p, "get_details_help"),
        call(|| st.get_details_localized_message().map(ErrorDetail::from), show, &mut p, "get_details_localized_message"),
    ];
    let embedded = call(
        || pb::Status::decode(st.details()),
        |r| match r {
            Ok(st) => ok(Tr::L(vec![Tr::n(st.code as u32), ps(&st.message), Tr::L(st.details.iter().map(|a| url_tr(a.type_url.as_bytes())).collect())])),
            Err(_) => err(),
        },
        &mut p,
        "pb::Status::decode",
    );
    // the same getters exist on pb::Status (RpcStatusExt); they must agree
    let mut rpc_ext = None;
    if let Ok(Ok(inner)) = catch(AssertUnwindSafe(|| pb::Status::decode(st.details()))) {
        use tonic_types::RpcStatusExt;
        let r = catch(AssertUnwindSafe(|| {
            let a = inner.check_error_details().map(|d| ok(tr_details(&d))).unwrap_or_else(|_| err());
            let b = inner.check_error_details_vec().map(|d| ok(tr_vec(&d))).unwrap_or_else(|_| err());
            let c = ok(tr_details(&inner.get_error_details()));
            let e = ok(tr_vec(&inner.get_error_details_vec()));
            let g = vec![
                show(inner.get_details_retry_info().map(ErrorDetail::from)),
                show(inner.get_details_debug_info().map(ErrorDetail::from)),
                show(inner.get_details_quota_failure().map(ErrorDetail::from)),
                show(inner.get_details_error_info().map(ErrorDetail::from)),
                show(inner.get_details_precondition_failure().map(ErrorDetail::from)),
                show(inner.get_details_bad_request().map(ErrorDetail::from)),
                show(inner.get_details_request_info().map(ErrorDetail::from)),
                show(inner.get_details_resource_info().map(ErrorDetail::from)),
                show(inner.get_details_help().map(ErrorDetail::from)),
                show(inner.get_details_localized_message().map(ErrorDetail::from)),
            ];
            (a, b, c, e, g)
        }));
        match r {
            Err(pn) => p.push(format!("RpcStatusExt: {}", pn)),
            Ok((a, b, c, e, g)) => {
                if a != check || b != check_vec || c != get || e != get_vec || g != getters {
                    rpc_ext = Some("RpcStatusExt on the decoded pb::Status disagrees with StatusExt on the status".to_string());
                }
            }
        }
    }
    Decoded { check, get, check_vec, get_vec, getters, embedded, panics: p, rpc_ext }
}

/// `obs_via_headers`: add_header, from_header_map, decode; the status read back and its decoding
fn via_headers(st: &Status) -> (Tr, Option<(Status, Decoded)>, Option<String>) {
    let r = catch(AssertUnwindSafe(|| {
        let mut hm = HeaderMap::new();
        match st.add_header(&mut hm) {
            Err(_) => Err(1u8),
            Ok(()) => Status::from_header_map(&hm).ok_or(2u8),
        }
    }));
    match r {
        Err(p) => (panicked(), None, Some(format!("panic in the header encoding: {}", p))),
        Ok(Err(n)) => (Tr::L(vec![Tr::n(n)]), None, Some("status did not survive the header encoding".into())),
        Ok(Ok(back)) => {
            let d = decode_all(&back);
            let raw = pb(st.details());
            let t = Tr::L(vec![
                Tr::n(0u8),
                raw.clone(),
                Tr::n(back.code() as i32 as u32),
                ps(back.message()),
                same_or(&raw, pb(back.details())),
                hm_tr(&back.metadata().clone().into_headers()),
                d.tr(),
            ]);
            (t, Some((back, d)), None)
        }
    }
}

// ------------------------------------------------------------------ the oracle for attached details
/// what the property promises for a detail: the value that was attached, computed from the harness's
/// own description only.  Two documented substitutions are part of constructing / writing the value
/// and are redone by hand: RetryInfo::new clamps a delay above MAX_RETRY_DELAY to it; a literal
/// RetryInfo whose seconds do not fit the int64 of google.protobuf.Duration is written as that
/// maximum (retry_info.rs, From<RetryInfo> for pb::RetryInfo).  A literal delay between the protobuf
/// maximum and i64::MAX seconds is outside the property's quantifier but representable: it has to
/// come back unchanged like any other (no wildcard).
fn expected(d: &Det) -> Tr {
    let b = |x: &String| ps(x);
    let pairs = |v: &Vec<(String, String)>| Tr::L(v.iter().map(|(x, y)| Tr::L(vec![b(x), b(y)])).collect());
    match d {
        Det::Retry { delay, via_new } => {
            const MAX: (u64, u32) = (PB_MAX_SECS, 999_999_999);
            let shown = delay.map(|(s, n)| {
                if *via_new && (s, n) > MAX {
                    MAX
                } else if !*via_new && s > i64::MAX as u64 {
                    MAX
                } else {
                    (s, n)
                }
            });
            Tr::tag(0, vec![Tr::opt(shown.map(|(s, n)| Tr::L(vec![Tr::n(s), Tr::n(n)])))])
        }
        Det::Debug(stack, detail) => Tr::tag(1, vec![Tr::L(stack.iter().map(b).collect()), b(detail)]),
        Det::Quota(v) => Tr::tag(2, vec![pairs(v)]),
        Det::Info(r, dm, md) => {
            let mut sorted: Vec<(Vec<u8>, Vec<u8>)> = md.iter().map(|(k, v)| (k.as_bytes().to_vec(), v.as_bytes().to_vec())).collect();
            sorted.sort();
            Tr::tag(3, vec![b(r), b(dm), Tr::L(sorted.iter().map(|(k, v)| Tr::L(vec![pb(k), pb(v)])).collect())])
        }
        Det::Prec(v) => Tr::tag(4, vec![Tr::L(v.iter().map(|(x, y, z)| Tr::L(vec![b(x), b(y), b(z)])).collect())]),
        Det::Bad(v) => Tr::tag(5, vec![pairs(v)]),
        Det::Req(x, y) => Tr::tag(6, vec![b(x), b(y)]),
        Det::Res(x, y, z, w) => Tr::tag(7, vec![b(x), b(y), b(z), b(w)]),
        Det::Help(v) => Tr::tag(8, vec![pairs(v)]),
        Det::Loc(x, y) => Tr::tag(9, vec![b(x), b(y)]),
    }
}
/// inside the property's quantifier (durations within the protobuf range)?
fn in_range(d: &Det) -> bool {
    !matches!(d, Det::Retry { delay: Some((s, _)), via_new: false } if *s > PB_MAX_SECS)
}

/// the details bytes read by the independent decoder of wire.rs (no prost, no tonic-types): a
/// well-formed google.rpc.Status with this code, this message, and one Any per expected detail, in
/// order, with the standard type URL of its kind and a payload that means the expected value
fn judge_wire(code: u32, msg: &str, exp: &[(usize, Tr)], raw: &[u8]) -> Option<String> {
    let st = match wire::read_status(raw) {
        V::Ok(st) => st,
        V::Malformed(w) => return Some(format!("independent decoder: the details bytes are not a well-formed google.rpc.Status ({})", w)),
        V::Unsure(w) => return Some(format!("independent decoder: the details bytes use a construct a google.rpc.Status encoder has no reason to write ({})", w)),
    };
    if st.code as u32 != code || st.message != msg.as_bytes() {
        return Some("independent decoder: embedded google.rpc.Status does not carry the outer code / message".into());
    }
    if st.details.len() != exp.len() {
        return Some(format!("independent decoder: embedded google.rpc.Status has {} details, {} were attached", st.details.len(), exp.len()));
    }
    for (i, ((url, value), (k, want))) in st.details.iter().zip(exp).enumerate() {
        if url != wire::DETAIL_URLS[*k].as_bytes() {
            return Some(format!("independent decoder: detail {} has type URL {:?}, the standard URL of its kind is {}", i, String::from_utf8_lossy(url), wire::DETAIL_URLS[*k]));
        }
        match wire::read_detail(*k, value) {
            V::Ok(t) if t == *want => {}
            V::Ok(_) => return Some(format!("independent decoder: the payload of detail {} ({}) does not mean the attached field values (field numbers of error_details.proto)", i, wire::DETAIL_URLS[*k])),
            V::Malformed(w) | V::Unsure(w) => return Some(format!("independent decoder: the payload of detail {} is not a plain well-formed message ({})", i, w)),
        }
    }
    None
}

/// direct check of the property on what came back; `list` = the attached details in the order
/// they must come back, as (description, expected observable)
/// the user metadata must arrive: every entry that was given, per name in order, except the names
/// gRPC reserves; nothing else
fn judge_md(md: &[(String, Vec<u8>)], back: &Status) -> Option<String> {
    // the names into_sanitized_headers strips, and the name of the details header itself: whatever the
    // user put under it is replaced by the attached details and never stays in the metadata
    const RESERVED: [&str; 7] = ["te", "user-agent", "content-type", "grpc-message", "grpc-message-type", "grpc-status", DETAILS_BIN];
    let got = back.metadata();
    let mut names: Vec<&str> = md.iter().map(|(k, _)| k.as_str()).filter(|k| !RESERVED.contains(k)).collect();
    names.sort();
    names.dedup();
    for k in &names {
        let want: Vec<&Vec<u8>> = md.iter().filter(|(k2, _)| k2 == k).map(|(_, v)| v).collect();
        let have: Vec<Vec<u8>> = if k.ends_with("-bin") {
            got.get_all_bin(*k).iter().map(|v| v.to_bytes().map(|b| b.to_vec()).unwrap_or_default()).collect()
        } else {
            got.get_all(*k).iter().map(|v| v.as_bytes().to_vec()).collect()
        };
        if have.len() != want.len() || have.iter().zip(&want).any(|(a, b)| a != *b) {
            return Some(format!("user metadata `{}` did not arrive unchanged ({} of {} values)", k, have.len(), want.len()));
        }
    }
    let expected_entries = md.iter().filter(|(k, _)| !RESERVED.contains(&k.as_str())).count();
    if got.len() != expected_entries {
        return Some(format!("status read back carries {} metadata entries, {} were given (reserved names excluded)", got.len(), expected_entries));
    }
    None
}

fn judge(code: u32, msg: &str, list: &[Det], md: &[(String, Vec<u8>)], back: &Status, d: &Decoded, raw_before: &[u8]) -> Option<String> {
    if !d.panics.is_empty() {
        return Some(format!("panic: {}", d.panics[0]));
    }
    if let Some(w) = judge_md(md, back) {
        return Some(w);
    }
    if let Some(w) = &d.rpc_ext {
        return Some(w.clone());
    }
    if back.code() as i32 as u32 != code || back.message() != msg {
        return Some("code or message changed across the header encoding".into());
    }
    if back.details() != raw_before {
        return Some("details bytes changed across the header encoding".into());
    }
    let exp: Vec<Tr> = list.iter().map(expected).collect();
    // ordered list: same kinds, order, values
    let want_vec = ok(Tr::L(exp.clone()));
    if d.check_vec != want_vec {
        return Some("check_error_details_vec: recovered list differs from the attached details (kinds / order / values)".into());
    }
    if d.get_vec != want_vec {
        return Some("get_error_details_vec differs from the attached details".into());
    }
    // set: the last of each kind
    let mut slots: Vec<Tr> = vec![Tr::opt(None); 10];
    let mut firsts: Vec<Tr> = vec![Tr::opt(None); 10];
    for (dd, e) in list.iter().zip(&exp) {
        slots[dd.kind()] = Tr::opt(Some(e.clone()));
        if firsts[dd.kind()] == Tr::opt(None) {
            firsts[dd.kind()] = Tr::opt(Some(e.clone()));
        }
    }
    let want_set = ok(Tr::L(slots));
    if d.check != want_set {
        return Some("check_error_details: recovered set differs from the attached details".into());
    }
    if d.get != want_set {
        return Some("get_error_details differs from the attached details".into());
    }
    for k in 0..10 {
        if d.getters[k] != ok(firsts[k].clone()) {
            return Some(format!("get_details getter {} does not return the first detail of its kind", k));
        }
    }
    // embedded google.rpc.Status, as prost reads it ...
    let want_emb = ok(Tr::L(vec![Tr::n(code), ps(msg), Tr::L(list.iter().map(|d| Tr::n(d.kind() as u64)).collect())]));
    if d.embedded != want_emb {
        return Some("embedded google.rpc.Status does not carry the outer code / message / one Any of the right type URL per detail".into());
    }
    // ... and as the independent decoder reads it
    let exp_k: Vec<(usize, Tr)> = list.iter().map(|d| d.kind()).zip(exp).collect();
    judge_wire(code, msg, &exp_k, raw_before)
}

// ------------------------------------------------------------------ generators
const PIECES: &[&str] = &[
    "a", "b", "Z", "0", " ", "%", "/", ":", ".", "-", "_", "\"", "\u{0}", "\n", "\u{7f}", "é", "ß", "€", "語", "😀",
    "\u{10FFFF}", "\u{80}", "\u{7ff}", "\u{800}", "\u{ffff}", "\u{10000}", "type.", "rpc.", "=", "\\",
];
fn gen_string(r: &mut Rng) -> String {
    let n = match r.below(100) {
        0..=29 => 0,
        30..=84 => r.range(1, 4),
        85..=95 => r.range(5, 12),
        96..=98 => r.range(30, 50),
        _ => r.range(120, 260),
    };
    if n >= 120 && r.chance(1, 2) {
        // a long run: printed compactly, exercises two-byte length prefixes
        return "x".repeat(n as usize);
    }
    (0..n).map(|_| *r.pick(PIECES)).collect()
}
fn gen_count(r: &mut Rng) -> usize {
    match r.below(10) {
        0 | 1 => 0,
        2..=5 => 1,
        6 | 7 => 2,
        8 => 3,
        _ => r.range(4, 7) as usize,
    }
}
const SECS: &[u64] = &[0, 0, 1, 5, 59, 3600, 86_400, 1 << 31, 1 << 32, (1 << 35) - 1, 315_575_999_999, PB_MAX_SECS];
const NANOS: &[u32] = &[0, 0, 1, 7, 127, 128, 1_000, 16_384, 500_000_000, 999_999_998, 999_999_999];
fn gen_delay_in_range(r: &mut Rng) -> Option<(u64, u32)> {
    if r.chance(1, 8) {
        return None;
    }
    let s = if r.chance(2, 3) { *r.pick(SECS) } else { r.below(PB_MAX_SECS + 1) };
    let n = if r.chance(2, 3) { *r.pick(NANOS) } else { r.below(1_000_000_000) as u32 };
    Some((s, n))
}
fn gen_delay_any(r: &mut Rng) -> Option<(u64, u32)> {
    const BIG: &[u64] = &[
        PB_MAX_SECS + 1, 1 << 40, i64::MAX as u64 - 1, i64::MAX as u64, i64::MAX as u64 + 1, u64::MAX - 1, u64::MAX,
    ];
    Some((*r.pick(BIG), *r.pick(NANOS)))
}
/// a detail that is present but carries nothing (all defaults): it must come back as present
fn empty_det(k: usize) -> Det {
    match k {
        0 => Det::Retry { delay: None, via_new: true },
        1 => Det::Debug(vec![], String::new()),
        2 => Det::Quota(vec![]),
        3 => Det::Info(String::new(), String::new(), vec![]),
        4 => Det::Prec(vec![]),
        5 => Det::Bad(vec![]),
        6 => Det::Req(String::new(), String::new()),
        7 => Det::Res(String::new(), String::new(), String::new(), String::new()),
        8 => Det::Help(vec![]),
        _ => Det::Loc(String::new(), String::new()),
    }
}
fn is_empty_det(d: &Det) -> bool {
    match d {
        Det::Retry { delay, .. } => delay.is_none(),
        x => *x == empty_det(x.kind()),
    }
}
fn gen_det(r: &mut Rng, k: usize, out_of_range: bool) -> Det {
    if !out_of_range && r.chance(1, 6) {
        // present but empty, on purpose
        return match (k, r.chance(1, 2)) {
            (0, true) => Det::Retry { delay: None, via_new: false },
            _ => empty_det(k),
        };
    }
    match k {
        0 => {
            if out_of_range {
                Det::Retry { delay: gen_delay_any(r), via_new: r.chance(1, 2) }
            } else {
                Det::Retry { delay: gen_delay_in_range(r), via_new: r.chance(2, 3) }
            }
        }
        1 => Det::Debug((0..gen_count(r)).map(|_| gen_string(r)).collect(), gen_string(r)),
        2 => Det::Quota((0..gen_count(r)).map(|_| (gen_string(r), gen_string(r))).collect()),
        3 => {
            let mut pairs: Vec<(String, String)> = vec![];
            for _ in 0..gen_count(r) {
                let k = gen_string(r);
                if !pairs.iter().any(|(k2, _)| *k2 == k) {
                    pairs.push((k, gen_string(r)));
                }
            }
            Det::Info(gen_string(r), gen_string(r), pairs)
        }
        4 => Det::Prec((0..gen_count(r)).map(|_| (gen_string(r), gen_string(r), gen_string(r))).collect()),
        5 => Det::Bad((0..gen_count(r)).map(|_| (gen_string(r), gen_string(r))).collect()),
        6 => Det::Req(gen_string(r), gen_string(r)),
        7 => Det::Res(gen_string(r), gen_string(r), gen_string(r), gen_string(r)),
        8 => Det::Help((0..gen_count(r)).map(|_| (gen_string(r), gen_string(r))).collect()),
        _ => Det::Loc(gen_string(r), gen_string(r)),
    }
}
fn rbytes(r: &mut Rng, lo: u64, hi: u64) -> Vec<u8> {
    let n = r.range(lo, hi) as usize;
    r.bytes(n)
}
fn gen_md(r: &mut Rng) -> Vec<(String, Vec<u8>)> {
    if r.chance(1, 2) {
        return vec![];
    }
    let keys = ["x-a", "x-a", "x-trace-id", "x-payload-bin", "x-other-bin", "authorization", "grpc-message", "te", "content-type"];
    let mut md: Vec<(String, Vec<u8>)> = (0..r.range(1, 4))
        .map(|_| {
            let k = *r.pick(&keys);
            let v: Vec<u8> = if k.ends_with("-bin") { rbytes(r, 0, 5) } else { (0..r.range(0, 6)).map(|_| r.range(0x20, 0x7e) as u8).collect() };
            (k.to_string(), v)
        })
        .collect();
    // the caller's own grpc-status-details-bin entries (one or two): someone else's details, or junk
    if r.chance(1, 5) {
        for _ in 0..r.range(1, 2) {
            let v = if r.chance(2, 3) {
                let k = r.below(10) as usize;
                let d = gen_det(r, k, false);
                ind_status(r, 7, "own", &[d])
            } else {
                rbytes(r, 1, 8)
            };
            let at = r.below(md.len() as u64 + 1) as usize;
            md.insert(at, (DETAILS_BIN.to_string(), v));
        }
    }
    md
}
fn md_map(md: &[(String, Vec<u8>)]) -> MetadataMap {
    let mut m = MetadataMap::new();
    for (k, v) in md {
        if k.ends_with("-bin") {
            m.append_bin(MetadataKey::from_bytes(k.as_bytes()).unwrap(), MetadataValue::from_bytes(v));
        } else if let Ok(val) = std::str::from_utf8(v).unwrap().parse::<MetadataValue<_>>() {
            m.append(MetadataKey::from_bytes(k.as_bytes()).unwrap(), val);
        }
    }
    m
}

// ------------------------------------------------------------------ JSON of an input (for replay)
fn det_json(d: &Det) -> Value {
    let pairs = |v: &Vec<(String, String)>| Value::Array(v.iter().map(|(a, b)| json!([hs(a), hs(b)])).collect());
    match d {
        Det::Retry { delay, via_new } => json!({"k": 0, "delay": delay.map(|(s, n)| json!([s.to_string(), n])), "via_new": via_new}),
        Det::Debug(a, b) => json!({"k": 1, "stack": a.iter().map(|s| hs(s)).collect::<Vec<_>>(), "detail": hs(b)}),
        Det::Quota(v) => json!({"k": 2, "v": pairs(v)}),
        Det::Info(a, b, v) => json!({"k": 3, "reason": hs(a), "domain": hs(b), "md": pairs(v)}),
        Det::Prec(v) => json!({"k": 4, "v": v.iter().map(|(a, b, c)| json!([hs(a), hs(b), hs(c)])).collect::<Vec<_>>()}),
        Det::Bad(v) => json!({"k": 5, "v": pairs(v)}),
        Det::Req(a, b) => json!({"k": 6, "s": [hs(a), hs(b)]}),
        Det::Res(a, b, c, e) => json!({"k": 7, "s": [hs(a), hs(b), hs(c), hs(e)]}),
        Det::Help(v) => json!({"k": 8, "v": pairs(v)}),
        Det::Loc(a, b) => json!({"k": 9, "s": [hs(a), hs(b)]}),
    }
}
fn det_from_json(v: &Value) -> Det {
    let pairs = |x: &Value| -> Vec<(String, String)> { x.as_array().unwrap().iter().map(|p| (unhs(&p[0]), unhs(&p[1]))).collect() };
    match v["k"].as_u64().unwrap() {
        0 => Det::Retry {
            delay: if v["delay"].is_null() { None } else { Some((v["delay"][0].as_str().unwrap().parse().unwrap(), v["delay"][1].as_u64().unwrap() as u32)) },
            via_new: v["via_new"].as_bool().unwrap(),
        },
        1 => Det::Debug(v["stack"].as_array().unwrap().iter().map(unhs).collect(), unhs(&v["detail"])),
        2 => Det::Quota(pairs(&v["v"])),
        3 => Det::Info(unhs(&v["reason"]), unhs(&v["domain"]), pairs(&v["md"])),
        4 => Det::Prec(v["v"].as_array().unwrap().iter().map(|p| (unhs(&p[0]), unhs(&p[1]), unhs(&p[2]))).collect()),
        5 => Det::Bad(pairs(&v["v"])),
        6 => Det::Req(unhs(&v["s"][0]), unhs(&v["s"][1])),
        7 => Det::Res(unhs(&v["s"][0]), unhs(&v["s"][1]), unhs(&v["s"][2]), unhs(&v["s"][3])),
        8 => Det::Help(pairs(&v["v"])),
        _ => Det::Loc(unhs(&v["s"][0]), unhs(&v["s"][1])),
    }
}
fn md_json(md: &[(String, Vec<u8>)]) -> Value {
    Value::Array(md.iter().map(|(k, v)| json!([k, hex(v)])).collect())
}
fn md_from_json(v: &Value) -> Vec<(String, Vec<u8>)> {
    v.as_array().unwrap().iter().map(|e| (e[0].as_str().unwrap().to_string(), unhex(e[1].as_str().unwrap()))).collect()
}

// ------------------------------------------------------------------ kinds: set, vec
fn size_bucket(n: usize) -> &'static str {
    match n {
        0 => "0",
        1..=127 => "1-127",
        128..=16383 => "128-16383",
        _ => ">=16384",
    }
}
fn finish_attached(out: &mut Out, kind: String, input: Value, model: String, code: u32, msg: &str, list: &[Det], md: &[(String, Vec<u8>)], st: Result<Status, String>) {
    let (obs, oracle) = match st {
        Err(p) => (panicked(), Some(format!("panic while attaching the details: {}", p))),
        Ok(st) => {
            let (t, back, why) = via_headers(&st);
            out.hist("attached.details_bytes", size_bucket(st.details().len()));
            let own = md.iter().find(|(k, _)| k == DETAILS_BIN).map(|(_, v)| v.clone());
            let oracle = match (&back, why) {
                (_, Some(w)) => Some(w),
                // no exception for a grpc-status-details-bin entry of the caller's own (F-C04e, fixed by
                // ed827503): with something attached it is replaced by the attached details, with
                // nothing at all attached (empty details bytes) the header is removed - in ALL cases the
                // details read back are the status's own and the getters see exactly what was attached
                (Some((b, d)), None) => {
                    if own.is_some() {
                        out.hist(
                            "attached.own_details_entry",
                            if st.details().is_empty() { "dropped, no details read back (nothing attached: the F-C04e shape)" } else { "replaced by the attached details" },
                        );
                    }
                    judge(code, msg, list, md, b, d, st.details())
                }
                (None, None) => Some("no status".into()),
            };
            (t, oracle)
        }
    };
    out.hist("attached.count", list.len());
    out.hist("attached.metadata_entries", md.len());
    out.hist("attached.present_but_empty", list.iter().filter(|d| is_empty_det(d)).count());
    for d in list {
        out.hist("attached.kind", d.kind());
    }
    out.push(Case { kind, input, model, impl_obs: obs, oracle, nontrivial: !list.is_empty() });
}
fn case_set(out: &mut Out, prefix: &str, code: u32, msg: &str, ds: &[Option<Det>; 10], style: u64, md: &[(String, Vec<u8>)]) {
    let mdm = md_map(md);
    let mdh = mdm.clone().into_headers();
    let mut lit = String::new();
    let st = catch(AssertUnwindSafe(|| {
        let (ed, l) = build_set(ds, style);
        lit = l;
        if md.is_empty() && style & (1 << 20) != 0 {
            Status::with_error_details(Code::from_i32(code as i32), msg, ed)
        } else {
            Status::with_error_details_and_metadata(Code::from_i32(code as i32), msg, ed, mdm)
        }
    }));
    let list: Vec<Det> = ds.iter().flatten().map(|d| match d {
        // inside ErrorDetails a RetryInfo is always built by RetryInfo::new
        Det::Retry { delay, .. } => Det::Retry { delay: *delay, via_new: true },
        x => x.clone(),
    }).collect();
    let model = format!("obs_set {} {} {} {}", code, cs(msg), lit, coq_hm(&mdh));
    let input = json!({"code": code, "msg": hs(msg), "set": ds.iter().map(|d| d.as_ref().map(det_json)).collect::<Vec<_>>(), "style": style, "md": md_json(md)});
    finish_attached(out, format!("{}set", prefix), input, model, code, msg, &list, md, st);
}
fn case_vec(out: &mut Out, prefix: &str, code: u32, msg: &str, ds: &[Det], md: &[(String, Vec<u8>)], plain: bool) {
    let mdm = md_map(md);
    let mdh = mdm.clone().into_headers();
    let mut lits = vec![];
    let st = catch(AssertUnwindSafe(|| {
        let mut v = vec![];
        for d in ds {
            let (e, l, _) = build(d);
            v.push(e);
            lits.push(l);
        }
        if md.is_empty() && plain {
            Status::with_error_details_vec(Code::from_i32(code as i32), msg, v)
        } else {
            Status::with_error_details_vec_and_metadata(Code::from_i32(code as i32), msg, v, mdm)
        }
    }));
    let model = format!("obs_vec {} {} [{}] {}", code, cs(msg), lits.join(";"), coq_hm(&mdh));
    let input = json!({"code": code, "msg": hs(msg), "vec": ds.iter().map(det_json).collect::<Vec<_>>(), "plain": plain, "md": md_json(md)});
    let judged = ds.iter().all(in_range);
    let kind = if judged { format!("{}vec", prefix) } else { format!("{}vec.out_of_range", prefix) };
    finish_attached(out, kind, input, model, code, msg, ds, md, st);
}

// ------------------------------------------------------------------ kind: built
/// One call of the public builder API of ErrorDetails (error_details/mod.rs); the first call of a
/// sequence may be made as the corresponding `ErrorDetails::with_*` constructor.
#[derive(Clone, Debug)]
enum Op {
    SetRetry(Option<(u64, u32)>),
    SetDebug(Vec<String>, String),
    SetQuota(Vec<(String, String)>),
    AddQuota(String, String),
    SetInfo(String, String, Vec<(String, String)>),
    SetPrec(Vec<(String, String, String)>),
    AddPrec(String, String, String),
    SetBad(Vec<(String, String)>),
    AddBad(String, String),
    SetReq(String, String),
    SetRes(String, String, String, String),
    SetHelp(Vec<(String, String)>),
    AddHelp(String, String),
    SetLoc(String, String),
}
fn gen_op(r: &mut Rng) -> Op {
    let k = r.below(10) as usize;
    let add = r.chance(1, 2);
    match (gen_det(r, k, false), add) {
        (Det::Retry { delay, .. }, _) => Op::SetRetry(delay),
        (Det::Debug(a, b), _) => Op::SetDebug(a, b),
        (Det::Quota(_), true) => Op::AddQuota(gen_string(r), gen_string(r)),
        (Det::Quota(v), false) => Op::SetQuota(v),
        (Det::Info(a, b, m), _) => Op::SetInfo(a, b, m),
        (Det::Prec(_), true) => Op::AddPrec(gen_string(r), gen_string(r), gen_string(r)),
        (Det::Prec(v), false) => Op::SetPrec(v),
        (Det::Bad(_), true) => Op::AddBad(gen_string(r), gen_string(r)),
        (Det::Bad(v), false) => Op::SetBad(v),
        (Det::Req(a, b), _) => Op::SetReq(a, b),
        (Det::Res(a, b, c, e), _) => Op::SetRes(a, b, c, e),
        (Det::Help(_), true) => Op::AddHelp(gen_string(r), gen_string(r)),
        (Det::Help(v), false) => Op::SetHelp(v),
        (Det::Loc(a, b), _) => Op::SetLoc(a, b),
    }
}
/// the real call; returns the Gallina literal of the operation (an ErrorInfo map is listed in the
/// iteration order of the very instance that is handed over)
fn apply_op(ed: &mut ErrorDetails, op: &Op, as_with: bool) -> String {
    let qv = |v: &Vec<(String, String)>| v.iter().map(|(a, b)| QuotaViolation::new(a.clone(), b.clone())).collect::<Vec<_>>();
    let pv = |v: &Vec<(String, String, String)>| v.iter().map(|(a, b, c)| PreconditionViolation::new(a.clone(), b.clone(), c.clone())).collect::<Vec<_>>();
    let fv = |v: &Vec<(String, String)>| v.iter().map(|(a, b)| FieldViolation::new(a.clone(), b.clone())).collect::<Vec<_>>();
    let hl = |v: &Vec<(String, String)>| v.iter().map(|(a, b)| HelpLink::new(a.clone(), b.clone())).collect::<Vec<_>>();
    match op {
        Op::SetRetry(d) => {
            if as_with { *ed = ErrorDetails::with_retry_info(dur(d)) } else { ed.set_retry_info(dur(d)); }
            format!("BSetRetryInfo {}", coq_dur(d))
        }
        Op::SetDebug(a, b) => {
            if as_with { *ed = ErrorDetails::with_debug_info(a.clone(), b.clone()) } else { ed.set_debug_info(a.clone(), b.clone()); }
            format!("BSetDebugInfo {} {}", coq_list(a, |s| cs(s)), cs(b))
        }
        Op::SetQuota(v) => {
            if as_with { *ed = ErrorDetails::with_quota_failure(qv(v)) } else { ed.set_quota_failure(qv(v)); }
            format!("BSetQuotaFailure {}", coq_list(v, |(a, b)| format!("(mkQuotaViolation {} {})", cs(a), cs(b))))
        }
        Op::AddQuota(a, b) => {
            if as_with { *ed = ErrorDetails::with_quota_failure_violation(a.clone(), b.clone()) } else { ed.add_quota_failure_violation(a.clone(), b.clone()); }
            format!("BAddQuotaFailureViolation {} {}", cs(a), cs(b))
        }
        Op::SetInfo(a, b, pairs) => {
            let map: HashMap<String, String> = pairs.iter().cloned().collect();
            let order: Vec<(String, String)> = map.iter().map(|(k, v)| (k.clone(), v.clone())).collect();
            if as_with { *ed = ErrorDetails::with_error_info(a.clone(), b.clone(), map) } else { ed.set_error_info(a.clone(), b.clone(), map); }
            format!("BSetErrorInfo {} {} {}", cs(a), cs(b), coq_list(&order, |(k, v)| format!("({},{})", cs(k), cs(v))))
        }
        Op::SetPrec(v) => {
            if as_with { *ed = ErrorDetails::with_precondition_failure(pv(v)) } else { ed.set_precondition_failure(pv(v)); }
            format!("BSetPreconditionFailure {}", coq_list(v, |(a, b, c)| format!("(mkPreconditionViolation {} {} {})", cs(a), cs(b), cs(c))))
        }
        Op::AddPrec(a, b, c) => {
            if as_with { *ed = ErrorDetails::with_precondition_failure_violation(a.clone(), b.clone(), c.clone()) } else { ed.add_precondition_failure_violation(a.clone(), b.clone(), c.clone()); }
            format!("BAddPreconditionFailureViolation {} {} {}", cs(a), cs(b), cs(c))
        }
        Op::SetBad(v) => {
            if as_with { *ed = ErrorDetails::with_bad_request(fv(v)) } else { ed.set_bad_request(fv(v)); }
            format!("BSetBadRequest {}", coq_list(v, |(a, b)| format!("(mkFieldViolation {} {})", cs(a), cs(b))))
        }
        Op::AddBad(a, b) => {
            if as_with { *ed = ErrorDetails::with_bad_request_violation(a.clone(), b.clone()) } else { ed.add_bad_request_violation(a.clone(), b.clone()); }
            format!("BAddBadRequestViolation {} {}", cs(a), cs(b))
        }
        Op::SetReq(a, b) => {
            if as_with { *ed = ErrorDetails::with_request_info(a.clone(), b.clone()) } else { ed.set_request_info(a.clone(), b.clone()); }
            format!("BSetRequestInfo {} {}", cs(a), cs(b))
        }
        Op::SetRes(a, b, c, e) => {
            if as_with { *ed = ErrorDetails::with_resource_info(a.clone(), b.clone(), c.clone(), e.clone()) } else { ed.set_resource_info(a.clone(), b.clone(), c.clone(), e.clone()); }
            format!("BSetResourceInfo {} {} {} {}", cs(a), cs(b), cs(c), cs(e))
        }
        Op::SetHelp(v) => {
            if as_with { *ed = ErrorDetails::with_help(hl(v)) } else { ed.set_help(hl(v)); }
            format!("BSetHelp {}", coq_list(v, |(a, b)| format!("(mkHelpLink {} {})", cs(a), cs(b))))
        }
        Op::AddHelp(a, b) => {
            if as_with { *ed = ErrorDetails::with_help_link(a.clone(), b.clone()) } else { ed.add_help_link(a.clone(), b.clone()); }
            format!("BAddHelpLink {} {}", cs(a), cs(b))
        }
        Op::SetLoc(a, b) => {
            if as_with { *ed = ErrorDetails::with_localized_message(a.clone(), b.clone()) } else { ed.set_localized_message(a.clone(), b.clone()); }
            format!("BSetLocalizedMessage {} {}", cs(a), cs(b))
        }
    }
}
/// what the documentation of the builder methods promises, on the harness's own description:
/// `set_*` replaces the detail, `add_*` appends to its list or starts it
fn simulate(ops: &[Op]) -> [Option<Det>; 10] {
    let mut slots = NONE10;
    for op in ops {
        match op.clone() {
            Op::SetRetry(d) => slots[0] = Some(Det::Retry { delay: d, via_new: true }),
            Op::SetDebug(a, b) => slots[1] = Some(Det::Debug(a, b)),
            Op::SetQuota(v) => slots[2] = Some(Det::Quota(v)),
            Op::AddQuota(a, b) => match &mut slots[2] {
                Some(Det::Quota(v)) => v.push((a, b)),
                _ => slots[2] = Some(Det::Quota(vec![(a, b)])),
            },
            Op::SetInfo(a, b, m) => slots[3] = Some(Det::Info(a, b, m)),
            Op::SetPrec(v) => slots[4] = Some(Det::Prec(v)),
            Op::AddPrec(a, b, c) => match &mut slots[4] {
                Some(Det::Prec(v)) => v.push((a, b, c)),
                _ => slots[4] = Some(Det::Prec(vec![(a, b, c)])),
            },
            Op::SetBad(v) => slots[5] = Some(Det::Bad(v)),
            Op::AddBad(a, b) => match &mut slots[5] {
                Some(Det::Bad(v)) => v.push((a, b)),
                _ => slots[5] = Some(Det::Bad(vec![(a, b)])),
            },
            Op::SetReq(a, b) => slots[6] = Some(Det::Req(a, b)),
            Op::SetRes(a, b, c, e) => slots[7] = Some(Det::Res(a, b, c, e)),
            Op::SetHelp(v) => slots[8] = Some(Det::Help(v)),
            Op::AddHelp(a, b) => match &mut slots[8] {
                Some(Det::Help(v)) => v.push((a, b)),
                _ => slots[8] = Some(Det::Help(vec![(a, b)])),
            },
            Op::SetLoc(a, b) => slots[9] = Some(Det::Loc(a, b)),
        }
    }
    slots
}
fn op_json(op: &Op) -> Value {
    let pairs = |v: &Vec<(String, String)>| Value::Array(v.iter().map(|(a, b)| json!([hs(a), hs(b)])).collect());
    match op {
        Op::SetRetry(d) => json!({"op": "set_retry_info", "delay": d.map(|(s, n)| json!([s.to_string(), n]))}),
        Op::SetDebug(a, b) => json!({"op": "set_debug_info", "stack": a.iter().map(|s| hs(s)).collect::<Vec<_>>(), "detail": hs(b)}),
        Op::SetQuota(v) => json!({"op": "set_quota_failure", "v": pairs(v)}),
        Op::AddQuota(a, b) => json!({"op": "add_quota_failure_violation", "s": [hs(a), hs(b)]}),
        Op::SetInfo(a, b, m) => json!({"op": "set_error_info", "s": [hs(a), hs(b)], "md": pairs(m)}),
        Op::SetPrec(v) => json!({"op": "set_precondition_failure", "v": v.iter().map(|(a, b, c)| json!([hs(a), hs(b), hs(c)])).collect::<Vec<_>>()}),
        Op::AddPrec(a, b, c) => json!({"op": "add_precondition_failure_violation", "s": [hs(a), hs(b), hs(c)]}),
        Op::SetBad(v) => json!({"op": "set_bad_request", "v": pairs(v)}),
        Op::AddBad(a, b) => json!({"op": "add_bad_request_violation", "s": [hs(a), hs(b)]}),
        Op::SetReq(a, b) => json!({"op": "set_request_info", "s": [hs(a), hs(b)]}),
        Op::SetRes(a, b, c, e) => json!({"op": "set_resource_info", "s": [hs(a), hs(b), hs(c), hs(e)]}),
        Op::SetHelp(v) => json!({"op": "set_help", "v": pairs(v)}),
        Op::AddHelp(a, b) => json!({"op": "add_help_link", "s": [hs(a), hs(b)]}),
        Op::SetLoc(a, b) => json!({"op": "set_localized_message", "s": [hs(a), hs(b)]}),
    }
}
fn op_from_json(v: &Value) -> Op {
    let pairs = |x: &Value| -> Vec<(String, String)> { x.as_array().unwrap().iter().map(|p| (unhs(&p[0]), unhs(&p[1]))).collect() };
    let s = |i: usize| unhs(&v["s"][i]);
    match v["op"].as_str().unwrap() {
        "set_retry_info" => Op::SetRetry(if v["delay"].is_null() { None } else { Some((v["delay"][0].as_str().unwrap().parse().unwrap(), v["delay"][1].as_u64().unwrap() as u32)) }),
        "set_debug_info" => Op::SetDebug(v["stack"].as_array().unwrap().iter().map(unhs).collect(), unhs(&v["detail"])),
        "set_quota_failure" => Op::SetQuota(pairs(&v["v"])),
        "add_quota_failure_violation" => Op::AddQuota(s(0), s(1)),
        "set_error_info" => Op::SetInfo(s(0), s(1), pairs(&v["md"])),
        "set_precondition_failure" => Op::SetPrec(v["v"].as_array().unwrap().iter().map(|p| (unhs(&p[0]), unhs(&p[1]), unhs(&p[2]))).collect()),
        "add_precondition_failure_violation" => Op::AddPrec(s(0), s(1), s(2)),
        "set_bad_request" => Op::SetBad(pairs(&v["v"])),
        "add_bad_request_violation" => Op::AddBad(s(0), s(1)),
        "set_request_info" => Op::SetReq(s(0), s(1)),
        "set_resource_info" => Op::SetRes(s(0), s(1), s(2), s(3)),
        "set_help" => Op::SetHelp(pairs(&v["v"])),
        "add_help_link" => Op::AddHelp(s(0), s(1)),
        _ => Op::SetLoc(s(0), s(1)),
    }
}
fn case_built(out: &mut Out, prefix: &str, code: u32, msg: &str, ops: &[Op], first_as_with: bool, md: &[(String, Vec<u8>)]) {
    let mdm = md_map(md);
    let mdh = mdm.clone().into_headers();
    let mut lits: Vec<String> = vec![];
    let mut has = vec![];
    let st = catch(AssertUnwindSafe(|| {
        let mut ed = ErrorDetails::new();
        for (i, op) in ops.iter().enumerate() {
            lits.push(format!("({})", apply_op(&mut ed, op, i == 0 && first_as_with)));
        }
        has = vec![ed.has_quota_failure_violations(), ed.has_precondition_failure_violations(), ed.has_bad_request_violations(), ed.has_help_links()];
        Status::with_error_details_and_metadata(Code::from_i32(code as i32), msg, ed, mdm)
    }));
    let slots = simulate(ops);
    let list: Vec<Det> = slots.iter().flatten().cloned().collect();
    let model = format!("obs_built {} {} [{}] {}", code, cs(msg), lits.join(";"), coq_hm(&mdh));
    let input = json!({"code": code, "msg": hs(msg), "ops": ops.iter().map(op_json).collect::<Vec<_>>(), "first_as_with": first_as_with, "md": md_json(md)});
    let want_has: Vec<bool> = [2usize, 4, 5, 8].iter().map(|k| match &slots[*k] {
        Some(Det::Quota(v)) | Some(Det::Bad(v)) | Some(Det::Help(v)) => !v.is_empty(),
        Some(Det::Prec(v)) => !v.is_empty(),
        _ => false,
    }).collect();
    out.hist("built.ops", ops.len());
    let has_tr = Tr::L(has.iter().map(|b| Tr::bool(*b)).collect());
    let (obs, oracle) = match st {
        Err(p) => (Tr::L(vec![has_tr, panicked()]), Some(format!("panic while building / attaching the details: {}", p))),
        Ok(st) => {
            let (t, back, why) = via_headers(&st);
            let oracle = match (&back, why) {
                (_, Some(w)) => Some(w),
                (Some((b, d)), None) => {
                    if has != want_has {
                        Some("has_*_violations / has_help_links do not say whether the built detail has entries".into())
                    } else if st.details().is_empty() && md.iter().any(|(k, _)| k == DETAILS_BIN) {
                        None // the observation judged in the kinds set / vec
                    } else {
                        judge(code, msg, &list, md, b, d, st.details())
                    }
                }
                (None, None) => Some("no status".into()),
            };
            (Tr::L(vec![has_tr, t]), oracle)
        }
    };
    out.push(Case { kind: format!("{}built", prefix), input, model, impl_obs: obs, oracle, nontrivial: !ops.is_empty() });
}

// ------------------------------------------------------------------ the oracle for the decode side
/// Arbitrary bytes as details.  (1) never a panic; (2) undecodable gives an error from the check_*
/// functions and an empty result from the get_* functions, a successful check_* is what get_* returns;
/// (3) by the independent decoder of wire.rs, wherever the encoding specification decides the reading:
/// the embedded google.rpc.Status (code, message, type URLs), the ordered list, the set (last of a
/// kind), every get_details_* (first of its kind that decodes), with all field values.
fn judge_decode(d: &Decoded, details: &[u8]) -> Option<String> {
    let empty_set = ok(Tr::L(vec![Tr::opt(None); 10]));
    let empty_vec = ok(Tr::L(vec![]));
    if !d.panics.is_empty() {
        return Some(format!("panic: {}", d.panics[0]));
    }
    if let Some(w) = &d.rpc_ext {
        return Some(w.clone());
    }
    if d.check == err() && d.get != empty_set {
        return Some("check_error_details is Err but get_error_details is not empty".into());
    }
    if d.check_vec == err() && d.get_vec != empty_vec {
        return Some("check_error_details_vec is Err but get_error_details_vec is not empty".into());
    }
    if d.check != err() && d.check != d.get {
        return Some("get_error_details differs from a successful check_error_details".into());
    }
    if d.check_vec != err() && d.check_vec != d.get_vec {
        return Some("get_error_details_vec differs from a successful check_error_details_vec".into());
    }
    if d.embedded == err() && (d.check != err() || d.check_vec != err() || d.getters.iter().any(|g| *g != ok(Tr::opt(None)))) {
        return Some("google.rpc.Status undecodable but some getter produced details".into());
    }
    // --- the independent reading
    let e = wire::expect(details);
    match &e.embedded {
        None => return None,
        Some(None) => {
            if d.embedded != err() {
                return Some("independent decoder: the bytes are not a well-formed google.rpc.Status, yet it was decoded".into());
            }
            // (the clauses above then force Err / empty / None everywhere)
            return None;
        }
        Some(Some((code, msg, urls))) => {
            let want = ok(Tr::L(vec![Tr::n(*code), pb(msg), Tr::L(urls.iter().map(|u| url_tr(u)).collect())]));
            if d.embedded != want {
                return Some("independent decoder: embedded google.rpc.Status read with another code / message / list of type URLs".into());
            }
        }
    }
    match &e.vec {
        None => {}
        Some(None) => {
            if d.check_vec != err() || d.check != err() {
                return Some("independent decoder: a detail payload with a standard type URL is malformed, yet check_error_details[_vec] succeeded".into());
            }
        }
        Some(Some(list)) => {
            if d.check_vec != ok(Tr::L(list.clone())) {
                return Some("independent decoder: check_error_details_vec differs from the details the bytes encode (kinds / order / field values)".into());
            }
            let mut slots: Vec<Tr> = vec![Tr::opt(None); 10];
            for t in list {
                if let Tr::L(v) = t {
                    if let Some(Tr::N(k)) = v.first() {
                        slots[*k as usize] = Tr::opt(Some(t.clone()));
                    }
                }
            }
            if d.check != ok(Tr::L(slots)) {
                return Some("independent decoder: check_error_details differs from the last detail of each kind the bytes encode".into());
            }
        }
    }
    for k in 0..10 {
        if let Some(g) = &e.getters[k] {
            if d.getters[k] != ok(Tr::opt(g.clone())) {
                return Some(format!("independent decoder: get_details getter {} is not the first detail of its kind that decodes", k));
            }
        }
    }
    None
}

// ------------------------------------------------------------------ kind: hostile
fn case_hostile(out: &mut Out, prefix: &str, code: u32, msg: &str, details: &[u8], direct: bool, family: &str) {
    let st = Status::with_details(Code::from_i32(code as i32), msg, Bytes::copy_from_slice(details));
    let (obs, d, mut oracle) = if direct {
        let d = decode_all(&st);
        (d.tr(), Some(d), None)
    } else {
        let (t, back, why) = via_headers(&st);
        (t, back.map(|x| x.1), why)
    };
    let model = if direct {
        format!("obs_hostile_direct {}", cb(details))
    } else {
        format!("obs_hostile {} {} {}", code, cs(msg), cb(details))
    };
    let mut decodable = false;
    if let Some(d) = &d {
        if let Some(w) = judge_decode(d, details) {
            oracle = Some(w);
        }
        decodable = d.check != err();
        let e = wire::expect(details);
        out.hist("hostile.independent_verdict", match (&e.embedded, &e.vec) {
            (None, _) => format!("not claimed: {}", e.why_unsure.unwrap_or("?")),
            (Some(None), _) => "malformed".to_string(),
            (Some(Some(_)), None) => format!("status read, a payload not claimed: {}", e.why_unsure.unwrap_or("?")),
            (Some(Some(_)), Some(None)) => "status read, a payload malformed".to_string(),
            (Some(Some(_)), Some(Some(_))) => "status and payloads read".to_string(),
        });
    }
    out.hist("hostile.family", family);
    out.hist("hostile.len", size_bucket(details.len()));
    out.hist("hostile.check_ok", decodable);
    out.push(Case {
        kind: format!("{}hostile", prefix),
        input: json!({"code": code, "msg": hs(msg), "details": hex(details), "direct": direct, "family": family}),
        model,
        impl_obs: obs,
        oracle,
        nontrivial: !details.is_empty(),
    });
}

// (the protobuf writer used for structured hostile input is wire.rs: put_varint, put_key, put_len)
const VARINTS: &[u64] = &[
    0, 1, 2, 16, 17, 127, 128, 255, 300, 16_383, 16_384, (1 << 31) - 1, 1 << 31, (1 << 32) - 1, 1 << 32, (1 << 32) + 5,
    999_999_999, 1_000_000_000, PB_MAX_SECS, (1 << 63) - 1, 1 << 63, (1 << 63) + 1, u64::MAX - 1, u64::MAX,
    (-1_000_000_000i64) as u64, (-999_999_999i64) as u64, (-1i64) as u64, (-5i64) as u64, i32::MIN as i64 as u64,
    i32::MIN as u32 as u64, i32::MAX as u64,
];
const BAD_STRS: &[&[u8]] = &[b"\xff", b"\xc3", b"\xc0\xaf", b"\xed\xa0\x80", b"\xf4\x90\x80\x80", b"a\x80", b"\xe2\x82"];
fn gen_text(r: &mut Rng) -> Vec<u8> {
    if r.chance(1, 7) {
        r.pick(BAD_STRS).to_vec()
    } else {
        gen_string(r).into_bytes()
    }
}
/// random fields over small tags: every wire type, repeated singular fields, nested messages,
/// groups (balanced or not), truncated lengths
fn gen_fields(r: &mut Rng, depth: u32, out: &mut Vec<u8>) {
    let n = match r.below(8) {
        0 => 0,
        1..=4 => r.range(1, 3),
        _ => r.range(4, 7),
    };
    for _ in 0..n {
        let tag = match r.below(12) {
            0..=3 => 1,
            4..=6 => 2,
            7 | 8 => 3,
            9 => 4,
            10 => r.range(5, 20) as u32,
            _ => *r.pick(&[0u32, 1 << 28, (1 << 29) - 1, 1000]),
        };
        match r.below(16) {
            0..=5 => {
                // length-delimited: text or a nested message
                if depth > 0 && r.chance(1, 2) {
                    let mut inner = vec![];
                    gen_fields(r, depth - 1, &mut inner);
                    ld(tag, &inner, out);
                } else {
                    ld(tag, &gen_text(r), out);
                }
            }
            6..=8 => {
                key(tag, 0, out);
                if r.chance(1, 6) {
                    varint_padded(*r.pick(VARINTS) & 0xffff, r.range(3, 10) as usize, out);
                } else {
                    varint(*r.pick(VARINTS), out);
                }
            }
            9 => {
                key(tag, 1, out);
                out.extend(r.bytes(8));
            }
            10 => {
                key(tag, 5, out);
                out.extend(r.bytes(4));
            }
            11 | 12 => {
                // a group
                key(tag, 3, out);
                if depth > 0 {
                    gen_fields(r, depth - 1, out);
                }
                if r.chance(5, 6) {
                    key(if r.chance(7, 8) { tag } else { tag + 1 }, 4, out);
                }
            }
            13 => key(tag, 4, out),
            14 => {
                // length that overruns
                key(tag, 2, out);
                varint(r.range(1, 40), out);
                out.extend(rbytes(r, 0, 3));
            }
            _ => {
                // wire types 6, 7
                varint(((tag as u64) << 3) | r.range(6, 7), out);
            }
        }
    }
}
fn gen_duration_msg(r: &mut Rng) -> Vec<u8> {
    const S: &[i64] = &[i64::MIN, i64::MIN + 1, i64::MIN + 2, -(PB_MAX_SECS as i64) - 1, -5, -1, 0, 1, 5, PB_MAX_SECS as i64, i64::MAX - 2, i64::MAX - 1, i64::MAX];
    const N: &[i64] = &[i32::MIN as i64, -2_000_000_000, -1_000_000_001, -1_000_000_000, -999_999_999, -1, 0, 1, 999_999_999, 1_000_000_000, 1_000_000_001, 2_000_000_000, i32::MAX as i64, (1 << 32) + 5, 1 << 31];
    let mut d = vec![];
    let reps = if r.chance(1, 8) { 2 } else { 1 };
    for _ in 0..reps {
        if r.chance(5, 6) {
            key(1, 0, &mut d);
            varint(*r.pick(S) as u64, &mut d);
        }
        if r.chance(5, 6) {
            key(2, 0, &mut d);
            varint(*r.pick(N) as u64, &mut d);
        }
    }
    d
}
fn valid_payload(d: &Det) -> Vec<u8> {
    let (e, _, _) = build(d);
    let st = Status::with_error_details_vec(Code::Unknown, "", vec![e]);
    pb::Status::decode(st.details()).unwrap().details.remove(0).value
}
fn mutate(r: &mut Rng, b: &mut Vec<u8>) {
    for _ in 0..r.range(1, 3) {
        if b.is_empty() {
            b.push(r.next() as u8);
            continue;
        }
        let i = r.below(b.len() as u64) as usize;
        match r.below(7) {
            0 => b[i] ^= 1 << r.below(8),
            1 => b[i] = r.next() as u8,
            2 => {
                b.remove(i);
            }
            3 => b.insert(i, r.next() as u8),
            4 => b.truncate(i),
            5 => {
                let j = r.range(i as u64, b.len() as u64) as usize;
                let seg: Vec<u8> = b[i..j].to_vec();
                let at = r.below(b.len() as u64 + 1) as usize;
                for (k, x) in seg.into_iter().enumerate() {
                    b.insert(at + k, x);
                }
            }
            _ => b[i] = *r.pick(&[0u8, 0x7f, 0x80, 0xff, 0x0a, 0x12, 0x1a, 0x0b, 0x0c]),
        }
    }
}
/// a google.rpc.Status whose details mix valid, foreign, mutated and random payloads
fn gen_hostile_status(r: &mut Rng) -> (Vec<u8>, &'static str) {
    let mut out = vec![];
    let mut family = "structured";
    if r.chance(3, 4) {
        key(1, 0, &mut out);
        varint(if r.chance(2, 3) { r.below(17) } else { *r.pick(VARINTS) }, &mut out);
    }
    if r.chance(1, 2) {
        ld(2, &gen_text(r), &mut out);
    }
    let n = gen_count(r);
    for _ in 0..n {
        let k = r.below(10) as usize;
        let url: Vec<u8> = match r.below(12) {
            0 => b"type.googleapis.com/google.rpc.Unknown".to_vec(),
            1 => URLS[k][..URLS[k].len() - 1].as_bytes().to_vec(),
            2 => format!("{} ", URLS[k]).into_bytes(),
            3 => vec![],
            4 => b"\xff\xfe".to_vec(),
            // well-formed UTF-8 type URLs that are NOT the standard ones but share their length
            // and prefix structure, with multi-byte characters at every offset (a reader that
            // slices the URL at a fixed byte position - prefix length, '/', '.' - must not panic)
            5 => {
                let base = URLS[k];
                let at = r.below(base.len() as u64) as usize;
                let mut u = String::new();
                for (i, c) in base.chars().enumerate() {
                    if i == at { u.push(*r.pick(&['\u{e9}', '\u{2024}', '\u{20ac}', '\u{1f600}'])); } else { u.push(c); }
                }
                u.into_bytes()
            }
            6 => {
                let c = *r.pick(&['\u{e9}', '\u{44f}', '\u{20ac}', '\u{1f600}']);
                std::iter::repeat(c).take(r.range(1, 40) as usize).collect::<String>().into_bytes()
            }
            7 => {
                let cut = r.below(URLS[k].len() as u64 + 1) as usize;
                let mut u = URLS[k][..cut].to_string();
                u.push_str(&"\u{20ac}".repeat(r.range(1, 100) as usize));
                u.into_bytes()
            }
            _ => URLS[k].as_bytes().to_vec(),
        };
        let value: Vec<u8> = match if k == 0 && r.chance(1, 3) { 7 } else { r.below(10) } {
            0..=2 => valid_payload(&gen_det(r, k, false)),
            3 => { let k2 = r.below(10) as usize; valid_payload(&gen_det(r, k2, false)) },
            4 | 5 => {
                let mut v = valid_payload(&gen_det(r, k, false));
                mutate(r, &mut v);
                v
            }
            6 => rbytes(r, 0, 12),
            7 if k == 0 => {
                let mut v = vec![];
                for _ in 0..r.range(1, 2) {
                    ld(1, &gen_duration_msg(r), &mut v);
                }
                family = "duration";
                v
            }
            _ => {
                let mut v = vec![];
                gen_fields(r, 2, &mut v);
                v
            }
        };
        let mut a = vec![];
        if !url.is_empty() || r.chance(1, 2) {
            ld(1, &url, &mut a);
        }
        if r.chance(1, 10) {
            gen_fields(r, 1, &mut a);
        }
        ld(2, &value, &mut a);
        if r.chance(1, 12) {
            // repeated singular field inside Any: the last one wins
            ld(2, &valid_payload(&gen_det(r, k, false)), &mut a);
        }
        ld(3, &a, &mut out);
        if r.chance(1, 10) {
            gen_fields(r, 1, &mut out);
        }
    }
    (out, family)
}
fn nested_groups(tag: u32, depth: usize, inner: &[u8]) -> Vec<u8> {
    let mut v = vec![];
    for _ in 0..depth {
        key(tag, 3, &mut v);
    }
    v.extend_from_slice(inner);
    for _ in 0..depth {
        key(tag, 4, &mut v);
    }
    v
}
fn any_bytes(url: &str, value: &[u8]) -> Vec<u8> {
    let mut a = vec![];
    ld(1, url.as_bytes(), &mut a);
    ld(2, value, &mut a);
    let mut out = vec![];
    ld(3, &a, &mut out);
    out
}

// ------------------------------------------------------------------ kind: wire
// Details bytes written by the harness's own writer (wire.rs) from a description of the details -
// tonic-types' encoder is not in the loop - using the liberties the encoding specification gives a
// writer: fields in any order (elements of one repeated field keep their order), defaults written
// explicitly or omitted, a singular field written twice (the last one counts), a singular message
// written in two parts (they merge), non-minimal varints, unknown fields of every wire type in
// between.  What StatusExt reads must be exactly the described details.

/// one occurrence of a field: (field number, the bytes of key and value)
type Em = (u32, Vec<u8>);
fn em_len(tag: u32, payload: &[u8]) -> Em {
    let mut b = vec![];
    ld(tag, payload, &mut b);
    (tag, b)
}
fn em_int(r: &mut Rng, tag: u32, v: u64) -> Em {
    let mut b = vec![];
    key(tag, 0, &mut b);
    if r.chance(1, 5) {
        varint_padded(v, r.range(2, 10) as usize, &mut b);
    } else {
        varint(v, &mut b);
    }
    (tag, b)
}
/// a singular string / bytes field: omitted or explicit when empty, sometimes preceded by an
/// occurrence that does not count
fn em_str(r: &mut Rng, tag: u32, s: &[u8], out: &mut Vec<Em>) {
    if r.chance(1, 10) {
        out.push(em_len(tag, gen_string(r).as_bytes()));
    } else if s.is_empty() && r.chance(2, 3) {
        return;
    }
    out.push(em_len(tag, s));
}
fn em_unknown(r: &mut Rng, out: &mut Vec<Em>) {
    let tag = *r.pick(&[16u32, 17, 31, 100, 2047, 2048, (1 << 29) - 1]);
    let mut b = vec![];
    match r.below(4) {
        0 => {
            key(tag, 0, &mut b);
            varint(*r.pick(VARINTS), &mut b);
        }
        1 => {
            key(tag, 1, &mut b);
            b.extend(r.bytes(8));
        }
        2 => {
            key(tag, 5, &mut b);
            b.extend(r.bytes(4));
        }
        _ => ld(tag, &rbytes(r, 0, 6), &mut b),
    }
    out.push((tag, b));
}
/// the occurrences in a random order that keeps the occurrences of one field number in theirs
fn lay_out(r: &mut Rng, mut ems: Vec<Em>) -> Vec<u8> {
    for _ in 0..(if r.chance(1, 4) { r.range(1, 2) } else { 0 }) {
        em_unknown(r, &mut ems);
    }
    let mut order: Vec<u32> = ems.iter().map(|e| e.0).collect();
    if r.chance(2, 3) {
        for i in (1..order.len()).rev() {
            let j = r.below(i as u64 + 1) as usize;
            order.swap(i, j);
        }
    }
    let mut out = vec![];
    let mut used = vec![false; ems.len()];
    for t in order {
        let i = (0..ems.len()).find(|i| !used[*i] && ems[*i].0 == t).unwrap();
        used[i] = true;
        out.extend_from_slice(&ems[i].1);
    }
    out
}
fn ind_row(r: &mut Rng, cols: &[&String]) -> Vec<u8> {
    let mut ems = vec![];
    for (i, c) in cols.iter().enumerate() {
        em_str(r, i as u32 + 1, c.as_bytes(), &mut ems);
    }
    lay_out(r, ems)
}
/// the payload of one detail, field numbers of google/rpc/error_details.proto
fn ind_payload(r: &mut Rng, d: &Det) -> Vec<u8> {
    let mut ems: Vec<Em> = vec![];
    match d {
        Det::Retry { delay, .. } => {
            if let Some((s, n)) = delay {
                // google.protobuf.Duration { seconds = 1; nanos = 2 }
                let mut whole = vec![];
                let sec = |r: &mut Rng, v: u64| em_int(r, 1, v);
                let nan = |r: &mut Rng, v: u64| em_int(r, 2, v);
                match r.below(4) {
                    0 => {
                        // in two parts: they merge
                        let mut a = vec![];
                        if *s != 0 || r.chance(1, 2) {
                            a.push(sec(r, *s));
                        }
                        ems.push(em_len(1, &lay_out(r, a)));
                        let mut b = vec![];
                        if *n != 0 || r.chance(1, 2) {
                            b.push(nan(r, *n as u64));
                        }
                        ems.push(em_len(1, &lay_out(r, b)));
                    }
                    1 => {
                        // a first part that is overwritten field by field
                        let decoy = vec![em_int(r, 1, 77), em_int(r, 2, 5)];
                        ems.push(em_len(1, &lay_out(r, decoy)));
                        let real = vec![sec(r, *s), nan(r, *n as u64)];
                        ems.push(em_len(1, &lay_out(r, real)));
                    }
                    _ => {
                        if *s != 0 || r.chance(1, 3) {
                            whole.push(sec(r, *s));
                        }
                        if *n != 0 || r.chance(1, 3) {
                            whole.push(nan(r, *n as u64));
                        }
                        ems.push(em_len(1, &lay_out(r, whole)));
                    }
                }
            }
        }
        Det::Debug(stack, detail) => {
            for e in stack {
                ems.push(em_len(1, e.as_bytes()));
            }
            em_str(r, 2, detail.as_bytes(), &mut ems);
        }
        Det::Quota(v) | Det::Bad(v) | Det::Help(v) => {
            for (a, b) in v {
                ems.push(em_len(1, &ind_row(r, &[a, b])));
            }
        }
        Det::Prec(v) => {
            for (a, b, c) in v {
                ems.push(em_len(1, &ind_row(r, &[a, b, c])));
            }
        }
        Det::Info(reason, domain, pairs) => {
            em_str(r, 1, reason.as_bytes(), &mut ems);
            em_str(r, 2, domain.as_bytes(), &mut ems);
            for (k, v) in pairs {
                if r.chance(1, 8) {
                    // the same key earlier with another value: the later entry counts
                    let other = gen_string(r);
                    ems.push(em_len(3, &ind_row(r, &[k, &other])));
                }
                ems.push(em_len(3, &ind_row(r, &[k, v])));
            }
        }
        Det::Req(a, b) | Det::Loc(a, b) => {
            em_str(r, 1, a.as_bytes(), &mut ems);
            em_str(r, 2, b.as_bytes(), &mut ems);
        }
        Det::Res(a, b, c, e) => {
            em_str(r, 1, a.as_bytes(), &mut ems);
            em_str(r, 2, b.as_bytes(), &mut ems);
            em_str(r, 3, c.as_bytes(), &mut ems);
            em_str(r, 4, e.as_bytes(), &mut ems);
        }
    }
    lay_out(r, ems)
}
/// google.rpc.Status { code = 1; message = 2; details = 3 } with one google.protobuf.Any
/// { type_url = 1; value = 2 } per detail
fn ind_status(r: &mut Rng, code: i32, msg: &str, ds: &[Det]) -> Vec<u8> {
    let mut ems: Vec<Em> = vec![];
    let decoy = r.chance(1, 10);
    if decoy {
        ems.push(em_int(r, 1, 9));
    }
    if code != 0 || decoy || r.chance(1, 3) {
        ems.push(em_int(r, 1, code as i64 as u64));
    }
    em_str(r, 2, msg.as_bytes(), &mut ems);
    for d in ds {
        let mut any = vec![];
        em_str(r, 1, URLS[d.kind()].as_bytes(), &mut any);
        let p = ind_payload(r, d);
        if r.chance(1, 10) {
            any.push(em_len(2, &rbytes(r, 0, 5)));
        }
        any.push(em_len(2, &p));
        ems.push(em_len(3, &lay_out(r, any)));
    }
    lay_out(r, ems)
}
fn case_wire(out: &mut Out, prefix: &str, r: &mut Rng, code: i32, msg: &str, ds: &[Det], direct: bool) {
    let bytes = ind_status(r, code, msg, ds);
    case_wire_bytes(out, prefix, code, msg, ds, &bytes, direct);
}
fn case_wire_bytes(out: &mut Out, prefix: &str, code: i32, msg: &str, ds: &[Det], bytes: &[u8], direct: bool) {
    let outer = if direct { 2 } else { (code as u32).min(16) };
    let st = Status::with_details(Code::from_i32(outer as i32), msg, Bytes::copy_from_slice(bytes));
    let (obs, d, mut oracle) = if direct {
        let d = decode_all(&st);
        (d.tr(), Some(d), None)
    } else {
        let (t, back, why) = via_headers(&st);
        (t, back.map(|x| x.1), why)
    };
    let model = if direct { format!("obs_hostile_direct {}", cb(bytes)) } else { format!("obs_hostile {} {} {}", outer, cs(msg), cb(bytes)) };
    if let Some(d) = &d {
        let exp: Vec<Tr> = ds.iter().map(expected).collect();
        let e = wire::expect(bytes);
        oracle = oracle.or_else(|| judge_decode(d, bytes)).or_else(|| {
            if d.check_vec != ok(Tr::L(exp.clone())) {
                Some("bytes written from a description of the details by an independent encoder: check_error_details_vec reads other details (kinds / order / field values)".into())
            } else if d.embedded != ok(Tr::L(vec![Tr::n(code as u32), ps(msg), Tr::L(ds.iter().map(|d| Tr::n(d.kind() as u64)).collect())])) {
                Some("bytes written by an independent encoder: the embedded google.rpc.Status is read with another code / message / type URLs".into())
            } else if e.vec != Some(Some(exp)) {
                Some("harness: the independent decoder does not read back what the independent encoder wrote".into())
            } else {
                None
            }
        });
    }
    out.hist("wire.count", ds.len());
    out.hist("wire.len", size_bucket(bytes.len()));
    out.push(Case {
        kind: format!("{}wire", prefix),
        input: json!({"code": code, "msg": hs(msg), "vec": ds.iter().map(det_json).collect::<Vec<_>>(), "details": hex(bytes), "direct": direct}),
        model,
        impl_obs: obs,
        oracle,
        nontrivial: !ds.is_empty(),
    });
}

// ------------------------------------------------------------------ corpus
fn s(x: &str) -> String {
    x.to_string()
}
fn full_set() -> [Option<Det>; 10] {
    [
        Some(Det::Retry { delay: Some((5, 0)), via_new: true }),
        Some(Det::Debug(vec![s("trace3"), s("trace2"), s("trace1")], s("details"))),
        Some(Det::Quota(vec![(s("clientip:<ip address>"), s("description"))])),
        Some(Det::Info(s("SOME_INFO"), s("example.local"), vec![(s("limitPerRequest"), s("100"))])),
        Some(Det::Prec(vec![(s("TOS"), s("example.local"), s("description"))])),
        Some(Det::Bad(vec![(s("field"), s("description"))])),
        Some(Det::Req(s("request-id"), s("some-request-data"))),
        Some(Det::Res(s("resource-type"), s("resource-name"), s("owner"), s("description"))),
        Some(Det::Help(vec![(s("link to resource"), s("resource.example.local"))])),
        Some(Det::Loc(s("en-US"), s("message for the user"))),
    ]
}
const NONE10: [Option<Det>; 10] = [None, None, None, None, None, None, None, None, None, None];
fn corpus(out: &mut Out) {
    let p = "corpus.";
    // --- F-C20a (fixed by 8e72956b): a RetryInfo whose delay normalises to i64::MIN seconds made
    //     every getter panic ("attempt to negate with overflow")
    for (sec, nan) in [(i64::MIN, 0i64), (i64::MIN + 1, -1_000_000_000), (i64::MIN, i32::MIN as i64), (i64::MIN, -999_999_999), (i64::MIN + 2, -2_000_000_000)] {
        let mut d = vec![];
        key(1, 0, &mut d);
        varint(sec as u64, &mut d);
        if nan != 0 {
            key(2, 0, &mut d);
            varint(nan as u64, &mut d);
        }
        let mut ri = vec![];
        ld(1, &d, &mut ri);
        let mut b = vec![0x08, 0x03, 0x12, 0x01, 0x6d];
        b.extend(any_bytes(URLS[0], &ri));
        case_hostile(out, p, 3, "m", &b, false, "F-C20a");
        case_hostile(out, p, 3, "m", &b, true, "F-C20a");
    }
    // other duration boundaries on the decode side
    for (sec, nan) in [(-5i64, 0i64), (0, -5), (i64::MIN, 5), (i64::MAX, i32::MAX as i64), (i64::MAX, 1_000_000_000), (i64::MAX - 1, 1_999_999_999), (-1, 1_000_000_000), (-1, 999_999_999), (1, -1), (1, -1_000_000_000), (0, 0), (0, (1 << 32) + 7), (5, 1 << 31)] {
        let mut d = vec![];
        key(1, 0, &mut d);
        varint(sec as u64, &mut d);
        key(2, 0, &mut d);
        varint(nan as u64, &mut d);
        let mut ri = vec![];
        ld(1, &d, &mut ri);
        case_hostile(out, p, 2, "", &any_bytes(URLS[0], &ri), true, "duration");
    }
    // two retry_delay fields are merged field by field; an empty one keeps the first
    {
        let mut ri = vec![];
        ld(1, &[0x08, 0x07], &mut ri);
        ld(1, &[0x10, 0x09], &mut ri);
        ld(1, &[], &mut ri);
        case_hostile(out, p, 2, "", &any_bytes(URLS[0], &ri), true, "merge");
    }
    // map field: the wire type of the key is ignored by prost's hash_map::merge
    for v in [&[0x18u8, 0x00][..], &[0x1d, 0x00], &[0x19, 0x04, 0x0a, 0x01, 0x6b, 0x00], &[0x1b, 0x00], &[0x1c, 0x00], &[0x1a, 0x00], &[0x1a, 0x03, 0x12, 0x01, 0x76], &[0x1a, 0x02, 0x08, 0x01], &[0x1a, 0x05, 0x0a, 0x01, 0x6b, 0x0a, 0x00]] {
        case_hostile(out, p, 2, "", &any_bytes(URLS[3], v), true, "map");
    }
    // duplicate map keys: last wins
    {
        let mut v = vec![];
        ld(3, &[0x0a, 0x01, 0x6b, 0x12, 0x01, 0x31], &mut v);
        ld(3, &[0x0a, 0x01, 0x6a, 0x12, 0x01, 0x32], &mut v);
        ld(3, &[0x0a, 0x01, 0x6b, 0x12, 0x01, 0x33], &mut v);
        case_hostile(out, p, 2, "", &any_bytes(URLS[3], &v), true, "map");
    }
    // recursion limit of skip_field: nested groups in an unknown field
    for depth in [1usize, 2, 98, 99, 100, 101, 102, 150] {
        case_hostile(out, p, 2, "", &nested_groups(9, depth, &[]), true, "groups");
        case_hostile(out, p, 2, "", &nested_groups(9, depth, &[0x08, 0x01]), true, "groups");
        let mut a = vec![];
        ld(1, URLS[6].as_bytes(), &mut a);
        a.extend(nested_groups(7, depth, &[]));
        let mut b = vec![];
        ld(3, &a, &mut b);
        case_hostile(out, p, 2, "", &b, true, "groups");
        case_hostile(out, p, 2, "", &any_bytes(URLS[6], &nested_groups(7, depth, &[])), true, "groups");
        let mut viol = nested_groups(7, depth, &[]);
        ld(1, b"s", &mut viol);
        let mut q = vec![];
        ld(1, &viol, &mut q);
        case_hostile(out, p, 2, "", &any_bytes(URLS[2], &q), true, "groups");
    }
    // varints: ten bytes, overflow, non-minimal, truncated
    for v in [
        &[0x08u8, 0xff, 0xff, 0xff, 0xff, 0xff, 0xff, 0xff, 0xff, 0xff, 0x01][..],
        &[0x08, 0xff, 0xff, 0xff, 0xff, 0xff, 0xff, 0xff, 0xff, 0xff, 0x02],
        &[0x08, 0xff, 0xff, 0xff, 0xff, 0xff, 0xff, 0xff, 0xff, 0xff, 0x81, 0x00],
        &[0x08, 0x80, 0x80, 0x80, 0x80, 0x80, 0x80, 0x80, 0x80, 0x80, 0x00],
        &[0x08, 0x83, 0x80, 0x00],
        &[0x08, 0x80],
        &[0x08],
        &[0x88, 0x80, 0x80, 0x80, 0x10, 0x01],
        &[0x88, 0x80, 0x80, 0x80, 0x0f, 0x01],
        &[0x00, 0x01],
        &[0x0e, 0x01],
        &[0x0f],
        &[0x0c],
        &[0x0a, 0x01, 0x61],
        &[0x12, 0x02, 0xc3, 0x28],
        &[0x12, 0x7f],
        &[0x15, 1, 2, 3, 4],
        &[0x11, 1, 2, 3, 4, 5, 6, 7, 8],
        &[0x1a, 0x02, 0x0a, 0x05],
        &[0x1a, 0x04, 0x0a, 0x01, 0x78, 0x12],
        &[0x08, 0x03, 0x08, 0x05, 0x12, 0x01, 0x61, 0x12, 0x01, 0x62],
        &[],
    ] {
        case_hostile(out, p, 2, "", v, true, "wire");
        case_hostile(out, p, 13, "é", v, false, "wire");
    }
    // repeated kinds: last wins in the set view, first in the getters; an undecodable first entry
    {
        let mut b = vec![];
        b.extend(any_bytes(URLS[9], &[0x0a, 0x01, 0x31]));
        b.extend(any_bytes(URLS[9], &[0x0a, 0x01, 0xff]));
        case_hostile(out, p, 2, "", &b, true, "dup");
        let mut b = vec![];
        b.extend(any_bytes(URLS[9], &[0x0a, 0x01, 0xff]));
        b.extend(any_bytes("type.googleapis.com/google.rpc.Unknown", &[0xff, 0xff]));
        b.extend(any_bytes(URLS[9], &[0x0a, 0x01, 0x32]));
        case_hostile(out, p, 2, "", &b, true, "dup");
    }

    // --- attached details
    case_set(out, p, 3, "error with bad request details", &full_set(), 0, &[]);
    case_set(out, p, 3, "error with bad request details", &full_set(), u64::MAX, &[]);
    case_vec(out, p, 3, "error with bad request details", &full_set().into_iter().flatten().collect::<Vec<_>>(), &[], true);
    case_set(out, p, 0, "", &NONE10, 1 << 20, &[]);
    case_vec(out, p, 0, "", &[], &[], true);
    for c in 0..17 {
        case_vec(out, p, c, "m", &[Det::Loc(s("en"), s("x"))], &[], false);
    }
    // every kind alone with default (empty) content
    let empties = [
        Det::Retry { delay: None, via_new: true },
        Det::Debug(vec![], s("")),
        Det::Quota(vec![]),
        Det::Info(s(""), s(""), vec![]),
        Det::Prec(vec![]),
        Det::Bad(vec![]),
        Det::Req(s(""), s("")),
        Det::Res(s(""), s(""), s(""), s("")),
        Det::Help(vec![]),
        Det::Loc(s(""), s("")),
    ];
    for (i, d) in empties.iter().enumerate() {
        let mut one = NONE10;
        one[i] = Some(d.clone());
        case_set(out, p, 5, "", &one, 0, &[]);
        case_vec(out, p, 5, "", &[d.clone()], &[], true);
    }
    case_vec(out, p, 5, "", &empties, &[], true);
    // all ten present but empty, as a set (both builder styles) and next to user metadata
    {
        let mut all: [Option<Det>; 10] = NONE10;
        for (i, d) in empties.iter().enumerate() {
            all[i] = Some(d.clone());
        }
        case_set(out, p, 5, "", &all, 0, &[]);
        case_set(out, p, 5, "", &all, u64::MAX, &[]);
        case_set(out, p, 0, "", &all, 3, &[(s("x-a"), b"1".to_vec())]);
        case_vec(out, p, 5, "e", &[Det::Retry { delay: None, via_new: false }, Det::Bad(vec![]), Det::Retry { delay: None, via_new: true }], &[], false);
    }
    // user metadata: repeated names keep their order, binary values, reserved names are not sent
    {
        let md = vec![
            (s("x-a"), b"first".to_vec()), (s("x-payload-bin"), vec![0, 255, 7]), (s("x-a"), b"second".to_vec()),
            (s("grpc-message"), b"forged".to_vec()), (s("te"), b"trailers".to_vec()), (s("x-a"), b"".to_vec()),
            (s("x-payload-bin"), vec![]),
        ];
        case_set(out, p, 3, "md", &full_set(), 0, &md);
        case_vec(out, p, 3, "md", &[Det::Loc(s("en"), s("x"))], &md, false);
        case_vec(out, p, 0, "", &[], &md, false);
        case_set(out, p, 0, "", &NONE10, 0, &md);
    }
    // the caller's own grpc-status-details-bin entry in the metadata: replaced by the attached details;
    // when nothing at all is attached (empty details bytes) the header is removed and NO details are
    // read back (F-C04e, fixed by ed827503; before the fix the entry travelled as the details)
    {
        let own = any_bytes(URLS[9], &[0x0a, 0x02, 0x65, 0x6e, 0x12, 0x01, 0x78]);
        let md = vec![(s("x-a"), b"1".to_vec()), (s(DETAILS_BIN), own.clone()), (s(DETAILS_BIN), vec![0xff, 0xff])];
        case_set(out, p, 3, "own", &full_set(), 0, &md);
        case_vec(out, p, 0, "", &[Det::Req(s("id"), s(""))], &md, false);
        case_vec(out, p, 1, "", &[], &md, false);
        case_vec(out, p, 0, "m", &[], &md, false);
        case_vec(out, p, 0, "", &[], &md, false);
        case_set(out, p, 0, "", &NONE10, 0, &md);
        case_set(out, p, 0, "", &NONE10, 0, &[(s(DETAILS_BIN), vec![0xff, 0xff]), (s(DETAILS_BIN), own)]);
    }
    // the builder API: add after set, set after add, add on an unset detail, every with_* constructor
    {
        let q = |a: &str, b: &str| Op::AddQuota(s(a), s(b));
        case_built(out, p, 3, "b", &[], false, &[]);
        case_built(out, p, 3, "b", &[q("s1", "d1")], true, &[]);
        case_built(out, p, 3, "b", &[q("s1", "d1"), q("s2", "d2"), Op::SetQuota(vec![]), q("s3", "")], false, &[]);
        case_built(out, p, 3, "b", &[Op::SetQuota(vec![(s("a"), s("b"))]), q("s2", "d2"), Op::SetQuota(vec![])], true, &[]);
        let all = vec![
            Op::SetRetry(Some((u64::MAX, 5))), Op::SetDebug(vec![s("e")], s("d")), Op::SetQuota(vec![(s("a"), s("b"))]), Op::AddQuota(s("c"), s("d")),
            Op::SetInfo(s("r"), s("d"), vec![(s("k"), s("v"))]), Op::SetPrec(vec![]), Op::AddPrec(s("t"), s("s"), s("d")), Op::SetBad(vec![(s("f"), s("d"))]),
            Op::AddBad(s("f2"), s("")), Op::SetReq(s("i"), s("")), Op::SetRes(s("t"), s("n"), s("o"), s("d")), Op::SetHelp(vec![]), Op::AddHelp(s("d"), s("u")),
            Op::SetLoc(s("en"), s("m")),
        ];
        case_built(out, p, 3, "b", &all, false, &[(s("x-a"), b"1".to_vec())]);
        for op in &all {
            case_built(out, p, 5, "", &[op.clone()], true, &[]);
            case_built(out, p, 5, "", &[op.clone(), op.clone()], false, &[]);
        }
    }
    // boundary durations
    for (sec, nan) in [(0u64, 0u32), (0, 1), (0, 999_999_999), (1, 0), (PB_MAX_SECS, 0), (PB_MAX_SECS, 999_999_999), (PB_MAX_SECS - 1, 999_999_999), (127, 128), (1 << 35, 16_384)] {
        let mut one = NONE10;
        one[0] = Some(Det::Retry { delay: Some((sec, nan)), via_new: true });
        case_set(out, p, 14, "retry", &one, 1, &[]);
        case_vec(out, p, 14, "retry", &[Det::Retry { delay: Some((sec, nan)), via_new: false }], &[], true);
    }
    // outside the protobuf range: RetryInfo::new clamps, a struct literal goes through as it is
    // up to i64::MAX seconds and is replaced by the maximum above
    for (sec, nan) in [(PB_MAX_SECS + 1, 0u32), (1 << 40, 5), (i64::MAX as u64, 999_999_999), (i64::MAX as u64 + 1, 0), (u64::MAX, 999_999_999)] {
        let mut one = NONE10;
        one[0] = Some(Det::Retry { delay: Some((sec, nan)), via_new: true });
        case_set(out, p, 14, "retry", &one, 0, &[]);
        case_vec(out, p, 14, "retry", &[Det::Retry { delay: Some((sec, nan)), via_new: true }], &[], true);
        case_vec(out, p, 14, "retry", &[Det::Retry { delay: Some((sec, nan)), via_new: false }], &[], true);
    }
    // repeated kinds in a list
    case_vec(
        out, p, 9, "dup",
        &[Det::Loc(s("en"), s("one")), Det::Req(s("r"), s("")), Det::Loc(s("de"), s("zwei")), Det::Retry { delay: Some((1, 2)), via_new: true }, Det::Retry { delay: None, via_new: false }, Det::Loc(s(""), s(""))],
        &[], true,
    );
    // length prefixes of two and three bytes
    case_vec(out, p, 2, "", &[Det::Loc(s("en"), "a".repeat(127)), Det::Loc(s("en"), "a".repeat(128)), Det::Debug(vec!["b".repeat(200); 3], "c".repeat(300))], &[], true);
    case_vec(out, p, 2, &"m".repeat(200), &[Det::Res("r".repeat(20_000), s("n"), s(""), s("d"))], &[], true);
    // metadata map: empty key, empty value, unicode, several entries
    case_vec(out, p, 2, "", &[Det::Info(s("R"), s("d"), vec![(s(""), s("")), (s("k"), s("")), (s(""), s("v"))][..1].to_vec())], &[], true);
    case_vec(out, p, 2, "", &[Det::Info(s(""), s(""), vec![(s("k"), s("")), (s("é"), s("語")), (s("a"), s("1")), (s("ab"), s("2")), (s("b"), s("3")), (s(""), s("empty key"))])], &[], true);
    // user metadata next to the details
    case_set(out, p, 3, "with md", &full_set(), 5, &[(s("x-a"), b"v".to_vec()), (s("x-payload-bin"), vec![0, 255])]);
}

// ------------------------------------------------------------------ replay of one stored case
fn replay(out: &mut Out, path: &str) {
    let v: Value = serde_json::from_str(&std::fs::read_to_string(path).unwrap()).unwrap();
    let kind = v["kind"].as_str().unwrap_or("");
    let i = &v["input"];
    let code = i["code"].as_u64().unwrap_or(2) as u32;
    let msg = unhs(&i["msg"]);
    if kind.ends_with("built") {
        let ops: Vec<Op> = i["ops"].as_array().unwrap().iter().map(op_from_json).collect();
        case_built(out, "replay.", code, &msg, &ops, i["first_as_with"].as_bool().unwrap_or(false), &md_from_json(&i["md"]));
    } else if kind.ends_with("wire") {
        let ds: Vec<Det> = i["vec"].as_array().unwrap().iter().map(det_from_json).collect();
        case_wire_bytes(out, "replay.", i["code"].as_i64().unwrap_or(2) as i32, &msg, &ds, &unhex(i["details"].as_str().unwrap()), i["direct"].as_bool().unwrap_or(true));
    } else if kind.ends_with("hostile") {
        case_hostile(out, "replay.", code, &msg, &unhex(i["details"].as_str().unwrap()), i["direct"].as_bool().unwrap_or(true), "replay");
    } else if kind.ends_with("set") {
        let mut ds = NONE10;
        for (k, d) in i["set"].as_array().unwrap().iter().enumerate() {
            if !d.is_null() {
                ds[k] = Some(det_from_json(d));
            }
        }
        case_set(out, "replay.", code, &msg, &ds, i["style"].as_u64().unwrap_or(0), &md_from_json(&i["md"]));
    } else {
        let ds: Vec<Det> = i["vec"].as_array().unwrap().iter().map(det_from_json).collect();
        case_vec(out, "replay.", code, &msg, &ds, &md_from_json(&i["md"]), i["plain"].as_bool().unwrap_or(true));
    }
}

const RULE: &str = "set: random ErrorDetails built through the public builders (set_*/add_*/with_*), each of the ten kinds present with probability 1/2, strings over a unicode/empty/long alphabet, 0..7 violations/links/stack entries/metadata pairs, delays None/0/max/sub-second within the protobuf range, attached with Status::with_error_details[_and_metadata], written with add_header, read with from_header_map, decoded with every getter of StatusExt (and of RpcStatusExt on the decoded pb::Status); half of the cases carry user metadata (repeated, binary and reserved names; one in five of those also one or two grpc-status-details-bin entries of the caller's own, a third of which with nothing attached at all - judged like every other case: the entry never travels, the details read back are the status's own, F-C04e fixed by ed827503) whose arrival is observed and judged; one detail in six is present-but-empty on purpose (None delay, no violations/links, empty strings and maps); vec: the same for random Vec<ErrorDetail> of length 0..8 with repeated kinds (vec.out_of_range: literal RetryInfo delays beyond the protobuf range - judged strictly: unchanged up to i64::MAX seconds, the documented maximum above); built: 0..9 random calls of ErrorDetails::set_*/add_* (adds in runs, sets after adds), the first possibly as the with_* constructor, has_* queries observed, expectation from the harness's own simulation of set = replace / add = append-or-start; every attached case is also read by the independent protobuf reader of wire.rs (code, message, type URLs, field values of every payload); wire: details bytes written from a description of 0..6 details by the harness's own writer with the liberties of the encoding specification (field order, explicit defaults, overwritten singular fields, split singular messages, non-minimal varints, unknown fields, codes outside 0..16), read by StatusExt and judged against the description; hostile: arbitrary bytes as details - random bytes, mutated valid encodings, structured google.rpc.Status with valid/foreign/mutated/random payloads, unknown and near-miss type URLs, Duration boundaries, repeated fields, groups, bad UTF-8, non-minimal and overflowing varints, half of them through the header encoding, judged by no-panic + consistency + the independent reader wherever the specification decides the reading. Non-trivial = at least one detail attached / one builder call / non-empty bytes. Distinct = distinct (kind, model expression).";

fn main() {
    let a = args();
    let mut out = Out::new(&a.out);
    if let Some(p) = &a.replay {
        replay(&mut out, p);
        out.finish(IMPORTS, RULE, json!({"replay": p}));
        return;
    }
    let mut r = Rng::new(a.seed);
    corpus(&mut out);

    // rounds of 1 set, 1 vec, 5 hostile cases, so that every shard of the model evaluation
    // gets the same mix
    let rounds = if a.thorough { 4000 } else { 450 };
    for round in 0..rounds {
        {
            let mut ds = NONE10;
            let dense = r.chance(1, 8);
            for k in 0..10 {
                if dense || r.chance(1, 3) {
                    ds[k] = Some(gen_det(&mut r, k, false));
                }
            }
            let code = r.below(17) as u32;
            let msg = if r.chance(1, 4) { String::new() } else { gen_string(&mut r) };
            let style = r.next();
            let md = gen_md(&mut r);
            if md.iter().any(|(k, _)| k == DETAILS_BIN) && r.chance(1, 3) {
                case_set(&mut out, "", 0, "", &NONE10, style, &md);
            } else {
                case_set(&mut out, "", code, &msg, &ds, style, &md);
            }
        }
        {
            let n = match r.below(10) {
                0 => 0,
                1..=4 => r.range(1, 2),
                5..=8 => r.range(3, 5),
                _ => r.range(6, 8),
            };
            let oor = r.chance(1, 12);
            let ds: Vec<Det> = (0..n)
                .map(|_| {
                    let k = if r.chance(1, 5) { 0 } else { r.below(10) as usize };
                    gen_det(&mut r, k, oor && k == 0)
                })
                .collect();
            let code = r.below(17) as u32;
            let msg = if r.chance(1, 4) { String::new() } else { gen_string(&mut r) };
            let md = gen_md(&mut r);
            let plain = r.chance(1, 2);
            if md.iter().any(|(k, _)| k == DETAILS_BIN) && r.chance(1, 3) {
                case_vec(&mut out, "", 0, "", &[], &md, plain);
            } else {
                case_vec(&mut out, "", code, &msg, &ds, &md, plain);
            }
        }
        if round % 2 == 0 {
            let n = match r.below(8) {
                0 => 0,
                1..=3 => r.range(1, 3),
                _ => r.range(4, 9),
            };
            let mut ops: Vec<Op> = vec![];
            for _ in 0..n {
                // adds tend to come in runs, and to follow a set of the same detail
                let op = match ops.last() {
                    Some(Op::AddQuota(..)) | Some(Op::SetQuota(..)) if r.chance(1, 2) => Op::AddQuota(gen_string(&mut r), gen_string(&mut r)),
                    Some(Op::AddPrec(..)) | Some(Op::SetPrec(..)) if r.chance(1, 2) => Op::AddPrec(gen_string(&mut r), gen_string(&mut r), gen_string(&mut r)),
                    Some(Op::AddBad(..)) | Some(Op::SetBad(..)) if r.chance(1, 2) => Op::AddBad(gen_string(&mut r), gen_string(&mut r)),
                    Some(Op::AddHelp(..)) | Some(Op::SetHelp(..)) if r.chance(1, 2) => Op::AddHelp(gen_string(&mut r), gen_string(&mut r)),
                    _ => gen_op(&mut r),
                };
                ops.push(op);
            }
            let code = r.below(17) as u32;
            let msg = if r.chance(1, 4) { String::new() } else { gen_string(&mut r) };
            let md = if r.chance(1, 3) { gen_md(&mut r) } else { vec![] };
            let first_as_with = r.chance(1, 2);
            case_built(&mut out, "", code, &msg, &ops, first_as_with, &md);
        }
        {
            let n = match r.below(10) {
                0 => 0,
                1..=5 => r.range(1, 2),
                _ => r.range(3, 6),
            };
            let ds: Vec<Det> = (0..n).map(|_| { let k = r.below(10) as usize; gen_det(&mut r, k, false) }).collect();
            let code = if r.chance(1, 12) { *r.pick(&[-1i32, 17, 255, i32::MAX, i32::MIN]) } else { r.below(17) as i32 };
            let msg = if r.chance(1, 3) { String::new() } else { gen_string(&mut r) };
            let direct = r.chance(1, 2);
            case_wire(&mut out, "", &mut r, code, &msg, &ds, direct);
        }
        for _ in 0..4 {
            let (bytes, family): (Vec<u8>, &str) = match r.below(12) {
                0 => (rbytes(&mut r, 0, 24), "random"),
                1 => {
                    let mut v = vec![];
                    gen_fields(&mut r, 2, &mut v);
                    (v, "fields")
                }
                2..=4 => {
                    // the implementation's own encoding, as it is or mutated
                    let n = r.range(1, 3);
                    let ds: Vec<ErrorDetail> = (0..n).map(|_| { let k2 = r.below(10) as usize; build(&gen_det(&mut r, k2, false)).0 }).collect();
                    let st = Status::with_error_details_vec(Code::from_i32(r.below(17) as i32), gen_string(&mut r), ds);
                    let mut b = st.details().to_vec();
                    if r.chance(1, 4) {
                        (b, "valid")
                    } else {
                        mutate(&mut r, &mut b);
                        (b, "mutated")
                    }
                }
                _ => gen_hostile_status(&mut r),
            };
            let direct = r.chance(1, 2);
            let code = r.below(17) as u32;
            let msg = if r.chance(1, 2) { String::new() } else { gen_string(&mut r) };
            case_hostile(&mut out, "", code, &msg, &bytes, direct, family);
        }
    }
    out.finish(IMPORTS, RULE, json!({}));
}
