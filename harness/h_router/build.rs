//! Fixture: REAL generated clients and servers, produced at build time by the code generator of
//! /repo (tonic_build::manual -> client::generate_internal / server::generate_internal).
//! Names are chosen so that one full service name is a strict prefix of another, with and
//! without a package, nested package, case variants and prefix-sharing method names.
use tonic_build::manual::{Method, Service};

fn m(name: &str, route: &str, cs: bool, ss: bool) -> Method {
    let mut b = Method::builder()
        .name(name)
        .route_name(route)
        .input_type("crate::Msg")
        .output_type("crate::Msg")
        .codec_path("crate::RawCodec");
    if cs {
        b = b.client_streaming();
    }
    if ss {
        b = b.server_streaming();
    }
    b.build()
}

fn main() {
    let out = std::path::PathBuf::from(std::env::var("OUT_DIR").unwrap());
    let services = vec![
        // "pkg.Svc": all four streaming kinds
        Service::builder()
            .name("Svc")
            .package("pkg")
            .method(m("get", "Get", false, false))
            .method(m("list", "List", false, true))
            .method(m("put", "Put", true, false))
            .method(m("chat", "Chat", true, true))
            .build(),
        // "pkg.SvcX": "pkg.Svc" is a strict prefix of this name; method names share prefixes
        Service::builder()
            .name("SvcX")
            .package("pkg")
            .method(m("get", "Get", false, false))
            .method(m("get_x", "GetX", false, false))
            .method(m("ge", "Ge", false, false))
            .build(),
        // "Svc": no package; case variants of one method name
        Service::builder()
            .name("Svc")
            .package("")
            .method(m("get", "Get", false, false))
            .method(m("get_lower", "get", false, false))
            .method(m("get_upper", "GET", false, true))
            .build(),
        // "pkg.Svc.Inner": nested package "pkg.Svc", extends the first name after a dot
        Service::builder()
            .name("Inner")
            .package("pkg.Svc")
            .method(m("get", "Get", true, true))
            .method(m("r#type", "type", false, false))
            .build(),
    ];
    // one file per service: "<package>.<name>.rs"
    tonic_build::manual::Builder::new()
        .build_transport(false)
        .out_dir(&out)
        .compile(&services);
    println!("cargo:rerun-if-changed=build.rs");
    println!("cargo:rerun-if-changed=/repo/tonic-build/src");
}
