//! Fixture: REAL generated clients and servers, produced at build time by the code generator of
//! /repo (tonic_build::manual -> client::generate_internal / server::generate_internal).
//! Names are chosen so that one full service name is a strict prefix of another, with and
//! without a package, nested package, case variants and prefix-sharing method names.
use tonic_build::manual::{Method, Service};

fn m(name: &str, route: &str, cs: bool, ss: bool) -> Method {
    let mut b = Method::builder()
        .name(name)
        .route_name(route)
        .input_type("crate::Msg")
        .output_type("crate::Msg")
        .codec_path("crate::RawCodec");
    if cs {
        b = b.client_streaming();
    }
    if ss {
        b = b.server_streaming();
    }
    b.build()
}

fn main() {
    let out = std::path::PathBuf::from(std::env::var("OUT_DIR").unwrap());
    let services = vec![
        // "pkg.Svc": all four streaming kinds
        Service::builder()
            .name("Svc")
            .package("pkg")
            .method(m("get", "Get", false, false))
            .method(m("list", "List", false, true))
            .method(m("put", "Put", true, false))
            .method(m("chat", "Chat", true, true))
            .build(),
        // "pkg.SvcX": "pkg.Svc" is a strict prefix of this name; method names share prefixes
        Service::builder()
            .name("SvcX")
            .package("pkg")
            .method(m("get", "Get", false, false))
            .method(m("get_x", "GetX", false, false))
            .method(m("ge", "Ge", false, false))
            .build(),
        // "Svc": no package; case variants of one method name
        Service::builder()
            .name("Svc")
            .package("")
            .method(m("get", "Get", false, false))
            .method(m("get_lower", "get", false, false))
            .method(m("get_upper", "GET", false, true))
            .build(),
        // "pkg.Svc.Inner": nested package "pkg.Svc", extends the first name after a dot
        Service::builder()
            .name("Inner")
            .package("pkg.Svc")
            .method(m("get", "Get", true, true))
            .method(m("r#type", "type", false, false))
            .build(),
    ];
    // one file per service: "<package>.<name>.rs"
    tonic_build::manual::Builder::new()
        .build_transport(false)
        .out_dir(&out)
        .compile(&services);
    id_fixture::generate(&out);
    println!("cargo:rerun-if-changed=build.rs");
    println!("cargo:rerun-if-changed=/repo/tonic-build/src");
}

/// C10 (added): services whose Rust type name (`Service::name()`, what prost-build renders in
/// UpperCamelCase) is NOT their proto identifier (`Service::identifier()`), generated through
/// `tonic_build::CodeGenBuilder::{generate_server, generate_client}` with our own implementations
/// of the `tonic_build::Service` / `tonic_build::Method` traits - tonic_build::manual cannot
/// express this (its name() == identifier()).  One file `id_<k>.rs` per entry; the table is
/// mirrored (by hand) in lib.rs `ID_FIXTURE`.
mod id_fixture {
    use proc_macro2::TokenStream;

    pub struct M {
        pub name: &'static str,
        pub ident: &'static str,
        pub cs: bool,
        pub ss: bool,
    }
    pub struct S {
        pub name: &'static str,
        pub package: &'static str,
        pub ident: &'static str,
        pub emit_package: bool,
        pub methods: Vec<M>,
    }
    impl tonic_build::Method for M {
        type Comment = String;
        fn name(&self) -> &str {
            self.name
        }
        fn identifier(&self) -> &str {
            self.ident
        }
        fn codec_path(&self) -> &str {
            "crate::RawCodec"
        }
        fn client_streaming(&self) -> bool {
            self.cs
        }
        fn server_streaming(&self) -> bool {
            self.ss
        }
        fn comment(&self) -> &[String] {
            &[]
        }
        fn request_response_name(&self, _proto_path: &str, _wkt: bool) -> (TokenStream, TokenStream) {
            ("crate::Msg".parse().unwrap(), "crate::Msg".parse().unwrap())
        }
    }
    impl tonic_build::Service for S {
        type Comment = String;
        type Method = M;
        fn name(&self) -> &str {
            self.name
        }
        fn package(&self) -> &str {
            self.package
        }
        fn identifier(&self) -> &str {
            self.ident
        }
        fn methods(&self) -> &[M] {
            &self.methods
        }
        fn comment(&self) -> &[String] {
            &[]
        }
    }
    fn m(name: &'static str, ident: &'static str, cs: bool, ss: bool) -> M {
        M { name, ident, cs, ss }
    }
    pub fn services() -> Vec<S> {
        vec![
            // 0: acronym: proto `service HTTPEcho` in package pkg -> Rust HttpEcho
            S { name: "HttpEcho", package: "pkg", ident: "HTTPEcho", emit_package: true,
                methods: vec![m("ping", "Ping", false, false), m("get_url", "GetURL", false, false), m("stream_v2", "Stream_V2", false, true)] },
            // 1: underscore: `service Echo_V2` -> EchoV2; a lower-case method identifier
            S { name: "EchoV2", package: "pkg", ident: "Echo_V2", emit_package: true,
                methods: vec![m("echo", "echo", false, false), m("echo_all", "EchoAll", true, true)] },
            // 2: lower-case, no package: `service greeter` -> Greeter
            S { name: "Greeter", package: "", ident: "greeter", emit_package: true,
                methods: vec![m("say_hello", "SayHello", false, false), m("say_hello_again", "sayHelloAgain", true, false)] },
            // 3: emit_package(false): the package must NOT appear in NAME, arms and client paths
            S { name: "HttpEcho", package: "hidden.pkg", ident: "HTTPEcho", emit_package: false,
                methods: vec![m("ping", "Ping", false, false)] },
            // 4: canonical name whose identifier IS the Rust spelling of entry 0
            S { name: "HttpEcho", package: "pkg", ident: "HttpEcho", emit_package: true,
                methods: vec![m("ping", "Ping", false, false), m("only_here", "OnlyHere", false, false)] },
            // 5: emit_package(false), identifier = the Rust spelling of entry 2
            S { name: "Greeter", package: "hidden.pkg", ident: "Greeter", emit_package: false,
                methods: vec![m("say_hello", "SayHello", false, false)] },
        ]
    }
    pub fn generate(out: &std::path::Path) {
        for (k, s) in services().iter().enumerate() {
            let mut b = tonic_build::CodeGenBuilder::new();
            b.emit_package(s.emit_package).build_transport(false);
            let client = b.generate_client(s, "");
            let server = b.generate_server(s, "");
            std::fs::write(out.join(format!("id_{}.rs", k)), format!("{}\n{}\n", client, server)).unwrap();
        }
    }
}
