//! C10 correspondence harness: real `tonic::service::Routes` (axum/matchit underneath) with
//!  * stub services (`NamedService` + `tower::Service`) whose `call` is a transcription of the
//!    generated one (match the raw path against "/NAME/Method" literals, default arm = 12), and
//!  * REAL generated servers: four built at compile time by /repo's generator (build.rs: names that
//!    are prefixes of one another, with / without package) and the three committed in /repo
//!    (health, reflection v1 + v1alpha).
//! Registration paths driven: Routes::default().add_service, Routes::new, RoutesBuilder::add_service
//! (&mut, as a builder), RoutesBuilder::from(Routes), prepare(), and
//! tonic::transport::Server::builder().add_service / add_optional_service(Some|None) +
//! transport Router::add_service / add_optional_service, served with serve_with_incoming over
//! tokio::io::duplex and driven by a raw h2 client.  NamedService::NAME reaches the router through
//! this harness' own `Wrap`, or through tonic's own propagation: InterceptedService::new(svc, f),
//! the generated XxxServer::with_interceptor(inner, f), and Layered (LayerExt::named_layer).
//! Every request is judged by a direct oracle (handler hit iff path == "/S/M" literally, else a
//! well-formed UNIMPLEMENTED response and no handler) and compared with `Model/Router.v` inside Coq.
use bytes::Bytes;
use h_router::{Rec, COMMITTED, FIXTURE};
use http::HeaderMap;
use serde_json::{json, Value};
use std::convert::Infallible;
use std::sync::{Arc, Mutex};
use tonic::body::Body;
use tonic::server::NamedService;
use tonic::service::interceptor::InterceptedService;
use tonic::service::{LayerExt, Routes, RoutesBuilder};
use tonic::transport::server::Router as TRouter;
use tonic::transport::Server;
use tower_service::Service;
use vcommon::body::spin;
use vcommon::*;

const IMPORTS: &str = "From Verif Require Import Lib.Bytes Lib.Obs Model.Router.";

// ------------------------------------------------------------------ stub services
/// `NamedService::NAME` is a const, so stubs are indexed by a const generic into this pool.
/// 0..N_MODEL are inside the modelled name space (no '/', '{', '}'), the rest make axum panic.
const STUB_NAMES: [&str; 30] = [
    "pkg.Svc", "pkg.SvcX", "Svc", "pkg.Svc.Inner", "pkg.Sv", "pkg", "pkg.svc", "PKG.SVC", "svc", "S",
    "Sv", "a", "a.b", "a.b.C", "a_b.C1", "grpc.health.v1.Health", "grpc.health.v1.Healt",
    "grpc.health.v1.HealthX", "x%2Fy", "a*b", "a:b", "", "\u{e9}", "a-b", "pkg.Svc.", ".Svc", "x", "x%2fy",
    "*a", ":a",
];
const N_MODEL: usize = 28;

type HitLog = Arc<Mutex<Vec<(String, String)>>>;
type ReachLog = Arc<Mutex<Vec<String>>>;

#[derive(Clone)]
struct Stub<const I: usize> {
    hits: HitLog,
    methods: Arc<Vec<String>>,
}
impl<const I: usize> NamedService for Stub<I> {
    const NAME: &'static str = STUB_NAMES[I];
}
impl<const I: usize> Service<http::Request<Body>> for Stub<I> {
    type Response = http::Response<Body>;
    type Error = Infallible;
    type Future = std::future::Ready<Result<Self::Response, Infallible>>;
    fn poll_ready(&mut self, _: &mut std::task::Context<'_>) -> std::task::Poll<Result<(), Infallible>> {
        std::task::Poll::Ready(Ok(()))
    }
    // transcription of the generated `call` (tonic-build/src/server.rs): literal arms, default arm
    fn call(&mut self, req: http::Request<Body>) -> Self::Future {
        let path = req.uri().path();
        for m in self.methods.iter() {
            if path == format!("/{}/{}", STUB_NAMES[I], m) {
                self.hits.lock().unwrap().push((STUB_NAMES[I].to_string(), m.clone()));
                return std::future::ready(Ok(http::Response::new(Body::default())));
            }
        }
        let mut response = http::Response::new(Body::default());
        let headers = response.headers_mut();
        headers.insert(tonic::Status::GRPC_STATUS, (tonic::Code::Unimplemented as i32).into());
        headers.insert(http::header::CONTENT_TYPE, tonic::metadata::GRPC_CONTENT_TYPE);
        std::future::ready(Ok(response))
    }
}

// ------------------------------------------------------------------ recorders
/// How::Plain: records that the service registered under `S::NAME` was reached, then delegates
#[derive(Clone)]
struct Wrap<S> {
    inner: S,
    reached: ReachLog,
}
impl<S: NamedService> NamedService for Wrap<S> {
    const NAME: &'static str = S::NAME;
}
impl<S> Service<http::Request<Body>> for Wrap<S>
where
    S: Service<http::Request<Body>, Response = http::Response<Body>, Error = Infallible> + NamedService,
{
    type Response = http::Response<Body>;
    type Error = Infallible;
    type Future = S::Future;
    fn poll_ready(&mut self, cx: &mut std::task::Context<'_>) -> std::task::Poll<Result<(), Infallible>> {
        self.inner.poll_ready(cx)
    }
    fn call(&mut self, req: http::Request<Body>) -> Self::Future {
        self.reached.lock().unwrap().push(S::NAME.to_string());
        self.inner.call(req)
    }
}
/// How::Intercepted / WithInterceptor: the interceptor records the name the harness EXPECTS the
/// wrapped service to be routed under; NamedService comes from tonic's InterceptedService impl
fn icpt(reached: ReachLog, name: &'static str) -> impl tonic::service::Interceptor + Clone + Send + Sync + 'static {
    move |req: tonic::Request<()>| {
        reached.lock().unwrap().push(name.to_string());
        Ok(req)
    }
}
/// How::Layered: a tower Layer whose service has NO NamedService impl; the name comes from
/// tonic's `Layered<_, S>` (LayerExt::named_layer)
#[derive(Clone)]
struct RecLayer {
    reached: ReachLog,
    name: &'static str,
}
#[derive(Clone)]
struct RecSvc<S> {
    inner: S,
    reached: ReachLog,
    name: &'static str,
}
impl<S> tower_layer::Layer<S> for RecLayer {
    type Service = RecSvc<S>;
    fn layer(&self, inner: S) -> RecSvc<S> {
        RecSvc { inner, reached: self.reached.clone(), name: self.name }
    }
}
impl<S, R> Service<R> for RecSvc<S>
where
    S: Service<R>,
{
    type Response = S::Response;
    type Error = S::Error;
    type Future = S::Future;
    fn poll_ready(&mut self, cx: &mut std::task::Context<'_>) -> std::task::Poll<Result<(), S::Error>> {
        self.inner.poll_ready(cx)
    }
    fn call(&mut self, req: R) -> Self::Future {
        self.reached.lock().unwrap().push(self.name.to_string());
        self.inner.call(req)
    }
}

// ------------------------------------------------------------------ registrations
#[derive(Clone, Debug, PartialEq)]
enum Kind {
    Stub { idx: usize, methods: Vec<String> },
    /// 0..4 = FIXTURE (generated at build time), 4.. = COMMITTED (health, reflection)
    Real(usize),
}
#[derive(Clone, Copy, Debug, PartialEq)]
enum How {
    Plain,
    Intercepted,
    WithInterceptor,
    Layered,
    /// GrpcWebLayer::new().layer(svc) = tonic_web::GrpcWebService<svc>: NAME by tonic-web's impl
    GrpcWeb,
    /// Stack(RecLayer, GrpcWebLayer).named_layer(svc): NAME by tonic's Layered around GrpcWebService
    GrpcWebLayered,
}
impl How {
    fn s(self) -> &'static str {
        match self {
            How::Plain => "harness Wrap",
            How::Intercepted => "InterceptedService::new",
            How::WithInterceptor => "XxxServer::with_interceptor",
            How::Layered => "Layered (named_layer)",
            How::GrpcWeb => "tonic_web::GrpcWebService (GrpcWebLayer::layer)",
            How::GrpcWebLayered => "Layered over GrpcWebLayer (named_layer)",
        }
    }
    fn parse(s: &str) -> How {
        [How::Plain, How::Intercepted, How::WithInterceptor, How::Layered, How::GrpcWeb, How::GrpcWebLayered].into_iter().find(|h| h.s() == s).unwrap_or(How::Plain)
    }
}
#[derive(Clone, Debug, PartialEq)]
struct Reg {
    kind: Kind,
    how: How,
    /// transport only: None = add_service, Some(true) = add_optional_service(Some(svc)),
    /// Some(false) = add_optional_service(None): nothing is registered
    opt: Option<bool>,
}
impl Reg {
    fn stub(idx: usize, methods: &[&str]) -> Reg {
        Reg { kind: Kind::Stub { idx, methods: methods.iter().map(|m| m.to_string()).collect() }, how: How::Plain, opt: None }
    }
    fn real(k: usize) -> Reg {
        Reg { kind: Kind::Real(k), how: How::Plain, opt: None }
    }
    fn present(&self) -> bool {
        self.opt != Some(false)
    }
    fn is_real(&self) -> bool {
        matches!(self.kind, Kind::Real(_))
    }
    fn name(&self) -> &'static str {
        match &self.kind {
            Kind::Stub { idx, .. } => STUB_NAMES[*idx],
            Kind::Real(k) if *k < 4 => FIXTURE[*k].0,
            Kind::Real(k) => COMMITTED[*k - 4].0,
        }
    }
    fn methods(&self) -> Vec<String> {
        match &self.kind {
            Kind::Stub { methods, .. } => methods.clone(),
            Kind::Real(k) if *k < 4 => FIXTURE[*k].1.iter().map(|m| m.0.to_string()).collect(),
            Kind::Real(k) => COMMITTED[*k - 4].1.iter().map(|m| m.0.to_string()).collect(),
        }
    }
    fn coq(&self) -> String {
        format!("(mkSvc {} {})", coq_bytes(self.name().as_bytes()), coq_list(&self.methods(), |m| coq_bytes(m.as_bytes())))
    }
    fn json(&self) -> Value {
        json!({"name": self.name(), "methods": self.methods(), "real": self.is_real(), "how": self.how.s(), "optional": self.opt})
    }
    fn from_json(v: &Value) -> Reg {
        let name = v["name"].as_str().unwrap();
        let kind = if v["real"].as_bool().unwrap_or(false) {
            Kind::Real(FIXTURE.iter().map(|f| f.0).chain(COMMITTED.iter().map(|f| f.0)).position(|n| n == name).unwrap())
        } else {
            Kind::Stub {
                idx: STUB_NAMES.iter().position(|n| *n == name).unwrap(),
                methods: v["methods"].as_array().unwrap().iter().map(|m| m.as_str().unwrap().to_string()).collect(),
            }
        };
        Reg { kind, how: How::parse(v["how"].as_str().unwrap_or("")), opt: v["optional"].as_bool() }
    }
}
/// the registrations the model sees: add_optional_service(None) registers nothing
fn present(regs: &[Reg]) -> Vec<Reg> {
    regs.iter().filter(|g| g.present()).cloned().collect()
}

#[derive(Clone, Default)]
struct World {
    reached: ReachLog,
    stub_hits: HitLog,
    rec: Rec,
}
impl World {
    fn clear(&self) {
        self.reached.lock().unwrap().clear();
        self.stub_hits.lock().unwrap().clear();
        self.rec.hits.lock().unwrap().clear();
    }
    fn hits(&self) -> Vec<(String, String)> {
        let mut v = self.stub_hits.lock().unwrap().clone();
        v.extend(self.rec.hits.lock().unwrap().iter().map(|(s, m, _)| (s.clone(), m.clone())));
        v
    }
}

/// the thing `add_service` is called on
enum Target {
    /// Routes::new(first) then Routes::add_service
    Fresh,
    Routes(Routes),
    /// RoutesBuilder::add_service(&mut self, ..) used as a builder
    Builder(RoutesBuilder),
    /// tonic::transport::Server::builder(): the first add turns it into a transport Router
    Server(Server),
    Router(TRouter),
}
impl Target {
    fn add<S>(self, svc: S, opt: Option<bool>) -> Target
    where
        S: Service<http::Request<Body>, Error = Infallible> + NamedService + Clone + Send + Sync + 'static,
        S::Response: axum::response::IntoResponse,
        S::Future: Send + 'static,
    {
        // Routes has no optional API: a service passed as add_optional_service(None) elsewhere is
        // simply not added here
        if opt == Some(false) && matches!(self, Target::Fresh | Target::Routes(_) | Target::Builder(_)) {
            return self;
        }
        match self {
            Target::Fresh => Target::Routes(Routes::new(svc)),
            Target::Routes(r) => Target::Routes(r.add_service(svc)),
            Target::Builder(mut b) => {
                b.add_service(svc);
                Target::Builder(b)
            }
            Target::Server(mut s) => Target::Router(match opt {
                None => s.add_service(svc),
                Some(true) => s.add_optional_service(Some(svc)),
                Some(false) => s.add_optional_service(None::<S>),
            }),
            Target::Router(r) => Target::Router(match opt {
                None => r.add_service(svc),
                Some(true) => r.add_optional_service(Some(svc)),
                Some(false) => r.add_optional_service(None::<S>),
            }),
        }
    }
}
fn reg_generic<S>(t: Target, svc: S, how: How, name: &'static str, w: &World, opt: Option<bool>) -> Target
where
    S: Service<http::Request<Body>, Response = http::Response<Body>, Error = Infallible> + NamedService + Clone + Send + Sync + 'static,
    S::Future: Send + 'static,
{
    let reached = w.reached.clone();
    match how {
        How::Plain => t.add(Wrap { inner: svc, reached }, opt),
        How::Intercepted | How::WithInterceptor => t.add(InterceptedService::new(svc, icpt(reached, name)), opt),
        How::Layered => t.add(RecLayer { reached, name }.named_layer(svc), opt),
        // a gRPC (not grpc-web) HTTP/2 request must pass through GrpcWebService untouched
        How::GrpcWeb => t.add(tower_layer::Layer::layer(&tonic_web::GrpcWebLayer::new(), Wrap { inner: svc, reached }), opt),
        How::GrpcWebLayered => t.add(tower_layer::Stack::new(RecLayer { reached, name }, tonic_web::GrpcWebLayer::new()).named_layer(svc), opt),
    }
}
macro_rules! add_stub {
    ($t:expr, $i:expr, $w:expr, $methods:expr, $how:expr, $opt:expr; $($n:literal)*) => {
        match $i {
            $($n => reg_generic($t, Stub::<$n> { hits: $w.stub_hits.clone(), methods: $methods }, $how, STUB_NAMES[$n], $w, $opt),)*
            _ => panic!("stub index out of range"),
        }
    };
}
macro_rules! add_real {
    ($t:expr, $server:path, $g:expr, $w:expr) => {{
        let rec = $w.rec.clone();
        if $g.how == How::WithInterceptor {
            // generated: InterceptedService::new(Self::new(inner), interceptor)
            $t.add(<$server>::with_interceptor(rec, icpt($w.reached.clone(), $g.name())), $g.opt)
        } else {
            reg_generic($t, <$server>::new(rec), $g.how, $g.name(), $w, $g.opt)
        }
    }};
}
fn register(t: Target, g: &Reg, w: &World) -> Target {
    use h_router::*;
    match &g.kind {
        Kind::Stub { idx, methods } => {
            let methods = Arc::new(methods.clone());
            add_stub!(t, *idx, w, methods, g.how, g.opt; 0 1 2 3 4 5 6 7 8 9 10 11 12 13 14 15 16 17 18 19 20 21 22 23 24 25 26 27 28 29)
        }
        Kind::Real(0) => add_real!(t, pkg_svc::svc_server::SvcServer<Rec>, g, w),
        Kind::Real(1) => add_real!(t, pkg_svcx::svc_x_server::SvcXServer<Rec>, g, w),
        Kind::Real(2) => add_real!(t, nopkg_svc::svc_server::SvcServer<Rec>, g, w),
        Kind::Real(3) => add_real!(t, pkg_svc_inner::inner_server::InnerServer<Rec>, g, w),
        Kind::Real(4) => add_real!(t, tonic_health::pb::health_server::HealthServer<Rec>, g, w),
        Kind::Real(5) => add_real!(t, tonic_reflection::pb::v1::server_reflection_server::ServerReflectionServer<Rec>, g, w),
        Kind::Real(6) => add_real!(t, tonic_reflection::pb::v1alpha::server_reflection_server::ServerReflectionServer<Rec>, g, w),
        Kind::Real(_) => panic!("real index out of range"),
    }
}

#[derive(Clone, Copy, Debug, PartialEq)]
enum Via {
    Direct,      // Routes::default().add_service(..)..
    New,         // Routes::new(first).add_service(..)..
    Builder,     // let mut b = Routes::builder(); b.add_service(..); ..; b.routes()
    BuilderFrom, // RoutesBuilder::from(Routes::default()) ..
}
impl Via {
    fn s(self) -> &'static str {
        match self {
            Via::Direct => "Routes::default().add_service",
            Via::New => "Routes::new",
            Via::Builder => "RoutesBuilder::add_service(&mut)",
            Via::BuilderFrom => "RoutesBuilder::from(Routes)",
        }
    }
    fn parse(s: &str) -> Via {
        [Via::Direct, Via::New, Via::Builder, Via::BuilderFrom].into_iter().find(|h| h.s() == s).unwrap_or(Via::Direct)
    }
    fn pick(r: &mut Rng) -> Via {
        *r.pick(&[Via::Direct, Via::Direct, Via::New, Via::Builder, Via::Builder, Via::BuilderFrom])
    }
}
/// Err = add_service panicked
fn build(regs: &[Reg], w: &World, prepare: bool, via: Via) -> Result<Routes, String> {
    catch(std::panic::AssertUnwindSafe(|| {
        let mut t = match via {
            Via::Direct => Target::Routes(Routes::default()),
            Via::New => Target::Fresh,
            Via::Builder => Target::Builder(Routes::builder()),
            Via::BuilderFrom => Target::Builder(RoutesBuilder::from(Routes::default())),
        };
        for g in regs {
            t = register(t, g, w);
        }
        let r = match t {
            Target::Fresh => Routes::default(),
            Target::Routes(r) => r,
            Target::Builder(b) => b.routes(),
            _ => unreachable!(),
        };
        if prepare {
            r.prepare()
        } else {
            r
        }
    }))
}
/// how the transport Router is put together
#[derive(Clone, Copy, Debug, PartialEq)]
struct TPlan {
    /// Some(k): the first k registrations are added to a `Routes` (built through `via`, optionally
    /// prepare()d) which is handed to Server::builder().add_routes(routes); the rest is added to
    /// the resulting transport Router.  None: Server::add_service / add_optional_service first.
    routes_first: Option<usize>,
    via: Via,
    prepare: bool,
    /// serve_with_incoming_shutdown (signal never fires) instead of serve_with_incoming
    with_shutdown: bool,
}
impl TPlan {
    const PLAIN: TPlan = TPlan { routes_first: None, via: Via::Direct, prepare: false, with_shutdown: false };
    fn json(&self) -> Value {
        json!({"add_routes_with_first": self.routes_first, "via": self.via.s(), "prepare": self.prepare, "serve_with_incoming_shutdown": self.with_shutdown})
    }
    fn from_json(v: &Value) -> TPlan {
        TPlan {
            routes_first: v["add_routes_with_first"].as_u64().map(|k| k as usize),
            via: Via::parse(v["via"].as_str().unwrap_or("")),
            prepare: v["prepare"].as_bool().unwrap_or(false),
            with_shutdown: v["serve_with_incoming_shutdown"].as_bool().unwrap_or(false),
        }
    }
    fn gen(r: &mut Rng, n: usize) -> TPlan {
        TPlan {
            routes_first: if r.chance(1, 2) { Some(r.range(0, n as u64) as usize) } else { None },
            via: Via::pick(r),
            prepare: r.chance(1, 3),
            with_shutdown: r.chance(1, 2),
        }
    }
}
/// Server::builder().add_service(a).add_service(b).add_optional_service(..), or
/// Server::builder().add_routes(routes_with_services).add_service(..)..
fn build_transport(regs: &[Reg], w: &World, plan: TPlan) -> Result<TRouter, String> {
    catch(std::panic::AssertUnwindSafe(|| {
        let (mut t, rest) = match plan.routes_first {
            None => (Target::Server(Server::builder()), regs),
            Some(k) => {
                let k = k.min(regs.len());
                let routes = match build(&regs[..k], w, plan.prepare, plan.via) {
                    Ok(r) => r,
                    Err(p) => panic!("{}", p),
                };
                (Target::Router(Server::builder().add_routes(routes)), &regs[k..])
            }
        };
        for g in rest {
            t = register(t, g, w);
        }
        match t {
            Target::Server(mut s) => s.add_routes(Routes::default()),
            Target::Router(r) => r,
            _ => unreachable!(),
        }
    }))
}

// ------------------------------------------------------------------ one request
#[derive(Clone, Debug, PartialEq)]
struct Obs {
    hits: Vec<(String, String)>,
    reached: Vec<String>,
    http: u16,
    headers: HeaderMap,
    body: Vec<u8>,
    trailers: Option<HeaderMap>,
}
/// one gRPC frame holding an empty message: lets the real generated servers reach the handler
const FRAME: &[u8] = &[0, 0, 0, 0, 0];

fn request(routes: &Routes, w: &World, uri: &http::Uri) -> Result<Obs, String> {
    w.clear();
    let body = Body::new(http_body_util::Full::new(Bytes::from_static(FRAME)));
    let req = http::Request::builder()
        .method("POST")
        .version(http::Version::HTTP_2) // gRPC is HTTP/2; GrpcWebService answers 400 to anything else
        .uri(uri.clone())
        .header("content-type", "application/grpc")
        .header("te", "trailers")
        .body(body)
        .unwrap();
    let mut r = routes.clone();
    let res = catch(std::panic::AssertUnwindSafe(|| {
        let resp = match spin(Service::call(&mut r, req), 100_000) {
            Err(()) => return Err("hang".to_string()),
            Ok(Err(e)) => match e {},
            Ok(Ok(resp)) => resp,
        };
        let (parts, body) = resp.into_parts();
        let collected = match spin(http_body_util::BodyExt::collect(body), 100_000) {
            Err(()) => return Err("response body hangs".to_string()),
            Ok(Err(e)) => return Err(format!("response body error: {}", e)),
            Ok(Ok(c)) => c,
        };
        let trailers = collected.trailers().cloned();
        Ok(Obs {
            hits: w.hits(),
            reached: w.reached.lock().unwrap().clone(),
            http: parts.status.as_u16(),
            headers: parts.headers,
            body: collected.to_bytes().to_vec(),
            trailers,
        })
    }));
    match res {
        Err(p) => Err(format!("panic: {}", p)),
        Ok(r) => r,
    }
}

/// the same over a real connection: the transport Router served with serve_with_incoming on one
/// end of tokio::io::duplex, a raw h2 client on the other (so that arbitrary paths can be sent)
fn wire_requests(router: TRouter, w: &World, uris: &[http::Uri], with_shutdown: bool) -> Vec<Result<Obs, String>> {
    use tokio_stream::StreamExt;
    let rt = tokio::runtime::Builder::new_current_thread().enable_all().build().unwrap();
    let out = rt.block_on(async {
        let (client_io, server_io) = tokio::io::duplex(1 << 16);
        let incoming = tokio_stream::once(Ok::<_, std::io::Error>(server_io)).chain(tokio_stream::pending());
        tokio::spawn(async move {
            if with_shutdown {
                let _ = router.serve_with_incoming_shutdown(incoming, std::future::pending::<()>()).await;
            } else {
                let _ = router.serve_with_incoming(incoming).await;
            }
        });
        let (send, conn) = match h2::client::handshake(client_io).await {
            Ok(x) => x,
            Err(e) => return uris.iter().map(|_| Err(format!("h2 handshake: {}", e))).collect(),
        };
        tokio::spawn(async move {
            let _ = conn.await;
        });
        let mut out = vec![];
        for uri in uris {
            w.clear();
            let one = async {
                let req = http::Request::builder()
                    .method("POST")
                    .uri(uri.clone())
                    .header("content-type", "application/grpc")
                    .header("te", "trailers")
                    .body(())
                    .unwrap();
                let mut s = send.clone().ready().await.map_err(|e| format!("h2 ready: {}", e))?;
                let (resp, mut stream) = s.send_request(req, false).map_err(|e| format!("h2 send_request: {}", e))?;
                let _ = stream.send_data(Bytes::from_static(FRAME), true);
                let resp = resp.await.map_err(|e| format!("h2 response: {}", e))?;
                let (parts, mut body) = resp.into_parts();
                let mut data = vec![];
                while let Some(chunk) = body.data().await {
                    let c = chunk.map_err(|e| format!("h2 data: {}", e))?;
                    let _ = body.flow_control().release_capacity(c.len());
                    data.extend_from_slice(&c);
                }
                let trailers = body.trailers().await.map_err(|e| format!("h2 trailers: {}", e))?;
                let mut headers = parts.headers;
                // the only hop-level header hyper adds; everything else is what Routes answered
                headers.remove("date");
                Ok::<Obs, String>(Obs { hits: w.hits(), reached: w.reached.lock().unwrap().clone(), http: parts.status.as_u16(), headers, body: data, trailers })
            };
            out.push(match tokio::time::timeout(std::time::Duration::from_secs(20), one).await {
                Ok(r) => r,
                Err(_) => Err("no response within 20 s".to_string()),
            });
        }
        out
    });
    drop(rt);
    out
}

fn obs_tr(o: &Result<Obs, String>) -> Tr {
    match o {
        Err(_) => Tr::L(vec![Tr::n(97u8)]),
        Ok(o) => {
            let out = if o.hits.len() == 1 && o.reached.len() == 1 && o.reached[0] == o.hits[0].0 {
                Tr::L(vec![Tr::n(0u8), Tr::s(&o.hits[0].0), Tr::s(&o.hits[0].1)])
            } else if o.hits.is_empty() && o.reached.len() == 1 {
                Tr::L(vec![Tr::n(1u8), Tr::s(&o.reached[0])])
            } else if o.hits.is_empty() && o.reached.is_empty() {
                Tr::L(vec![Tr::n(2u8)])
            } else {
                Tr::L(vec![Tr::n(98u8)])
            };
            // what a handler answers is not the router's business
            let reply = if !o.hits.is_empty() {
                Tr::L(vec![Tr::n(0u8)])
            } else {
                Tr::L(vec![Tr::n(1u8), Tr::n(o.http), hm_tr(&o.headers), Tr::b(&o.body), Tr::opt(o.trailers.as_ref().map(hm_tr))])
            };
            Tr::L(vec![out, reply])
        }
    }
}
/// The property, checked directly: independent of the model's route/dispatch split.
fn oracle(regs: &[Reg], path: &str, o: &Result<Obs, String>) -> Option<String> {
    let o = match o {
        Err(e) => return Some(e.clone()),
        Ok(o) => o,
    };
    let mut expected: Vec<(String, String)> = vec![];
    for g in regs {
        for m in g.methods() {
            // an empty identifier is not a method (protobuf has none); see report
            if !m.is_empty() && path == format!("/{}/{}", g.name(), m) {
                expected.push((g.name().to_string(), m));
            }
        }
    }
    if expected.len() > 1 {
        return None; // ambiguous registration (not generated: names are distinct, methods too)
    }
    if let Some(e) = expected.first() {
        if o.hits != vec![e.clone()] {
            return Some(format!("path {:?} is exactly /{}/{} but handlers run: {:?}", path, e.0, e.1, o.hits));
        }
        return None;
    }
    if !o.hits.is_empty() {
        return Some(format!("path {:?} names no registered method but reached handler {:?}", path, o.hits));
    }
    // a well-formed UNIMPLEMENTED answer (gRPC "Trailers-Only")
    let vals = |k: &str| -> Vec<Vec<u8>> { o.headers.get_all(k).iter().map(|v| v.as_bytes().to_vec()).collect() };
    if vals("grpc-status") != vec![b"12".to_vec()] {
        return Some(format!(
            "path {:?} names no registered method but grpc-status headers are {:?}, not exactly one 12",
            path,
            vals("grpc-status").iter().map(|v| String::from_utf8_lossy(v).to_string()).collect::<Vec<_>>()
        ));
    }
    if o.http != 200 {
        return Some(format!("UNIMPLEMENTED answer for {:?} has HTTP status {}", path, o.http));
    }
    if vals("content-type") != vec![b"application/grpc".to_vec()] {
        return Some(format!(
            "UNIMPLEMENTED answer for {:?} has content-type {:?}, not application/grpc",
            path,
            vals("content-type").iter().map(|v| String::from_utf8_lossy(v).to_string()).collect::<Vec<_>>()
        ));
    }
    if !o.body.is_empty() {
        return Some(format!("UNIMPLEMENTED answer for {:?} has a body of {} bytes", path, o.body.len()));
    }
    if let Some(t) = &o.trailers {
        if !t.is_empty() {
            return Some(format!("UNIMPLEMENTED answer for {:?} has status in the headers and trailers {:?} as well", path, t));
        }
    }
    None
}

// ------------------------------------------------------------------ generators
const METHODS: &[&str] = &[
    "Get", "GetX", "Ge", "get", "GET", "List", "Put", "Chat", "Check", "Watch", "type", "M", "m", "a", "a.b",
    "x%2Fy", "Get/x", "\u{e9}", "ServerReflectionInfo", "Get_1",
];
/// groups of names one of which is a prefix / case variant / near miss of another
const FAMILIES: &[&[usize]] = &[
    &[0, 1, 3, 4, 5, 24],  // pkg.Svc pkg.SvcX pkg.Svc.Inner pkg.Sv pkg "pkg.Svc."
    &[0, 6, 7, 2, 8, 25],  // pkg.Svc pkg.svc PKG.SVC Svc svc .Svc
    &[2, 9, 10, 8],        // Svc S Sv svc
    &[11, 12, 13, 14, 23], // a a.b a.b.C a_b.C1 a-b
    &[15, 16, 17],         // health names
    &[18, 27, 26, 19, 20, 21, 22], // x%2Fy x%2fy x a*b a:b "" é
];
fn gen_methods(r: &mut Rng) -> Vec<String> {
    let n = match r.below(8) {
        0 => 0,
        1..=3 => r.range(1, 2),
        _ => r.range(2, 5),
    };
    let mut v: Vec<String> = vec![];
    for _ in 0..n {
        let m = r.pick(METHODS).to_string();
        if !v.contains(&m) {
            v.push(m);
        }
    }
    v
}
fn gen_how(r: &mut Rng, real: bool) -> How {
    match r.below(14) {
        0..=3 => How::Plain,
        4 | 5 => How::Intercepted,
        6 | 7 => How::Layered,
        8 | 9 => How::GrpcWeb,
        10 | 11 => How::GrpcWebLayered,
        _ => {
            if real {
                How::WithInterceptor
            } else {
                How::Intercepted
            }
        }
    }
}
fn gen_regs(r: &mut Rng, max: u64, min: u64) -> Vec<Reg> {
    let n = r.range(min, max) as usize;
    let mut v: Vec<Reg> = vec![];
    let fam = *r.pick(FAMILIES);
    let mut tries = 0;
    while v.len() < n && tries < 80 {
        tries += 1;
        let kind = if r.chance(1, 4) {
            Kind::Real(r.below(7) as usize)
        } else {
            let idx = if r.chance(3, 4) { *r.pick(fam) } else { r.below(N_MODEL as u64) as usize };
            Kind::Stub { idx, methods: gen_methods(r) }
        };
        let real = matches!(kind, Kind::Real(_));
        let g = Reg { kind, how: gen_how(r, real), opt: None };
        if v.iter().all(|x| x.name() != g.name()) {
            v.push(g);
        }
    }
    v
}

include!("gen_uri.rs");
include!("corpus_paths.rs");

// ------------------------------------------------------------------ case kinds
fn outcome_class(o: &Result<Obs, String>) -> &'static str {
    match o {
        Err(_) => "error",
        Ok(o) if !o.hits.is_empty() => "handler",
        Ok(o) if !o.reached.is_empty() => "unimpl.service",
        Ok(_) => "unimpl.fallback",
    }
}
struct Ctx {
    out: Out,
    w: World,
    unparsable: u64,
}
impl Ctx {
    fn parse_uri(&mut self, uri_text: &str) -> Option<http::Uri> {
        match uri_text.parse::<http::Uri>() {
            Ok(u) => {
                self.out.hist("uri", "parsed");
                Some(u)
            }
            Err(_) => {
                self.unparsable += 1;
                self.out.hist("uri", "rejected by http::Uri (not sent)");
                None
            }
        }
    }
    fn hist_outcome(&mut self, regs: &[Reg], o: &Result<Obs, String>) {
        let c = outcome_class(o);
        self.out.hist("outcome", c);
        if let Ok(o) = o {
            if let Some(name) = o.reached.first() {
                if let Some(g) = regs.iter().find(|g| g.name() == name) {
                    self.out.hist(&format!("{}.by", c), if g.is_real() { "real generated server" } else { "stub" });
                    self.out.hist(&format!("{}.name_through", c), g.how.s());
                }
            }
        }
    }
    fn hist_regs(&mut self, k: &str, regs: &[Reg], mutation: &str) {
        self.out.hist(&format!("{}.services", k), regs.len());
        self.out.hist("real_generated_servers", regs.iter().filter(|g| g.is_real()).count());
        for g in regs {
            self.out.hist("registered.name_through", g.how.s());
        }
        for m in mutation.split('+') {
            self.out.hist("mutation", m);
        }
    }
    /// kind serve: registration in the given order, one request
    fn serve(&mut self, kind: &str, regs: &[Reg], routes: &Result<Routes, String>, uri_text: &str, mutation: &str, prepare: bool, via: Via) {
        let Some(uri) = self.parse_uri(uri_text) else { return };
        let path = uri.path().to_string();
        let (obs, orc) = match routes {
            Err(p) => (Tr::L(vec![Tr::n(99u8)]), Some(format!("registration panicked: {}", p))),
            Ok(routes) => {
                let o = request(routes, &self.w, &uri);
                self.hist_outcome(regs, &o);
                (obs_tr(&o), oracle(regs, &path, &o))
            }
        };
        self.hist_regs("serve", regs, mutation);
        self.out.hist("serve.via", via.s());
        self.out.hist("serve.prepare", prepare);
        let model = format!("obs_serve {} {}", coq_list(regs, |g| g.coq()), coq_bytes(path.as_bytes()));
        self.out.push(Case {
            kind: kind.to_string(),
            input: json!({"services": regs.iter().map(|g| g.json()).collect::<Vec<_>>(), "uri": uri_text, "path": path, "prepare": prepare, "via": via.s(), "mutation": mutation}),
            model,
            impl_obs: obs,
            oracle: orc,
            nontrivial: !regs.is_empty() && path.len() > 1,
        });
    }
    /// kinds orders / orders.sampled: the same request against several registration orders.
    /// `idxs` = None: all n! orders as Model.Router.perms enumerates them (n <= 4);
    /// Some: the given arrangements of 0..n-1
    fn orders(&mut self, kind: &str, regs: &[Reg], all: &[(Vec<Reg>, Result<Routes, String>)], idxs: Option<&Vec<Vec<usize>>>, uri_text: &str, mutation: &str, prepare: bool, via: Via) {
        let Some(uri) = self.parse_uri(uri_text) else { return };
        let path = uri.path().to_string();
        let mut trs = vec![];
        let mut orc: Option<String> = None;
        let mut first: Option<Result<Obs, String>> = None;
        for (order, routes) in all {
            match routes {
                Err(p) => {
                    trs.push(Tr::L(vec![Tr::n(99u8)]));
                    orc = orc.or(Some(format!("registration panicked: {}", p)));
                }
                Ok(routes) => {
                    let o = request(routes, &self.w, &uri);
                    orc = orc.or(oracle(order, &path, &o));
                    trs.push(obs_tr(&o));
                    match &first {
                        None => first = Some(o),
                        Some(f) => {
                            if *f != o && orc.is_none() {
                                orc = Some(format!(
                                    "registration order changes the answer: {:?} vs {:?} (order {:?})",
                                    f,
                                    o,
                                    order.iter().map(|g| g.name()).collect::<Vec<_>>()
                                ));
                            }
                        }
                    }
                }
            }
        }
        if let Some(f) = &first {
            self.hist_outcome(regs, f);
        }
        self.hist_regs("orders", regs, mutation);
        self.out.hist("orders.prepare", prepare);
        self.out.hist("orders.via", via.s());
        self.out.hist("orders.orders_tried", all.len());
        let model = match idxs {
            None => format!("obs_orders {} {}", coq_list(regs, |g| g.coq()), coq_bytes(path.as_bytes())),
            Some(ix) => format!(
                "obs_orders_at {} {} {}",
                coq_list(regs, |g| g.coq()),
                coq_list(ix, |p| coq_list(p, |i| i.to_string())),
                coq_bytes(path.as_bytes())
            ),
        };
        self.out.push(Case {
            kind: kind.to_string(),
            input: json!({"services": regs.iter().map(|g| g.json()).collect::<Vec<_>>(), "uri": uri_text, "path": path, "orders": all.len(), "order_indices": idxs, "prepare": prepare, "via": via.s(), "mutation": mutation}),
            model,
            impl_obs: Tr::L(trs),
            oracle: orc,
            nontrivial: regs.len() >= 2 && path.len() > 1,
        });
    }
    /// kind transport: Server::builder() registration, served over duplex, raw h2 client
    fn transport(&mut self, kind: &str, regs: &[Reg], uris: &[(String, String)], plan: TPlan) {
        let model_regs = present(regs);
        let parsed: Vec<(String, String, http::Uri)> = uris
            .iter()
            .filter_map(|(u, d)| {
                // an h2 request needs scheme and authority; only origin-form texts are sent
                if !u.starts_with('/') {
                    return None;
                }
                let uri = self.parse_uri(&format!("http://h{}", u))?;
                Some((u.clone(), d.clone(), uri))
            })
            .collect();
        let router = build_transport(regs, &self.w, plan);
        let results: Vec<Result<Obs, String>> = match router {
            Err(p) => parsed.iter().map(|_| Err(format!("registration panicked: {}", p))).collect(),
            Ok(router) => {
                let us: Vec<http::Uri> = parsed.iter().map(|p| p.2.clone()).collect();
                wire_requests(router, &self.w, &us, plan.with_shutdown)
            }
        };
        for ((text, mutation, uri), o) in parsed.iter().zip(results) {
            let path = uri.path().to_string();
            self.hist_outcome(&model_regs, &o);
            self.hist_regs("transport", &model_regs, mutation);
            for (i, g) in regs.iter().enumerate() {
                let in_routes = plan.routes_first.map(|k| i < k).unwrap_or(false);
                self.out.hist("transport.added_by", match (in_routes, g.opt) {
                    (true, Some(false)) => "not added (absent optional, before add_routes)",
                    (true, _) => "Routes handed to Server::add_routes",
                    (false, None) => "add_service",
                    (false, Some(true)) => "add_optional_service(Some)",
                    (false, Some(false)) => "add_optional_service(None)",
                });
            }
            self.out.hist("transport.add_routes", match plan.routes_first { None => "not used".to_string(), Some(k) => format!("with {} services", k.min(regs.len())) });
            self.out.hist("transport.serve", if plan.with_shutdown { "serve_with_incoming_shutdown" } else { "serve_with_incoming" });
            let model = format!("obs_serve {} {}", coq_list(&model_regs, |g| g.coq()), coq_bytes(path.as_bytes()));
            self.out.push(Case {
                kind: kind.to_string(),
                input: json!({"services": regs.iter().map(|g| g.json()).collect::<Vec<_>>(), "uri": text, "path": path, "mutation": mutation, "plan": plan.json()}),
                model,
                impl_obs: obs_tr(&o),
                oracle: oracle(&model_regs, &path, &o),
                nontrivial: model_regs.len() >= 2 && path.len() > 1,
            });
        }
    }
    /// kind build: does registration panic (duplicates, names axum rejects)
    fn build_case(&mut self, kind: &str, regs: &[Reg], via: Via) {
        let r = build(regs, &self.w, false, via);
        let names: Vec<&str> = regs.iter().map(|g| g.name()).collect();
        let distinct = (0..names.len()).all(|i| (0..i).all(|j| names[i] != names[j]));
        let rejected = names.iter().any(|n| n.starts_with('*') || n.starts_with(':'));
        // the property speaks of a SET of services: distinct accepted names must register
        let orc = match &r {
            Err(p) if distinct && !rejected => Some(format!("registering distinct names {:?} panicked: {}", names, p)),
            _ => None,
        };
        self.out.hist("build", if r.is_ok() { "ok" } else if !distinct { "panic (duplicate name)" } else { "panic (name rejected by axum)" });
        self.out.hist("build.via", via.s());
        self.out.push(Case {
            kind: kind.to_string(),
            input: json!({"services": regs.iter().map(|g| g.json()).collect::<Vec<_>>(), "via": via.s()}),
            model: format!("obs_build {}", coq_list(regs, |g| g.coq())),
            impl_obs: match r {
                Ok(_) => Tr::L(vec![Tr::n(1u8), Tr::n(regs.len() as u64)]),
                Err(_) => Tr::L(vec![Tr::n(0u8)]),
            },
            oracle: orc,
            nontrivial: regs.len() >= 2,
        });
    }
}

fn all_orders(regs: &[Reg], w: &World, prepare: bool, via: Via) -> Vec<(Vec<Reg>, Result<Routes, String>)> {
    perms(regs).into_iter().map(|p| { let r = build(&p, w, prepare, via); (p, r) }).collect()
}
fn orders_at(regs: &[Reg], idxs: &[Vec<usize>], w: &World, prepare: bool, via: Via) -> Vec<(Vec<Reg>, Result<Routes, String>)> {
    idxs.iter()
        .map(|ix| {
            let p: Vec<Reg> = ix.iter().map(|i| regs[*i].clone()).collect();
            let r = build(&p, w, prepare, via);
            (p, r)
        })
        .collect()
}
fn sample_orders(r: &mut Rng, n: usize, k: usize) -> Vec<Vec<usize>> {
    let id: Vec<usize> = (0..n).collect();
    let mut out = vec![id.clone(), id.iter().rev().cloned().collect()];
    while out.len() < k {
        let mut p = id.clone();
        for i in (1..n).rev() {
            let j = r.below(i as u64 + 1) as usize;
            p.swap(i, j);
        }
        out.push(p);
    }
    out
}

fn run_replay(ctx: &mut Ctx, file: &str) {
    let v: Value = serde_json::from_str(&std::fs::read_to_string(file).expect("replay file")).expect("json");
    let kind = v["kind"].as_str().unwrap_or("serve").to_string();
    let input = &v["input"];
    let regs: Vec<Reg> = input["services"].as_array().unwrap().iter().map(Reg::from_json).collect();
    let uri = input["uri"].as_str().unwrap_or("/");
    let mutation = input["mutation"].as_str().unwrap_or("id");
    let prepare = input["prepare"].as_bool().unwrap_or(false);
    if kind.ends_with("build") {
        ctx.build_case(&kind, &regs, Via::parse(input["via"].as_str().unwrap_or("")));
    } else if kind.ends_with("transport") {
        ctx.transport(&kind, &regs, &[(uri.to_string(), mutation.to_string())], TPlan::from_json(&input["plan"]));
    } else if kind.ends_with("orders.sampled") {
        let idxs: Vec<Vec<usize>> = input["order_indices"].as_array().unwrap().iter().map(|p| p.as_array().unwrap().iter().map(|i| i.as_u64().unwrap() as usize).collect()).collect();
        let via = Via::parse(input["via"].as_str().unwrap_or(""));
        let all = orders_at(&regs, &idxs, &ctx.w, prepare, via);
        ctx.orders(&kind, &regs, &all, Some(&idxs), uri, mutation, prepare, via);
    } else if kind.ends_with("orders") {
        let via = Via::parse(input["via"].as_str().unwrap_or(""));
        let all = all_orders(&regs, &ctx.w, prepare, via);
        ctx.orders(&kind, &regs, &all, None, uri, mutation, prepare, via);
    } else {
        let via = Via::parse(input["via"].as_str().unwrap_or(""));
        let routes = build(&regs, &ctx.w, prepare, via);
        ctx.serve(&kind, &regs, &routes, uri, mutation, prepare, via);
    }
}

fn main() {
    let a = args();
    let mut ctx = Ctx { out: Out::new(&a.out), w: World::default(), unparsable: 0 };
    let mut r = Rng::new(a.seed);
    const RULE: &str = "serve: 0..8 services (stubs transcribing the generated `call` + 7 real generated servers, names drawn from prefix/case families, with and without package; NamedService::NAME through the harness wrapper, InterceptedService::new, XxxServer::with_interceptor or Layered) registered via Routes::default().add_service / Routes::new / RoutesBuilder::add_service(&mut) / RoutesBuilder::from [optionally prepare()], one request whose URI is a registered /S/M under 0-2 of 31 mutations (drop/insert/case/extra+empty segments/%2F/percent-escapes/query/fragment/absolute-form/prefix truncation+extension/...) or random; orders: 1..4 services, the same request against ALL n! registration orders (with and without prepare()); orders.sampled: 5..8 services, 12 sampled orders; transport: Server::builder().add_service / add_optional_service(Some|None) chains served with serve_with_incoming over tokio duplex, requests sent by a raw h2 client; build: registration with duplicate and rejected names. The whole response head of every non-handler answer is observed (HTTP status, all headers, body, trailers). Non-trivial = at least one (orders, transport: two) services and a path other than '/'. Distinct = distinct (kind, model expression).";

    if let Some(f) = &a.replay {
        run_replay(&mut ctx, f);
        ctx.out.finish(IMPORTS, RULE, json!({"replay": f}));
        return;
    }

    // ---- corpus: all 7 real generated servers, the hand-picked near misses ----
    let real: Vec<Reg> = (0..7).map(Reg::real).collect();
    for (prepare, via) in [(false, Via::Direct), (true, Via::Builder)] {
        let routes = build(&real, &ctx.w, prepare, via);
        for p in CORPUS_PATHS {
            ctx.serve("corpus.serve", &real, &routes, p, "corpus", prepare, via);
        }
    }
    // the same with NAME propagated by tonic (interceptor / with_interceptor / Layered)
    for how in [How::Intercepted, How::WithInterceptor, How::Layered, How::GrpcWeb, How::GrpcWebLayered] {
        let regs: Vec<Reg> = (0..7).map(|k| Reg { kind: Kind::Real(k), how, opt: None }).collect();
        let routes = build(&regs, &ctx.w, false, Via::Direct);
        for p in CORPUS_PATHS {
            ctx.serve("corpus.serve", &regs, &routes, p, "corpus", false, Via::Direct);
        }
    }
    // empty Routes: every path is answered by the fallback (C03: a well-formed UNIMPLEMENTED)
    for via in [Via::Direct, Via::Builder] {
        let routes = build(&[], &ctx.w, false, via);
        for p in ["/", "/pkg.Svc/Get", "/grpc.health.v1.Health/Check", "*", "/a", "//", "/a/b/c?x"] {
            ctx.serve("corpus.serve", &[], &routes, p, "corpus", false, via);
        }
    }
    // through tonic::transport::Server over a connection
    let paths: Vec<(String, String)> = CORPUS_PATHS.iter().map(|p| (p.to_string(), "corpus".to_string())).collect();
    ctx.transport("corpus.transport", &real, &paths, TPlan::PLAIN);
    // all seven handed over as ready-made Routes: Server::builder().add_routes(routes)
    ctx.transport("corpus.transport", &real, &paths, TPlan { routes_first: Some(7), via: Via::Builder, prepare: false, with_shutdown: true });
    ctx.transport("corpus.transport", &real, &paths, TPlan { routes_first: Some(3), via: Via::New, prepare: true, with_shutdown: false });
    let mixed: Vec<Reg> = vec![
        Reg { kind: Kind::Real(0), how: How::WithInterceptor, opt: None },
        Reg { kind: Kind::Real(1), how: How::GrpcWeb, opt: Some(true) },
        Reg { kind: Kind::Real(2), how: How::Layered, opt: Some(false) },
        Reg { kind: Kind::Real(4), how: How::Intercepted, opt: None },
        Reg { kind: Kind::Stub { idx: 3, methods: vec!["Get".into()] }, how: How::GrpcWebLayered, opt: Some(true) },
    ];
    ctx.transport("corpus.transport", &mixed, &paths, TPlan::PLAIN);
    ctx.transport("corpus.transport", &mixed, &paths, TPlan { routes_first: Some(2), via: Via::Direct, prepare: false, with_shutdown: true });
    ctx.transport("corpus.transport", &[], &paths[..12], TPlan::PLAIN);
    ctx.transport("corpus.transport", &[Reg { kind: Kind::Real(0), how: How::Plain, opt: Some(false) }], &paths[..12], TPlan::PLAIN);
    // prefix-sharing names (pkg.Svc / pkg.SvcX / Svc / pkg.Svc.Inner, real generated servers) in
    // EVERY order through every transport registration path: a registration that probes by prefix
    // un-routes the shorter name when the longer one is registered first
    let prefix_paths: Vec<(String, String)> = [
        "/pkg.Svc/Get", "/pkg.SvcX/Get", "/pkg.SvcX/GetX", "/Svc/Get", "/Svc/get", "/pkg.Svc.Inner/Get", "/pkg.Svc/Chat", "/pkg.Svc/GetX",
        "/pkg.Sv/Get", "/pkg.SvcXY/Get", "/pkg.Svc./Get", "/pkg.Svc.Inne/Get", "/pkg/Get", "/pkg.Svc/",
    ]
    .iter()
    .map(|p| (p.to_string(), "corpus".to_string()))
    .collect();
    let four: Vec<Reg> = (0..4).map(Reg::real).collect();
    for (i, order) in perms(&four).into_iter().enumerate() {
        let plan = match i % 4 {
            0 => TPlan::PLAIN,
            1 => TPlan { routes_first: Some(4), via: Via::Direct, prepare: false, with_shutdown: false },
            2 => TPlan { routes_first: Some(2), via: Via::Builder, prepare: true, with_shutdown: true },
            _ => TPlan { routes_first: Some(1), via: Via::New, prepare: false, with_shutdown: true },
        };
        ctx.transport("corpus.transport", &order, &prefix_paths, plan);
        // and the complementary plan, so that every order meets add_routes AND add_service
        let plan2 = if plan.routes_first.is_none() { TPlan { routes_first: Some(3), via: Via::BuilderFrom, prepare: false, with_shutdown: false } } else { TPlan::PLAIN };
        ctx.transport("corpus.transport", &order, &prefix_paths, plan2);
    }
    // .. and through each way of building Routes directly
    for via in [Via::Direct, Via::New, Via::Builder, Via::BuilderFrom] {
        for prepare in [false, true] {
            let all = all_orders(&four, &ctx.w, prepare, via);
            for (p, _) in &prefix_paths {
                ctx.orders("corpus.orders", &four, &all, None, p, "corpus", prepare, via);
            }
        }
    }
    // the same names as stubs (finer observable is identical), incl. odd but legal names
    let stubs: Vec<Reg> = vec![Reg::stub(0, &["Get", "List"]), Reg::stub(1, &["Get", "GetX"]), Reg::stub(2, &["Get", "get"]), Reg::stub(3, &["Get"])];
    for prepare in [false, true] {
        let all = all_orders(&stubs, &ctx.w, prepare, Via::Direct);
        for p in CORPUS_PATHS {
            ctx.orders("corpus.orders", &stubs, &all, None, p, "corpus", prepare, Via::Direct);
        }
    }
    let odd: Vec<Reg> = vec![
        Reg::stub(21, &["M"]),                // NAME = ""
        Reg::stub(18, &["M", "x%2Fy"]),       // NAME = "x%2Fy"
        Reg::stub(26, &["M", "Get/x", ""]),   // NAME = "x": a method with '/', an empty method
        Reg::stub(19, &["M"]),                // a*b
    ];
    let all = all_orders(&odd, &ctx.w, false, Via::Builder);
    for p in ["//M", "/x%2Fy/M", "/x%2fy/M", "/x/y/M", "/x%2Fy/x%2Fy", "/x/Get/x", "/x/Get", "/x/", "/x", "/a*b/M", "/aXb/M", "/a%2Ab/M", "///M", "//", "/"] {
        ctx.orders("corpus.orders", &odd, &all, None, p, "corpus", false, Via::Builder);
    }
    // registration panics
    for regs in [
        vec![Reg::real(0), Reg::stub(0, &[])],
        vec![Reg::stub(2, &[]), Reg::real(2)],
        vec![Reg::stub(28, &[])],
        vec![Reg::stub(9, &[]), Reg::stub(29, &[])],
        vec![Reg::stub(19, &[]), Reg::stub(20, &[]), Reg::stub(21, &[])],
        vec![],
        real.clone(),
    ] {
        for via in [Via::Direct, Via::New, Via::Builder] {
            ctx.build_case("corpus.build", &regs, via);
        }
    }

    // ---- generated ----
    let (n_orders, paths_per, n_serve_sc, n_build, n_sampled, n_transport) = if a.thorough { (500, 12, 1500, 600, 200, 400) } else { (60, 10, 140, 80, 25, 40) };
    for _ in 0..n_orders {
        let regs = gen_regs(&mut r, 4, 1);
        let prepare = r.chance(1, 2);
        let via = Via::pick(&mut r);
        let all = all_orders(&regs, &ctx.w, prepare, via);
        for _ in 0..paths_per {
            let (u, d) = gen_uri(&mut r, &regs);
            ctx.orders("orders", &regs, &all, None, &u, &d, prepare, via);
        }
    }
    for _ in 0..n_sampled {
        let regs = gen_regs(&mut r, 8, 5);
        let prepare = r.chance(1, 2);
        let idxs = sample_orders(&mut r, regs.len(), 12);
        let via = Via::pick(&mut r);
        let all = orders_at(&regs, &idxs, &ctx.w, prepare, via);
        for _ in 0..paths_per {
            let (u, d) = gen_uri(&mut r, &regs);
            ctx.orders("orders.sampled", &regs, &all, Some(&idxs), &u, &d, prepare, via);
        }
    }
    for _ in 0..n_serve_sc {
        let regs = gen_regs(&mut r, 8, 0);
        let prepare = r.chance(1, 2);
        let via = Via::pick(&mut r);
        let routes = build(&regs, &ctx.w, prepare, via);
        for _ in 0..paths_per {
            let (u, d) = gen_uri(&mut r, &regs);
            ctx.serve("serve", &regs, &routes, &u, &d, prepare, via);
        }
    }
    for _ in 0..n_transport {
        let mut regs = gen_regs(&mut r, 6, 0);
        if regs.len() < 2 && r.chance(3, 4) {
            regs = gen_regs(&mut r, 5, 2);
        }
        for g in regs.iter_mut() {
            g.opt = match r.below(10) {
                0..=4 => None,
                5..=7 => Some(true),
                _ => Some(false),
            };
        }
        let model_regs = present(&regs);
        let mut uris = vec![];
        for _ in 0..paths_per {
            // aim at everything that was passed to the builder, registered or not
            let aim_all = r.chance(1, 4);
            uris.push(gen_uri(&mut r, if aim_all { &regs } else { &model_regs }));
        }
        let plan = TPlan::gen(&mut r, regs.len());
        if regs.len() <= 3 && r.chance(1, 2) {
            // every registration order of a small set over the wire
            for order in perms(&regs) {
                ctx.transport("transport", &order, &uris, plan);
            }
        } else {
            ctx.transport("transport", &regs, &uris, plan);
        }
    }
    for _ in 0..n_build {
        let n = r.range(0, 5);
        let mut regs = vec![];
        for _ in 0..n {
            let kind = if r.chance(1, 4) {
                Kind::Real(r.below(7) as usize)
            } else if r.chance(1, 6) {
                Kind::Stub { idx: r.range(28, 29) as usize, methods: vec![] }
            } else {
                Kind::Stub { idx: *r.pick(&[0usize, 1, 2, 3, 4, 15, 19, 20, 21]), methods: gen_methods(&mut r) }
            };
            let real = matches!(kind, Kind::Real(_));
            regs.push(Reg { kind, how: gen_how(&mut r, real), opt: None });
        }
        ctx.build_case("build", &regs, Via::pick(&mut r));
    }

    // Outside the model, recorded only: Routes made from a caller-supplied axum::Router
    // (From<axum::Router>) carry THAT router's fallback, not tonic's `unimplemented`
    let probe = {
        let t = register(Target::Routes(Routes::from(axum::Router::new())), &Reg::real(0), &ctx.w);
        let routes = match t {
            Target::Routes(r) => r,
            _ => unreachable!(),
        };
        let mut v = vec![];
        for p in ["/nope/x", "/pkg.Svc/Nope", "/pkg.Svc/Get"] {
            let o = request(&routes, &ctx.w, &p.parse().unwrap());
            v.push(match o {
                Ok(o) => json!({"path": p, "http": o.http, "grpc-status": o.headers.get("grpc-status").map(|x| String::from_utf8_lossy(x.as_bytes()).to_string()), "handlers": o.hits.len()}),
                Err(e) => json!({"path": p, "error": e}),
            });
        }
        v
    };
    let unparsable = ctx.unparsable;
    ctx.out.finish(IMPORTS, RULE, json!({"uris_rejected_by_http_crate_and_not_sent": unparsable, "routes_from_user_axum_router_probe (not judged)": probe}));
}
