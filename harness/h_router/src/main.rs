//! C10 correspondence harness: real `tonic::service::Routes` (axum/matchit underneath) with
//!  * stub services (`NamedService` + `tower::Service`) whose `call` is a transcription of the
//!    generated one (match the raw path against "/NAME/Method" literals, default arm = 12), and
//!  * REAL generated servers: four built at compile time by /repo's generator (build.rs: names that
//!    are prefixes of one another, with / without package) and the three committed in /repo
//!    (health, reflection v1 + v1alpha),
//! all wrapped in a recorder that notes which service was reached.  Every request is judged by a
//! direct oracle (handler hit iff path == "/S/M" literally, else grpc-status 12 and no handler) and
//! compared with `Model/Router.v` evaluated inside Coq.
use bytes::Bytes;
use h_router::{Rec, COMMITTED, FIXTURE};
use serde_json::{json, Value};
use std::convert::Infallible;
use std::sync::{Arc, Mutex};
use tonic::body::Body;
use tonic::server::NamedService;
use tonic::service::Routes;
use tower_service::Service;
use vcommon::body::spin;
use vcommon::*;

const IMPORTS: &str = "From Verif Require Import Lib.Bytes Lib.Obs Model.Router.";

// ------------------------------------------------------------------ stub services
/// `NamedService::NAME` is a const, so stubs are indexed by a const generic into this pool.
/// 0..N_MODEL are inside the modelled name space (no '/', '{', '}'), the rest make axum panic.
const STUB_NAMES: [&str; 30] = [
    "pkg.Svc", "pkg.SvcX", "Svc", "pkg.Svc.Inner", "pkg.Sv", "pkg", "pkg.svc", "PKG.SVC", "svc", "S",
    "Sv", "a", "a.b", "a.b.C", "a_b.C1", "grpc.health.v1.Health", "grpc.health.v1.Healt",
    "grpc.health.v1.HealthX", "x%2Fy", "a*b", "a:b", "", "\u{e9}", "a-b", "pkg.Svc.", ".Svc", "x", "x%2fy",
    "*a", ":a",
];
const N_MODEL: usize = 28;

type HitLog = Arc<Mutex<Vec<(String, String)>>>;
type ReachLog = Arc<Mutex<Vec<String>>>;

#[derive(Clone)]
struct Stub<const I: usize> {
    hits: HitLog,
    methods: Arc<Vec<String>>,
}
impl<const I: usize> NamedService for Stub<I> {
    const NAME: &'static str = STUB_NAMES[I];
}
impl<const I: usize> Service<http::Request<Body>> for Stub<I> {
    type Response = http::Response<Body>;
    type Error = Infallible;
    type Future = std::future::Ready<Result<Self::Response, Infallible>>;
    fn poll_ready(&mut self, _: &mut std::task::Context<'_>) -> std::task::Poll<Result<(), Infallible>> {
        std::task::Poll::Ready(Ok(()))
    }
    // transcription of the generated `call` (tonic-build/src/server.rs): literal arms, default arm
    fn call(&mut self, req: http::Request<Body>) -> Self::Future {
        let path = req.uri().path();
        for m in self.methods.iter() {
            if path == format!("/{}/{}", STUB_NAMES[I], m) {
                self.hits.lock().unwrap().push((STUB_NAMES[I].to_string(), m.clone()));
                return std::future::ready(Ok(http::Response::new(Body::default())));
            }
        }
        let mut response = http::Response::new(Body::default());
        let headers = response.headers_mut();
        headers.insert(tonic::Status::GRPC_STATUS, (tonic::Code::Unimplemented as i32).into());
        headers.insert(http::header::CONTENT_TYPE, tonic::metadata::GRPC_CONTENT_TYPE);
        std::future::ready(Ok(response))
    }
}

/// records that the service registered under `S::NAME` was reached, then delegates
#[derive(Clone)]
struct Wrap<S> {
    inner: S,
    reached: ReachLog,
}
impl<S: NamedService> NamedService for Wrap<S> {
    const NAME: &'static str = S::NAME;
}
impl<S> Service<http::Request<Body>> for Wrap<S>
where
    S: Service<http::Request<Body>, Response = http::Response<Body>, Error = Infallible> + NamedService,
{
    type Response = http::Response<Body>;
    type Error = Infallible;
    type Future = S::Future;
    fn poll_ready(&mut self, cx: &mut std::task::Context<'_>) -> std::task::Poll<Result<(), Infallible>> {
        self.inner.poll_ready(cx)
    }
    fn call(&mut self, req: http::Request<Body>) -> Self::Future {
        self.reached.lock().unwrap().push(S::NAME.to_string());
        self.inner.call(req)
    }
}

#[derive(Clone, Debug, PartialEq)]
enum Reg {
    Stub { idx: usize, methods: Vec<String> },
    /// 0..4 = FIXTURE (generated at build time), 4.. = COMMITTED (health, reflection)
    Real(usize),
}
impl Reg {
    fn name(&self) -> &'static str {
        match self {
            Reg::Stub { idx, .. } => STUB_NAMES[*idx],
            Reg::Real(k) if *k < 4 => FIXTURE[*k].0,
            Reg::Real(k) => COMMITTED[*k - 4].0,
        }
    }
    fn methods(&self) -> Vec<String> {
        match self {
            Reg::Stub { methods, .. } => methods.clone(),
            Reg::Real(k) if *k < 4 => FIXTURE[*k].1.iter().map(|m| m.0.to_string()).collect(),
            Reg::Real(k) => COMMITTED[*k - 4].1.iter().map(|m| m.0.to_string()).collect(),
        }
    }
    fn coq(&self) -> String {
        format!(
            "(mkSvc {} {})",
            coq_bytes(self.name().as_bytes()),
            coq_list(&self.methods(), |m| coq_bytes(m.as_bytes()))
        )
    }
    fn json(&self) -> Value {
        json!({"name": self.name(), "methods": self.methods(), "real": matches!(self, Reg::Real(_))})
    }
    fn from_json(v: &Value) -> Reg {
        let name = v["name"].as_str().unwrap();
        if v["real"].as_bool().unwrap_or(false) {
            let k = FIXTURE.iter().map(|f| f.0).chain(COMMITTED.iter().map(|f| f.0)).position(|n| n == name).unwrap();
            Reg::Real(k)
        } else {
            Reg::Stub {
                idx: STUB_NAMES.iter().position(|n| *n == name).unwrap(),
                methods: v["methods"].as_array().unwrap().iter().map(|m| m.as_str().unwrap().to_string()).collect(),
            }
        }
    }
}

#[derive(Clone, Default)]
struct World {
    reached: ReachLog,
    stub_hits: HitLog,
    rec: Rec,
}
impl World {
    fn clear(&self) {
        self.reached.lock().unwrap().clear();
        self.stub_hits.lock().unwrap().clear();
        self.rec.hits.lock().unwrap().clear();
    }
    fn hits(&self) -> Vec<(String, String)> {
        let mut v = self.stub_hits.lock().unwrap().clone();
        v.extend(self.rec.hits.lock().unwrap().iter().map(|(s, m, _)| (s.clone(), m.clone())));
        v
    }
}

macro_rules! add_stub {
    ($routes:expr, $i:expr, $w:expr, $methods:expr; $($n:literal)*) => {
        match $i {
            $($n => $routes.add_service(Wrap { inner: Stub::<$n> { hits: $w.stub_hits.clone(), methods: $methods }, reached: $w.reached.clone() }),)*
            _ => panic!("stub index out of range"),
        }
    };
}
fn register(routes: Routes, reg: &Reg, w: &World) -> Routes {
    use h_router::*;
    let reached = w.reached.clone();
    let rec = w.rec.clone();
    match reg {
        Reg::Stub { idx, methods } => {
            let methods = Arc::new(methods.clone());
            add_stub!(routes, *idx, w, methods; 0 1 2 3 4 5 6 7 8 9 10 11 12 13 14 15 16 17 18 19 20 21 22 23 24 25 26 27 28 29)
        }
        Reg::Real(0) => routes.add_service(Wrap { inner: pkg_svc::svc_server::SvcServer::new(rec), reached }),
        Reg::Real(1) => routes.add_service(Wrap { inner: pkg_svcx::svc_x_server::SvcXServer::new(rec), reached }),
        Reg::Real(2) => routes.add_service(Wrap { inner: nopkg_svc::svc_server::SvcServer::new(rec), reached }),
        Reg::Real(3) => routes.add_service(Wrap { inner: pkg_svc_inner::inner_server::InnerServer::new(rec), reached }),
        Reg::Real(4) => routes.add_service(Wrap { inner: tonic_health::pb::health_server::HealthServer::new(rec), reached }),
        Reg::Real(5) => routes.add_service(Wrap {
            inner: tonic_reflection::pb::v1::server_reflection_server::ServerReflectionServer::new(rec),
            reached,
        }),
        Reg::Real(6) => routes.add_service(Wrap {
            inner: tonic_reflection::pb::v1alpha::server_reflection_server::ServerReflectionServer::new(rec),
            reached,
        }),
        Reg::Real(_) => panic!("real index out of range"),
    }
}

/// Routes::default().add_service(..).add_service(..) [.prepare()]; Err = add_service panicked
fn build(regs: &[Reg], w: &World, prepare: bool, via_builder: bool) -> Result<Routes, String> {
    catch(std::panic::AssertUnwindSafe(|| {
        let mut r = Routes::default();
        if via_builder {
            // RoutesBuilder::add_service takes the Routes out, adds, puts back: same path
            let b: tonic::service::RoutesBuilder = r.into();
            r = b.routes();
        }
        for g in regs {
            r = register(r, g, w);
        }
        if prepare {
            r.prepare()
        } else {
            r
        }
    }))
}

// ------------------------------------------------------------------ one request
#[derive(Clone, Debug, PartialEq)]
struct Obs {
    hits: Vec<(String, String)>,
    reached: Vec<String>,
    status: Option<Vec<u8>>,
    http: u16,
}
fn request(routes: &Routes, w: &World, uri: &http::Uri) -> Result<Obs, String> {
    w.clear();
    // one gRPC frame holding an empty message: lets the real generated servers reach the handler
    let body = Body::new(http_body_util::Full::new(Bytes::from_static(&[0, 0, 0, 0, 0])));
    let req = http::Request::builder()
        .method("POST")
        .uri(uri.clone())
        .header("content-type", "application/grpc")
        .header("te", "trailers")
        .body(body)
        .unwrap();
    let mut r = routes.clone();
    let res = catch(std::panic::AssertUnwindSafe(|| spin(Service::call(&mut r, req), 100_000)));
    match res {
        Err(p) => Err(format!("panic: {}", p)),
        Ok(Err(())) => Err("hang".into()),
        Ok(Ok(Err(e))) => match e {},
        Ok(Ok(Ok(resp))) => Ok(Obs {
            hits: w.hits(),
            reached: w.reached.lock().unwrap().clone(),
            status: resp.headers().get("grpc-status").map(|v| v.as_bytes().to_vec()),
            http: resp.status().as_u16(),
        }),
    }
}
fn status_num(s: &Option<Vec<u8>>) -> Tr {
    Tr::opt(s.as_ref().map(|v| {
        match std::str::from_utf8(v).ok().and_then(|t| t.parse::<u32>().ok()) {
            Some(n) => Tr::n(n),
            None => Tr::n(999u32),
        }
    }))
}
fn obs_tr(o: &Result<Obs, String>) -> Tr {
    match o {
        Err(_) => Tr::L(vec![Tr::n(97u8)]),
        Ok(o) => {
            let out = if o.hits.len() == 1 && o.reached.len() == 1 && o.reached[0] == o.hits[0].0 {
                Tr::L(vec![Tr::n(0u8), Tr::s(&o.hits[0].0), Tr::s(&o.hits[0].1)])
            } else if o.hits.is_empty() && o.reached.len() == 1 {
                Tr::L(vec![Tr::n(1u8), Tr::s(&o.reached[0])])
            } else if o.hits.is_empty() && o.reached.is_empty() {
                Tr::L(vec![Tr::n(2u8)])
            } else {
                Tr::L(vec![Tr::n(98u8)])
            };
            Tr::L(vec![out, status_num(&o.status)])
        }
    }
}
/// The property, checked directly: independent of the model's route/dispatch split.
fn oracle(regs: &[Reg], path: &str, o: &Result<Obs, String>) -> Option<String> {
    let o = match o {
        Err(e) => return Some(e.clone()),
        Ok(o) => o,
    };
    let mut expected: Vec<(String, String)> = vec![];
    for g in regs {
        for m in g.methods() {
            // an empty identifier is not a method (protobuf has none); see report
            if !m.is_empty() && path == format!("/{}/{}", g.name(), m) {
                expected.push((g.name().to_string(), m));
            }
        }
    }
    if expected.len() > 1 {
        return None; // ambiguous registration (not generated: names are distinct, methods too)
    }
    if let Some(e) = expected.first() {
        if o.hits != vec![e.clone()] {
            return Some(format!("path {:?} is exactly /{}/{} but handlers run: {:?}", path, e.0, e.1, o.hits));
        }
        return None;
    }
    if !o.hits.is_empty() {
        return Some(format!("path {:?} names no registered method but reached handler {:?}", path, o.hits));
    }
    if o.status.as_deref() != Some(b"12") {
        return Some(format!(
            "path {:?} names no registered method but grpc-status header is {:?}, not 12",
            path,
            o.status.as_ref().map(|v| String::from_utf8_lossy(v).to_string())
        ));
    }
    None
}

// ------------------------------------------------------------------ generators
const METHODS: &[&str] = &[
    "Get", "GetX", "Ge", "get", "GET", "List", "Put", "Chat", "Check", "Watch", "type", "M", "m", "a", "a.b",
    "x%2Fy", "Get/x", "\u{e9}", "ServerReflectionInfo", "Get_1",
];
/// groups of names one of which is a prefix / case variant / near miss of another
const FAMILIES: &[&[usize]] = &[
    &[0, 1, 3, 4, 5, 24],  // pkg.Svc pkg.SvcX pkg.Svc.Inner pkg.Sv pkg "pkg.Svc."
    &[0, 6, 7, 2, 8, 25],  // pkg.Svc pkg.svc PKG.SVC Svc svc .Svc
    &[2, 9, 10, 8],        // Svc S Sv svc
    &[11, 12, 13, 14, 23], // a a.b a.b.C a_b.C1 a-b
    &[15, 16, 17],         // health names
    &[18, 27, 26, 19, 20, 21, 22], // x%2Fy x%2fy x a*b a:b "" é
];
fn gen_methods(r: &mut Rng) -> Vec<String> {
    let n = match r.below(8) {
        0 => 0,
        1..=3 => r.range(1, 2),
        _ => r.range(2, 5),
    };
    let mut v: Vec<String> = vec![];
    for _ in 0..n {
        let m = r.pick(METHODS).to_string();
        if !v.contains(&m) {
            v.push(m);
        }
    }
    v
}
fn gen_regs(r: &mut Rng, max: u64, min: u64) -> Vec<Reg> {
    let n = r.range(min, max) as usize;
    let mut v: Vec<Reg> = vec![];
    let fam = *r.pick(FAMILIES);
    let mut tries = 0;
    while v.len() < n && tries < 50 {
        tries += 1;
        let g = if r.chance(1, 4) {
            Reg::Real(r.below(7) as usize)
        } else {
            let idx = if r.chance(3, 4) { *r.pick(fam) } else { r.below(N_MODEL as u64) as usize };
            Reg::Stub { idx, methods: gen_methods(r) }
        };
        if v.iter().all(|x| x.name() != g.name()) {
            v.push(g);
        }
    }
    v
}

fn flip_case(c: char) -> char {
    if c.is_ascii_uppercase() {
        c.to_ascii_lowercase()
    } else {
        c.to_ascii_uppercase()
    }
}
const INS: &[char] = &['/', '.', 'X', 'x', '%', '2', 'F', '_', ';', '*', ':', '-', '{', '}', '\u{e9}', '+', '~', '='];
const MUTATIONS: &[&str] = &[
    "id", "drop", "insert", "case1", "upper", "lower", "seg_after", "seg_before", "trail_slash", "lead_slash",
    "mid_slash", "pct_slash", "pct_slash_lc", "pct_letter", "pct_dot", "query", "query_path", "fragment",
    "absolute", "trunc_svc", "ext_svc", "trunc_m", "ext_m", "drop_m", "drop_all", "no_lead", "dot_seg",
    "dotdot", "semicolon", "swap", "space_pct", "dup",
];
/// one mutation of the URI text (before parsing)
fn mutate(r: &mut Rng, s: &str, svc: &str, m: &str, which: &str) -> String {
    let chars: Vec<char> = s.chars().collect();
    let pos = |r: &mut Rng, incl_end: bool| -> usize {
        let n = chars.len() + incl_end as usize;
        if n == 0 {
            0
        } else {
            r.below(n as u64) as usize
        }
    };
    match which {
        "id" => s.to_string(),
        "drop" if !chars.is_empty() => {
            let i = pos(r, false);
            chars.iter().enumerate().filter(|(j, _)| *j != i).map(|(_, c)| *c).collect()
        }
        "insert" => {
            let i = pos(r, true);
            let c = *r.pick(INS);
            let mut v = chars.clone();
            v.insert(i, c);
            v.into_iter().collect()
        }
        "case1" if !chars.is_empty() => {
            let i = pos(r, false);
            chars.iter().enumerate().map(|(j, c)| if j == i { flip_case(*c) } else { *c }).collect()
        }
        "upper" => s.to_ascii_uppercase(),
        "lower" => s.to_ascii_lowercase(),
        "seg_after" => format!("{}/{}", s, r.pick(&["x", "Get", "", "/", m])),
        "seg_before" => format!("/{}{}", r.pick(&["x", "pkg", svc, "."]), s),
        "trail_slash" => format!("{}/", s),
        "lead_slash" => format!("/{}", s),
        "mid_slash" => format!("/{}//{}", svc, m),
        "pct_slash" => format!("/{}%2F{}", svc, m),
        "pct_slash_lc" => format!("/{}%2f{}", svc, m),
        "pct_letter" if !chars.is_empty() => {
            let i = pos(r, false);
            let mut out = String::new();
            for (j, c) in chars.iter().enumerate() {
                if j == i && c.is_ascii() && *c != '/' {
                    out.push_str(&format!("%{:02X}", *c as u8));
                } else {
                    out.push(*c);
                }
            }
            out
        }
        "pct_dot" => s.replace('.', "%2E"),
        "query" => format!("{}?{}", s, r.pick(&["", "x=1", "a/b", "/"])),
        "query_path" => format!("/{}?/{}", svc, m),
        "fragment" => format!("{}#frag", s),
        "absolute" => format!("{}://{}{}", r.pick(&["http", "https"]), r.pick(&["h", "example.com:50051", "[::1]"]), s),
        "trunc_svc" if !svc.is_empty() => {
            let k = r.below(svc.chars().count() as u64) as usize;
            format!("/{}/{}", svc.chars().take(k).collect::<String>(), m)
        }
        "ext_svc" => format!("/{}{}/{}", svc, r.pick(&["X", ".", ".Inner", "x", "%", "_"]), m),
        "trunc_m" if !m.is_empty() => {
            let k = r.below(m.chars().count() as u64) as usize;
            format!("/{}/{}", svc, m.chars().take(k).collect::<String>())
        }
        "ext_m" => format!("/{}/{}{}", svc, m, r.pick(&["X", "x", ".", "%20", "_"])),
        "drop_m" => format!("/{}", svc),
        "drop_all" => r.pick(&["/", "*", "//", "/.", "/%2F"]).to_string(),
        "no_lead" => s.trim_start_matches('/').to_string(),
        "dot_seg" => format!("/.{}", s),
        "dotdot" => format!("/{}/../{}/{}", svc, svc, m),
        "semicolon" => format!("/{};v=1/{}", svc, m),
        "swap" => format!("/{}/{}", m, svc),
        "space_pct" => format!("/{}%20/{}", svc, m),
        "dup" => format!("{}{}", s, s),
        _ => s.to_string(),
    }
}
fn gen_random_path(r: &mut Rng) -> String {
    let alpha: &[&str] = &["/", "/", "pkg", ".", "Svc", "X", "Get", "S", "a", "%2F", "%", "get", "b", "Inner", "x", "*", "{", "}"];
    let n = r.range(0, 7);
    let mut s = String::new();
    if r.chance(5, 6) {
        s.push('/');
    }
    for _ in 0..n {
        s.push_str(*r.pick(alpha));
    }
    s
}
/// (uri text, description of the mutations)
fn gen_uri(r: &mut Rng, regs: &[Reg]) -> (String, String) {
    if r.chance(1, 10) {
        return (gen_random_path(r), "random".into());
    }
    // base (service, method): mostly a registered pair
    let (svc, m): (String, String) = if !regs.is_empty() && r.chance(4, 5) {
        let g = r.pick(regs);
        let ms = g.methods();
        let m = if ms.is_empty() || r.chance(1, 8) { r.pick(METHODS).to_string() } else { r.pick(&ms).clone() };
        (g.name().to_string(), m)
    } else {
        (STUB_NAMES[r.below(N_MODEL as u64) as usize].to_string(), r.pick(METHODS).to_string())
    };
    let mut s = format!("/{}/{}", svc, m);
    let k = match r.below(10) {
        0 | 1 => 0,
        2..=7 => 1,
        _ => 2,
    };
    let mut desc = vec![];
    for _ in 0..k {
        let which = *r.pick(&MUTATIONS[1..]);
        s = mutate(r, &s, &svc, &m, which);
        desc.push(which);
    }
    if desc.is_empty() {
        desc.push("id");
    }
    (s, desc.join("+"))
}

// ------------------------------------------------------------------ permutations (= Model.Router.perms)
fn insert_all<T: Clone>(x: &T, l: &[T]) -> Vec<Vec<T>> {
    if l.is_empty() {
        return vec![vec![x.clone()]];
    }
    let mut first = vec![x.clone()];
    first.extend_from_slice(l);
    let mut out = vec![first];
    for q in insert_all(x, &l[1..]) {
        let mut v = vec![l[0].clone()];
        v.extend(q);
        out.push(v);
    }
    out
}
fn perms<T: Clone>(l: &[T]) -> Vec<Vec<T>> {
    if l.is_empty() {
        return vec![vec![]];
    }
    let mut out = vec![];
    for p in perms(&l[1..]) {
        out.extend(insert_all(&l[0], &p));
    }
    out
}

// ------------------------------------------------------------------ case kinds
fn outcome_class(o: &Result<Obs, String>) -> &'static str {
    match o {
        Err(_) => "error",
        Ok(o) if !o.hits.is_empty() => "handler",
        Ok(o) if !o.reached.is_empty() => "unimpl.service",
        Ok(_) => "unimpl.fallback",
    }
}
struct Ctx {
    out: Out,
    w: World,
    unparsable: u64,
}
impl Ctx {
    /// kind serve: registration in the given order, one request
    fn serve(&mut self, kind: &str, regs: &[Reg], routes: &Result<Routes, String>, uri_text: &str, mutation: &str, prepare: bool) {
        let uri: http::Uri = match uri_text.parse() {
            Ok(u) => u,
            Err(_) => {
                self.unparsable += 1;
                self.out.hist("uri", "rejected by http::Uri (not sent)");
                return;
            }
        };
        self.out.hist("uri", "parsed");
        let path = uri.path().to_string();
        let (obs, orc) = match routes {
            Err(p) => (Tr::L(vec![Tr::n(99u8)]), Some(format!("registration panicked: {}", p))),
            Ok(routes) => {
                let o = request(routes, &self.w, &uri);
                self.out.hist("outcome", outcome_class(&o));
                let mut orc = oracle(regs, &path, &o);
                if orc.is_none() {
                    if let Ok(o) = &o {
                        if o.http != 200 {
                            orc = Some(format!("HTTP status {}", o.http));
                        }
                    }
                }
                (obs_tr(&o), orc)
            }
        };
        self.out.hist("services", regs.len());
        self.out.hist("real_generated_servers", regs.iter().filter(|g| matches!(g, Reg::Real(_))).count());
        for m in mutation.split('+') {
            self.out.hist("mutation", m);
        }
        let model = format!("obs_serve {} {}", coq_list(regs, |g| g.coq()), coq_bytes(path.as_bytes()));
        self.out.push(Case {
            kind: kind.to_string(),
            input: json!({"services": regs.iter().map(|g| g.json()).collect::<Vec<_>>(), "uri": uri_text, "path": path, "prepare": prepare, "mutation": mutation}),
            model,
            impl_obs: obs,
            oracle: orc,
            nontrivial: !regs.is_empty() && path.len() > 1,
        });
    }
    /// kind orders: the same request against every registration order of <= 4 services
    fn orders(&mut self, kind: &str, regs: &[Reg], all: &[(Vec<Reg>, Result<Routes, String>)], uri_text: &str, mutation: &str) {
        let uri: http::Uri = match uri_text.parse() {
            Ok(u) => u,
            Err(_) => {
                self.unparsable += 1;
                self.out.hist("uri", "rejected by http::Uri (not sent)");
                return;
            }
        };
        self.out.hist("uri", "parsed");
        let path = uri.path().to_string();
        let mut trs = vec![];
        let mut orc: Option<String> = None;
        let mut first: Option<Result<Obs, String>> = None;
        for (order, routes) in all {
            match routes {
                Err(p) => {
                    trs.push(Tr::L(vec![Tr::n(99u8)]));
                    orc = orc.or(Some(format!("registration panicked: {}", p)));
                }
                Ok(routes) => {
                    let o = request(routes, &self.w, &uri);
                    orc = orc.or(oracle(order, &path, &o));
                    trs.push(obs_tr(&o));
                    match &first {
                        None => first = Some(o),
                        Some(f) => {
                            if *f != o && orc.is_none() {
                                orc = Some(format!(
                                    "registration order changes the answer: {:?} vs {:?} (order {:?})",
                                    f,
                                    o,
                                    order.iter().map(|g| g.name()).collect::<Vec<_>>()
                                ));
                            }
                        }
                    }
                }
            }
        }
        if let Some(f) = &first {
            self.out.hist("outcome", outcome_class(f));
        }
        self.out.hist("orders.services", regs.len());
        for m in mutation.split('+') {
            self.out.hist("mutation", m);
        }
        let model = format!("obs_orders {} {}", coq_list(regs, |g| g.coq()), coq_bytes(path.as_bytes()));
        self.out.push(Case {
            kind: kind.to_string(),
            input: json!({"services": regs.iter().map(|g| g.json()).collect::<Vec<_>>(), "uri": uri_text, "path": path, "orders": all.len(), "mutation": mutation}),
            model,
            impl_obs: Tr::L(trs),
            oracle: orc,
            nontrivial: regs.len() >= 2 && path.len() > 1,
        });
    }
    /// kind build: does registration panic (duplicates, names axum rejects)
    fn build_case(&mut self, kind: &str, regs: &[Reg]) {
        let r = build(regs, &self.w, false, false);
        let names: Vec<&str> = regs.iter().map(|g| g.name()).collect();
        let distinct = (0..names.len()).all(|i| (0..i).all(|j| names[i] != names[j]));
        let rejected = names.iter().any(|n| n.starts_with('*') || n.starts_with(':'));
        // the property speaks of a SET of services: distinct accepted names must register
        let orc = match &r {
            Err(p) if distinct && !rejected => Some(format!("registering distinct names {:?} panicked: {}", names, p)),
            _ => None,
        };
        self.out.hist("build", if r.is_ok() { "ok" } else if !distinct { "panic (duplicate name)" } else { "panic (name rejected by axum)" });
        self.out.push(Case {
            kind: kind.to_string(),
            input: json!({"services": regs.iter().map(|g| g.json()).collect::<Vec<_>>()}),
            model: format!("obs_build {}", coq_list(regs, |g| g.coq())),
            impl_obs: match r {
                Ok(_) => Tr::L(vec![Tr::n(1u8), Tr::n(regs.len() as u64)]),
                Err(_) => Tr::L(vec![Tr::n(0u8)]),
            },
            oracle: orc,
            nontrivial: regs.len() >= 2,
        });
    }
}

fn all_orders(regs: &[Reg], w: &World) -> Vec<(Vec<Reg>, Result<Routes, String>)> {
    perms(regs).into_iter().map(|p| { let r = build(&p, w, false, false); (p, r) }).collect()
}

const CORPUS_PATHS: &[&str] = &[
    "/pkg.Svc/Get", "/pkg.Svc/List", "/pkg.Svc/Put", "/pkg.Svc/Chat", "/pkg.SvcX/Get", "/pkg.SvcX/GetX", "/pkg.SvcX/Ge",
    "/Svc/Get", "/Svc/get", "/Svc/GET", "/pkg.Svc.Inner/Get", "/pkg.Svc.Inner/type",
    "/grpc.health.v1.Health/Check", "/grpc.health.v1.Health/Watch", "/grpc.health.v1.Health/check",
    "/grpc.health.v1.Healt/Check", "/grpc.health.v1.HealthX/Check", "/grpc.health.v1.Health/Check/",
    "/grpc.reflection.v1.ServerReflection/ServerReflectionInfo", "/grpc.reflection.v1alpha.ServerReflection/ServerReflectionInfo",
    "/grpc.reflection.v1.ServerReflection/serverReflectionInfo", "/grpc.reflection.v1beta.ServerReflection/ServerReflectionInfo",
    // the near misses of Props/C10.v c10_examples
    "/pkg.Other/Get", "/pkg.Svc/Nope", "/pkg.Sv/Get", "/pkg.SvcXY/Get", "/pkg/Svc/Get", "/pkg.Svc/Ge", "/pkg.Svc/GetX",
    "/pkg.Svc/Get/x", "/pkg.Svc/Get/", "/pkg.Svc//Get", "//pkg.Svc/Get", "/pkg.Svc/", "/pkg.Svc", "/", "*",
    "/pkg.svc/Get", "/pkg.Svc/GET", "/PKG.SVC/GET", "/pkg.Svc%2FGet", "/pkg.Svc%2fGet", "/pkg.Svc/%47et", "/pkg%2ESvc/Get",
    "/pkg.Svc/Get?x=1", "/pkg.Svc/Get?", "/pkg.Svc?/Get", "/pkg.Svc/Get#f", "http://h/pkg.Svc/Get", "https://example.com:443/pkg.Svc/Get/",
    "http://h", "/pkg.Svc/Get%20", "/pkg.Svc/Get;v=1", "/pkg.Svc;v=1/Get", "/./pkg.Svc/Get", "/pkg.Svc/../pkg.Svc/Get",
    "/pkg.Svc/%FF", "/pkg.Svc/\u{e9}", "/pkg.Svc./Get", "/.pkg.Svc/Get", "/pkg.Svc.Inner/Get/Get", "/pkg.Svc.Inne/Get",
    "/pkg.Svc/Inner/Get", "/Svc/Svc/Get", "/pkg.Svc/pkg.Svc/Get", "/pkg.Svc/{*rest}", "/{S}/Get", "/pkg.Svc/*",
];

fn run_replay(ctx: &mut Ctx, file: &str) {
    let v: Value = serde_json::from_str(&std::fs::read_to_string(file).expect("replay file")).expect("json");
    let kind = v["kind"].as_str().unwrap_or("serve").to_string();
    let input = &v["input"];
    let regs: Vec<Reg> = input["services"].as_array().unwrap().iter().map(Reg::from_json).collect();
    if kind.ends_with("build") {
        ctx.build_case(&kind, &regs);
    } else if kind.ends_with("orders") {
        let all = all_orders(&regs, &ctx.w);
        ctx.orders(&kind, &regs, &all, input["uri"].as_str().unwrap(), input["mutation"].as_str().unwrap_or("id"));
    } else {
        let prepare = input["prepare"].as_bool().unwrap_or(false);
        let routes = build(&regs, &ctx.w, prepare, false);
        ctx.serve(&kind, &regs, &routes, input["uri"].as_str().unwrap(), input["mutation"].as_str().unwrap_or("id"), prepare);
    }
}

fn main() {
    let a = args();
    let mut ctx = Ctx { out: Out::new(&a.out), w: World::default(), unparsable: 0 };
    let mut r = Rng::new(a.seed);
    const RULE: &str = "serve: 0..8 services (stubs transcribing the generated `call` + 7 real generated servers, names drawn from prefix/case families, with and without package) registered on Routes::default() [optionally prepare()], one request whose URI is a registered /S/M under 0-2 of 31 mutations (drop/insert/case/extra+empty segments/%2F/percent-escapes/query/fragment/absolute-form/prefix truncation+extension/...) or random; orders: 1..4 services, the same request against ALL n! registration orders; build: registration with duplicate and rejected names. Non-trivial = at least one (orders: two) services and a path other than '/'. Distinct = distinct (kind, model expression).";

    if let Some(f) = &a.replay {
        run_replay(&mut ctx, f);
        ctx.out.finish(IMPORTS, RULE, json!({"replay": f}));
        return;
    }

    // ---- corpus: all 7 real generated servers, the hand-picked near misses ----
    let real: Vec<Reg> = (0..7).map(Reg::Real).collect();
    for prepare in [false, true] {
        let routes = build(&real, &ctx.w, prepare, prepare);
        for p in CORPUS_PATHS {
            ctx.serve("corpus.serve", &real, &routes, p, "corpus", prepare);
        }
    }
    // the same names as stubs (finer observable is identical), incl. odd but legal names
    let stubs: Vec<Reg> = vec![
        Reg::Stub { idx: 0, methods: vec!["Get".into(), "List".into()] },
        Reg::Stub { idx: 1, methods: vec!["Get".into(), "GetX".into()] },
        Reg::Stub { idx: 2, methods: vec!["Get".into(), "get".into()] },
        Reg::Stub { idx: 3, methods: vec!["Get".into()] },
    ];
    let all = all_orders(&stubs, &ctx.w);
    for p in CORPUS_PATHS {
        ctx.orders("corpus.orders", &stubs, &all, p, "corpus");
    }
    let odd: Vec<Reg> = vec![
        Reg::Stub { idx: 21, methods: vec!["M".into()] },           // NAME = ""
        Reg::Stub { idx: 18, methods: vec!["M".into(), "x%2Fy".into()] }, // NAME = "x%2Fy"
        Reg::Stub { idx: 26, methods: vec!["M".into(), "Get/x".into(), "".into()] }, // NAME = "x": a method with '/', an empty method
        Reg::Stub { idx: 19, methods: vec!["M".into()] },           // a*b
    ];
    let all = all_orders(&odd, &ctx.w);
    for p in ["//M", "/x%2Fy/M", "/x%2fy/M", "/x/y/M", "/x%2Fy/x%2Fy", "/x/Get/x", "/x/Get", "/x/", "/x", "/a*b/M", "/aXb/M", "/a%2Ab/M", "///M", "//", "/"] {
        ctx.orders("corpus.orders", &odd, &all, p, "corpus");
    }
    // registration panics
    for regs in [
        vec![Reg::Real(0), Reg::Stub { idx: 0, methods: vec![] }],
        vec![Reg::Stub { idx: 2, methods: vec![] }, Reg::Real(2)],
        vec![Reg::Stub { idx: 28, methods: vec![] }],
        vec![Reg::Stub { idx: 9, methods: vec![] }, Reg::Stub { idx: 29, methods: vec![] }],
        vec![Reg::Stub { idx: 19, methods: vec![] }, Reg::Stub { idx: 20, methods: vec![] }, Reg::Stub { idx: 21, methods: vec![] }],
        vec![],
        real.clone(),
    ] {
        ctx.build_case("corpus.build", &regs);
    }

    // ---- generated ----
    let (n_orders, paths_per, n_serve_sc, n_build) = if a.thorough { (700, 12, 2200, 600) } else { (70, 10, 160, 80) };
    for _ in 0..n_orders {
        let regs = gen_regs(&mut r, 4, 1);
        let all = all_orders(&regs, &ctx.w);
        for _ in 0..paths_per {
            let (u, d) = gen_uri(&mut r, &regs);
            ctx.orders("orders", &regs, &all, &u, &d);
        }
    }
    for _ in 0..n_serve_sc {
        let regs = gen_regs(&mut r, 8, 0);
        let prepare = r.chance(1, 2);
        let routes = build(&regs, &ctx.w, prepare, r.chance(1, 3));
        for _ in 0..paths_per {
            let (u, d) = gen_uri(&mut r, &regs);
            ctx.serve("serve", &regs, &routes, &u, &d, prepare);
        }
    }
    for _ in 0..n_build {
        let n = r.range(0, 5);
        let mut regs = vec![];
        for _ in 0..n {
            regs.push(if r.chance(1, 4) {
                Reg::Real(r.below(7) as usize)
            } else if r.chance(1, 6) {
                Reg::Stub { idx: r.range(28, 29) as usize, methods: vec![] }
            } else {
                Reg::Stub { idx: *r.pick(&[0usize, 1, 2, 3, 4, 15, 19, 20, 21]), methods: gen_methods(&mut r) }
            });
        }
        ctx.build_case("build", &regs);
    }

    let unparsable = ctx.unparsable;
    ctx.out.finish(IMPORTS, RULE, json!({"uris_rejected_by_http_crate_and_not_sent": unparsable}));
}
