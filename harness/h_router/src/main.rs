//! C10 correspondence harness: real `tonic::service::Routes` (axum/matchit underneath) with
//!  * stub services (`NamedService` + `tower::Service`) whose `call` is a transcription of the
//!    generated one (match the raw path against "/NAME/Method" literals, default arm = 12), and
//!  * REAL generated servers: four built at compile time by /repo's generator (build.rs: names that
//!    are prefixes of one another, with / without package) and the three committed in /repo
//!    (health, reflection v1 + v1alpha).
//! Registration paths driven: Routes::default().add_service, Routes::new, RoutesBuilder::add_service
//! (&mut, as a builder), RoutesBuilder::from(Routes), prepare(), and
//! tonic::transport::Server::builder().add_service / add_optional_service(Some|None) +
//! transport Router::add_service / add_optional_service, served with serve_with_incoming over
//! tokio::io::duplex and driven by a raw h2 client.  NamedService::NAME reaches the router through
//! this harness' own `Wrap`, or through tonic's own propagation: InterceptedService::new(svc, f),
//! the generated XxxServer::with_interceptor(inner, f), and Layered (LayerExt::named_layer).
//! Added after AUDIT2: six generated servers AND clients whose Rust type name is not the proto
//! identifier (build.rs id_fixture: tonic_build::CodeGenBuilder over our own Service / Method
//! impls, emit_package on / off), every real generated server described to the model by its
//! tonic-build descriptor (package, name(), identifier()), request methods other than POST,
//! Routes built on a caller-supplied axum::Router (kind from_axum), Router::serve /
//! serve_with_shutdown over 127.0.0.1, names outside the modelled name space (kind *.outside).
//! Every request is judged by a direct oracle (handler hit iff path == "/S/M" literally, else a
//! well-formed UNIMPLEMENTED response and no handler) and compared with `Model/Router.v` inside Coq.
use bytes::Bytes;
use h_router::{Rec, COMMITTED, COMMITTED_DESC, FIXTURE, FIXTURE_DESC, ID_FIXTURE};
use http::HeaderMap;
use serde_json::{json, Value};
use std::convert::Infallible;
use std::sync::{Arc, Mutex};
use tonic::body::Body;
use tonic::server::NamedService;
use tonic::service::interceptor::InterceptedService;
use tonic::service::{LayerExt, Routes, RoutesBuilder};
use tonic::transport::server::Router as TRouter;
use tonic::transport::Server;
use tower_service::Service;
use vcommon::body::spin;
use vcommon::*;

const IMPORTS: &str = "From Verif Require Import Lib.Bytes Lib.Obs Model.Router.";

// ------------------------------------------------------------------ stub services
/// `NamedService::NAME` is a const, so stubs are indexed by a const generic into this pool.
/// 0..N_MODEL are inside the modelled name space (no '/', '{', '}'), the rest make axum panic.
const STUB_NAMES: [&str; 56] = [
    "pkg.Svc", "pkg.SvcX", "Svc", "pkg.Svc.Inner", "pkg.Sv", "pkg", "pkg.svc", "PKG.SVC", "svc", "S",
    "Sv", "a", "a.b", "a.b.C", "a_b.C1", "grpc.health.v1.Health", "grpc.health.v1.Healt",
    "grpc.health.v1.HealthX", "x%2Fy", "a*b", "a:b", "", "\u{e9}", "a-b", "pkg.Svc.", ".Svc", "x", "x%2fy",
    // 28, 29: axum's v0.7 check rejects them (panic)
    "*a", ":a",
    // 30..: more of the modelled name space
    "pkg.Svc2", "pkg.Svc_", "pkg_Svc", "pkg..Svc", "Pkg.Svc", "pkg.SVC", "a.b.c.d.e.F",
    "very.long.package.name.with.many.segments.v1beta1.AnExtraordinarilyLongServiceNameThatGoesOnAndOnAndOnService",
    "0", "~", "a+b", "a=b", "a;b", "a,b", "a@b", "a!b",
    // 46, 47: the NAMEs of two identifier-fixture servers (duplicates of generated servers)
    "pkg.HTTPEcho", "greeter",
    // 48..: OUTSIDE the modelled name space ('/', '{', '}': matchit syntax / extra segments)
    "a/b", "{", "}", "{x}", "{y}", "a/:b", "{*rest}", "a{b}c",
];
/// indices 0..N_MODEL are inside the modelled name space
const N_MODEL: usize = 48;
/// .. of which these make axum's registration panic
const REJECTED: [usize; 2] = [28, 29];
fn name_in_model(n: &str) -> bool {
    !n.contains(['/', '{', '}'])
}

type HitLog = Arc<Mutex<Vec<(String, String)>>>;
type ReachLog = Arc<Mutex<Vec<String>>>;

#[derive(Clone)]
struct Stub<const I: usize> {
    hits: HitLog,
    methods: Arc<Vec<String>>,
}
impl<const I: usize> NamedService for Stub<I> {
    const NAME: &'static str = STUB_NAMES[I];
}
impl<const I: usize> Service<http::Request<Body>> for Stub<I> {
    type Response = http::Response<Body>;
    type Error = Infallible;
    type Future = std::future::Ready<Result<Self::Response, Infallible>>;
    fn poll_ready(&mut self, _: &mut std::task::Context<'_>) -> std::task::Poll<Result<(), Infallible>> {
        std::task::Poll::Ready(Ok(()))
    }
    // transcription of the generated `call` (tonic-build/src/server.rs): literal arms, default arm
    fn call(&mut self, req: http::Request<Body>) -> Self::Future {
        let path = req.uri().path();
        for m in self.methods.iter() {
            if path == format!("/{}/{}", STUB_NAMES[I], m) {
                self.hits.lock().unwrap().push((STUB_NAMES[I].to_string(), m.clone()));
                return std::future::ready(Ok(http::Response::new(Body::default())));
            }
        }
        let mut response = http::Response::new(Body::default());
        let headers = response.headers_mut();
        headers.insert(tonic::Status::GRPC_STATUS, (tonic::Code::Unimplemented as i32).into());
        headers.insert(http::header::CONTENT_TYPE, tonic::metadata::GRPC_CONTENT_TYPE);
        std::future::ready(Ok(response))
    }
}

// ------------------------------------------------------------------ recorders
/// How::Plain: records that the service registered under `S::NAME` was reached, then delegates
#[derive(Clone)]
struct Wrap<S> {
    inner: S,
    reached: ReachLog,
}
impl<S: NamedService> NamedService for Wrap<S> {
    const NAME: &'static str = S::NAME;
}
impl<S> Service<http::Request<Body>> for Wrap<S>
where
    S: Service<http::Request<Body>, Response = http::Response<Body>, Error = Infallible> + NamedService,
{
    type Response = http::Response<Body>;
    type Error = Infallible;
    type Future = S::Future;
    fn poll_ready(&mut self, cx: &mut std::task::Context<'_>) -> std::task::Poll<Result<(), Infallible>> {
        self.inner.poll_ready(cx)
    }
    fn call(&mut self, req: http::Request<Body>) -> Self::Future {
        self.reached.lock().unwrap().push(S::NAME.to_string());
        self.inner.call(req)
    }
}
/// How::Intercepted / WithInterceptor: the interceptor records the name the harness EXPECTS the
/// wrapped service to be routed under; NamedService comes from tonic's InterceptedService impl
fn icpt(reached: ReachLog, name: &'static str) -> impl tonic::service::Interceptor + Clone + Send + Sync + 'static {
    move |req: tonic::Request<()>| {
        reached.lock().unwrap().push(name.to_string());
        Ok(req)
    }
}
/// How::Layered: a tower Layer whose service has NO NamedService impl; the name comes from
/// tonic's `Layered<_, S>` (LayerExt::named_layer)
#[derive(Clone)]
struct RecLayer {
    reached: ReachLog,
    name: &'static str,
}
#[derive(Clone)]
struct RecSvc<S> {
    inner: S,
    reached: ReachLog,
    name: &'static str,
}
impl<S> tower_layer::Layer<S> for RecLayer {
    type Service = RecSvc<S>;
    fn layer(&self, inner: S) -> RecSvc<S> {
        RecSvc { inner, reached: self.reached.clone(), name: self.name }
    }
}
impl<S, R> Service<R> for RecSvc<S>
where
    S: Service<R>,
{
    type Response = S::Response;
    type Error = S::Error;
    type Future = S::Future;
    fn poll_ready(&mut self, cx: &mut std::task::Context<'_>) -> std::task::Poll<Result<(), S::Error>> {
        self.inner.poll_ready(cx)
    }
    fn call(&mut self, req: R) -> Self::Future {
        self.reached.lock().unwrap().push(self.name.to_string());
        self.inner.call(req)
    }
}

// ------------------------------------------------------------------ registrations
#[derive(Clone, Debug, PartialEq)]
enum Kind {
    Stub { idx: usize, methods: Vec<String> },
    /// 0..4 = FIXTURE (tonic_build::manual, generated at build time), 4.. = COMMITTED (health, reflection)
    Real(usize),
    /// ID_FIXTURE[k]: generated through CodeGenBuilder from a descriptor with name() != identifier()
    Gen(usize),
}
#[derive(Clone, Copy, Debug, PartialEq)]
enum How {
    Plain,
    Intercepted,
    WithInterceptor,
    Layered,
    /// GrpcWebLayer::new().layer(svc) = tonic_web::GrpcWebService<svc>: NAME by tonic-web's impl
    GrpcWeb,
    /// Stack(RecLayer, GrpcWebLayer).named_layer(svc): NAME by tonic's Layered around GrpcWebService
    GrpcWebLayered,
}
const HOWS: [How; 6] = [How::Plain, How::Intercepted, How::WithInterceptor, How::Layered, How::GrpcWeb, How::GrpcWebLayered];
impl How {
    fn s(self) -> &'static str {
        match self {
            How::Plain => "harness Wrap",
            How::Intercepted => "InterceptedService::new",
            How::WithInterceptor => "XxxServer::with_interceptor",
            How::Layered => "Layered (named_layer)",
            How::GrpcWeb => "tonic_web::GrpcWebService (GrpcWebLayer::layer)",
            How::GrpcWebLayered => "Layered over GrpcWebLayer (named_layer)",
        }
    }
    fn parse(s: &str) -> How {
        HOWS.into_iter().find(|h| h.s() == s).unwrap_or(How::Plain)
    }
}
#[derive(Clone, Debug, PartialEq)]
struct Reg {
    kind: Kind,
    how: How,
    /// transport only: None = add_service, Some(true) = add_optional_service(Some(svc)),
    /// Some(false) = add_optional_service(None): nothing is registered
    opt: Option<bool>,
}
/// what tonic-build was told about a generated server: (Service::name(), package, identifier(),
/// emit_package, [(Method::name(), Method::identifier())])
struct Desc {
    rust_name: &'static str,
    package: &'static str,
    ident: &'static str,
    emit_package: bool,
    methods: Vec<(&'static str, &'static str)>,
}
impl Reg {
    fn stub(idx: usize, methods: &[&str]) -> Reg {
        Reg { kind: Kind::Stub { idx, methods: methods.iter().map(|m| m.to_string()).collect() }, how: How::Plain, opt: None }
    }
    fn real(k: usize) -> Reg {
        Reg { kind: Kind::Real(k), how: How::Plain, opt: None }
    }
    fn gen(k: usize) -> Reg {
        Reg { kind: Kind::Gen(k), how: How::Plain, opt: None }
    }
    fn present(&self) -> bool {
        self.opt != Some(false)
    }
    fn is_real(&self) -> bool {
        !matches!(self.kind, Kind::Stub { .. })
    }
    /// the name the service MUST be routed under (hand-written tables, proto spelling)
    fn name(&self) -> &'static str {
        match &self.kind {
            Kind::Stub { idx, .. } => STUB_NAMES[*idx],
            Kind::Real(k) if *k < 4 => FIXTURE[*k].0,
            Kind::Real(k) => COMMITTED[*k - 4].0,
            Kind::Gen(k) => ID_FIXTURE[*k].route,
        }
    }
    /// the proto method names
    fn methods(&self) -> Vec<String> {
        match &self.kind {
            Kind::Stub { methods, .. } => methods.clone(),
            Kind::Real(k) if *k < 4 => FIXTURE[*k].1.iter().map(|m| m.0.to_string()).collect(),
            Kind::Real(k) => COMMITTED[*k - 4].1.iter().map(|m| m.0.to_string()).collect(),
            Kind::Gen(k) => ID_FIXTURE[*k].methods.iter().map(|m| m.1.to_string()).collect(),
        }
    }
    fn desc(&self) -> Option<Desc> {
        match &self.kind {
            Kind::Stub { .. } => None,
            Kind::Real(k) => {
                let (d, f) = if *k < 4 { (&FIXTURE_DESC[*k], &FIXTURE[*k]) } else { (&COMMITTED_DESC[*k - 4], &COMMITTED[*k - 4]) };
                Some(Desc { rust_name: d.1, package: d.0, ident: d.1, emit_package: true, methods: d.2.iter().cloned().zip(f.1.iter().map(|m| m.0)).collect() })
            }
            Kind::Gen(k) => {
                let f = &ID_FIXTURE[*k];
                Some(Desc { rust_name: f.rust_name, package: f.package, ident: f.ident, emit_package: f.emit_package, methods: f.methods.iter().map(|m| (m.0, m.1)).collect() })
            }
        }
    }
    /// Rust-side spellings (for the near-miss generator): "<package>.<Service::name()>" and the fn names
    fn rust_spellings(&self) -> (String, Vec<String>) {
        match self.desc() {
            None => (upper_camel(self.name()), self.methods().iter().map(|m| snake(m)).collect()),
            Some(d) => {
                let n = if d.package.is_empty() { d.rust_name.to_string() } else { format!("{}.{}", d.package, d.rust_name) };
                (n, d.methods.iter().map(|m| m.0.trim_start_matches("r#").to_string()).collect())
            }
        }
    }
    fn coq(&self) -> String {
        let b = |s: &str| coq_bytes(s.as_bytes());
        match self.desc() {
            None => format!("(RStub (mkSvc {} {}))", b(self.name()), coq_list(&self.methods(), |m| b(m))),
            Some(d) => format!(
                "(RGen (mkTS {} {} {} {}) {})",
                b(d.rust_name),
                b(d.package),
                b(d.ident),
                coq_list(&d.methods, |m| format!("(mkTM {} {})", b(m.0), b(m.1))),
                coq_bool(d.emit_package)
            ),
        }
    }
    fn json(&self) -> Value {
        let id = match self.kind {
            Kind::Gen(k) => Some(k),
            _ => None,
        };
        let d = self.desc().map(|d| json!({"rust_name": d.rust_name, "package": d.package, "identifier": d.ident, "emit_package": d.emit_package}));
        json!({"name": self.name(), "methods": self.methods(), "real": self.is_real(), "id_fixture": id, "descriptor": d, "how": self.how.s(), "optional": self.opt})
    }
    fn from_json(v: &Value) -> Reg {
        let name = v["name"].as_str().unwrap();
        let kind = if let Some(k) = v["id_fixture"].as_u64() {
            Kind::Gen(k as usize)
        } else if v["real"].as_bool().unwrap_or(false) {
            Kind::Real(FIXTURE.iter().map(|f| f.0).chain(COMMITTED.iter().map(|f| f.0)).position(|n| n == name).unwrap())
        } else {
            Kind::Stub {
                idx: STUB_NAMES.iter().position(|n| *n == name).unwrap(),
                methods: v["methods"].as_array().unwrap().iter().map(|m| m.as_str().unwrap().to_string()).collect(),
            }
        };
        Reg { kind, how: How::parse(v["how"].as_str().unwrap_or("")), opt: v["optional"].as_bool() }
    }
}
/// prost-build's rendering of a proto name as a Rust type name (heck UpperCamelCase, last dotted
/// segment): HTTPEcho -> HttpEcho, Echo_V2 -> EchoV2, greeter -> Greeter
fn upper_camel(full: &str) -> String {
    let (pkg, last) = match full.rfind('.') {
        Some(i) => (&full[..=i], &full[i + 1..]),
        None => ("", full),
    };
    let mut out = String::new();
    let cs: Vec<char> = last.chars().collect();
    let mut start = true;
    for (i, c) in cs.iter().enumerate() {
        if *c == '_' || *c == '-' {
            start = true;
            continue;
        }
        let prev_upper = i > 0 && cs[i - 1].is_uppercase();
        let next_lower = cs.get(i + 1).map(|n| n.is_lowercase()).unwrap_or(false);
        if start {
            out.extend(c.to_uppercase());
        } else if c.is_uppercase() && prev_upper && !next_lower {
            out.extend(c.to_lowercase());
        } else {
            out.push(*c);
        }
        start = false;
    }
    format!("{}{}", pkg, out)
}
fn snake(m: &str) -> String {
    let mut s = String::new();
    let cs: Vec<char> = m.chars().collect();
    for (i, c) in cs.iter().enumerate() {
        if c.is_uppercase() && i > 0 && !cs[i - 1].is_uppercase() && cs[i - 1] != '_' {
            s.push('_');
        }
        s.extend(c.to_lowercase());
    }
    s
}
/// the registrations the model sees: add_optional_service(None) registers nothing
fn present(regs: &[Reg]) -> Vec<Reg> {
    regs.iter().filter(|g| g.present()).cloned().collect()
}
fn all_in_model(regs: &[Reg]) -> bool {
    regs.iter().all(|g| name_in_model(g.name()))
}

#[derive(Clone, Default)]
struct World {
    reached: ReachLog,
    stub_hits: HitLog,
    rec: Rec,
}
impl World {
    fn clear(&self) {
        self.reached.lock().unwrap().clear();
        self.stub_hits.lock().unwrap().clear();
        self.rec.hits.lock().unwrap().clear();
    }
    fn hits(&self) -> Vec<(String, String)> {
        let mut v = self.stub_hits.lock().unwrap().clone();
        v.extend(self.rec.hits.lock().unwrap().iter().map(|(s, m, _)| (s.clone(), m.clone())));
        v
    }
}

/// Server::builder().layer(PassLayer): a tower layer around the whole Routes that lets every
/// request through (and counts them) - routing must not notice it
#[derive(Clone, Default)]
struct PassLayer {
    seen: Arc<Mutex<u64>>,
}
#[derive(Clone)]
struct PassSvc<S> {
    inner: S,
    seen: Arc<Mutex<u64>>,
}
impl<S> tower_layer::Layer<S> for PassLayer {
    type Service = PassSvc<S>;
    fn layer(&self, inner: S) -> PassSvc<S> {
        PassSvc { inner, seen: self.seen.clone() }
    }
}
impl<S, R> Service<R> for PassSvc<S>
where
    S: Service<R>,
{
    type Response = S::Response;
    type Error = S::Error;
    type Future = S::Future;
    fn poll_ready(&mut self, cx: &mut std::task::Context<'_>) -> std::task::Poll<Result<(), S::Error>> {
        self.inner.poll_ready(cx)
    }
    fn call(&mut self, req: R) -> Self::Future {
        *self.seen.lock().unwrap() += 1;
        self.inner.call(req)
    }
}
type LStack = tower_layer::Stack<PassLayer, tower_layer::Identity>;
type LRouter = tonic::transport::server::Router<LStack>;
enum AnyRouter {
    Plain(TRouter),
    Layered(LRouter, Arc<Mutex<u64>>),
}

/// the thing `add_service` is called on
enum Target {
    /// Routes::new(first) then Routes::add_service
    Fresh,
    Routes(Routes),
    /// RoutesBuilder::add_service(&mut self, ..) used as a builder
    Builder(RoutesBuilder),
    /// tonic::transport::Server::builder(): the first add turns it into a transport Router
    Server(Server),
    Router(TRouter),
    /// the same behind Server::builder().layer(..)
    ServerL(Server<LStack>),
    RouterL(LRouter),
}
impl Target {
    fn add<S>(self, svc: S, opt: Option<bool>) -> Target
    where
        S: Service<http::Request<Body>, Error = Infallible> + NamedService + Clone + Send + Sync + 'static,
        S::Response: axum::response::IntoResponse,
        S::Future: Send + 'static,
    {
        // Routes has no optional API: a service passed as add_optional_service(None) elsewhere is
        // simply not added here
        if opt == Some(false) && matches!(self, Target::Fresh | Target::Routes(_) | Target::Builder(_)) {
            return self;
        }
        match self {
            Target::Fresh => Target::Routes(Routes::new(svc)),
            Target::Routes(r) => Target::Routes(r.add_service(svc)),
            Target::Builder(mut b) => {
                b.add_service(svc);
                Target::Builder(b)
            }
            Target::Server(mut s) => Target::Router(match opt {
                None => s.add_service(svc),
                Some(true) => s.add_optional_service(Some(svc)),
                Some(false) => s.add_optional_service(None::<S>),
            }),
            Target::Router(r) => Target::Router(match opt {
                None => r.add_service(svc),
                Some(true) => r.add_optional_service(Some(svc)),
                Some(false) => r.add_optional_service(None::<S>),
            }),
            Target::ServerL(mut s) => Target::RouterL(match opt {
                None => s.add_service(svc),
                Some(true) => s.add_optional_service(Some(svc)),
                Some(false) => s.add_optional_service(None::<S>),
            }),
            Target::RouterL(r) => Target::RouterL(match opt {
                None => r.add_service(svc),
                Some(true) => r.add_optional_service(Some(svc)),
                Some(false) => r.add_optional_service(None::<S>),
            }),
        }
    }
}
fn reg_generic<S>(t: Target, svc: S, how: How, name: &'static str, w: &World, opt: Option<bool>) -> Target
where
    S: Service<http::Request<Body>, Response = http::Response<Body>, Error = Infallible> + NamedService + Clone + Send + Sync + 'static,
    S::Future: Send + 'static,
{
    let reached = w.reached.clone();
    match how {
        How::Plain => t.add(Wrap { inner: svc, reached }, opt),
        How::Intercepted | How::WithInterceptor => t.add(InterceptedService::new(svc, icpt(reached, name)), opt),
        How::Layered => t.add(RecLayer { reached, name }.named_layer(svc), opt),
        // a gRPC (not grpc-web) HTTP/2 request must pass through GrpcWebService untouched
        How::GrpcWeb => t.add(tower_layer::Layer::layer(&tonic_web::GrpcWebLayer::new(), Wrap { inner: svc, reached }), opt),
        How::GrpcWebLayered => t.add(tower_layer::Stack::new(RecLayer { reached, name }, tonic_web::GrpcWebLayer::new()).named_layer(svc), opt),
    }
}
macro_rules! add_stub {
    ($t:expr, $i:expr, $w:expr, $methods:expr, $how:expr, $opt:expr; $($n:literal)* ; $($o:literal)*) => {
        match $i {
            $($n => reg_generic($t, Stub::<$n> { hits: $w.stub_hits.clone(), methods: $methods }, $how, STUB_NAMES[$n], $w, $opt),)*
            // names outside the modelled name space: plain registration only
            $($o => $t.add(Wrap { inner: Stub::<$o> { hits: $w.stub_hits.clone(), methods: $methods }, reached: $w.reached.clone() }, $opt),)*
            _ => panic!("stub index out of range"),
        }
    };
}
macro_rules! add_real {
    ($t:expr, $server:path, $g:expr, $w:expr) => {{
        let rec = $w.rec.clone();
        if $g.how == How::WithInterceptor {
            // generated: InterceptedService::new(Self::new(inner), interceptor)
            $t.add(<$server>::with_interceptor(rec, icpt($w.reached.clone(), $g.name())), $g.opt)
        } else {
            reg_generic($t, <$server>::new(rec), $g.how, $g.name(), $w, $g.opt)
        }
    }};
}
fn register(t: Target, g: &Reg, w: &World) -> Target {
    use h_router::*;
    match &g.kind {
        Kind::Stub { idx, methods } => {
            let methods = Arc::new(methods.clone());
            add_stub!(t, *idx, w, methods, g.how, g.opt;
                0 1 2 3 4 5 6 7 8 9 10 11 12 13 14 15 16 17 18 19 20 21 22 23 24 25 26 27 28 29
                30 31 32 33 34 35 36 37 38 39 40 41 42 43 44 45 46 47 ; 48 49 50 51 52 53 54 55)
        }
        Kind::Real(0) => add_real!(t, pkg_svc::svc_server::SvcServer<Rec>, g, w),
        Kind::Real(1) => add_real!(t, pkg_svcx::svc_x_server::SvcXServer<Rec>, g, w),
        Kind::Real(2) => add_real!(t, nopkg_svc::svc_server::SvcServer<Rec>, g, w),
        Kind::Real(3) => add_real!(t, pkg_svc_inner::inner_server::InnerServer<Rec>, g, w),
        Kind::Real(4) => add_real!(t, tonic_health::pb::health_server::HealthServer<Rec>, g, w),
        Kind::Real(5) => add_real!(t, tonic_reflection::pb::v1::server_reflection_server::ServerReflectionServer<Rec>, g, w),
        Kind::Real(6) => add_real!(t, tonic_reflection::pb::v1alpha::server_reflection_server::ServerReflectionServer<Rec>, g, w),
        Kind::Real(_) => panic!("real index out of range"),
        Kind::Gen(0) => add_real!(t, id0::http_echo_server::HttpEchoServer<Rec>, g, w),
        Kind::Gen(1) => add_real!(t, id1::echo_v2_server::EchoV2Server<Rec>, g, w),
        Kind::Gen(2) => add_real!(t, id2::greeter_server::GreeterServer<Rec>, g, w),
        Kind::Gen(3) => add_real!(t, id3::http_echo_server::HttpEchoServer<Rec>, g, w),
        Kind::Gen(4) => add_real!(t, id4::http_echo_server::HttpEchoServer<Rec>, g, w),
        Kind::Gen(5) => add_real!(t, id5::greeter_server::GreeterServer<Rec>, g, w),
        Kind::Gen(_) => panic!("identifier fixture index out of range"),
    }
}

#[derive(Clone, Copy, Debug, PartialEq)]
enum Via {
    Direct,          // Routes::default().add_service(..)..
    New,             // Routes::new(first).add_service(..)..
    Builder,         // let mut b = Routes::builder(); b.add_service(..); ..; b.routes()
    BuilderFrom,     // RoutesBuilder::from(Routes::default()) ..
    FromAxum,        // Routes::from(axum::Router::new()).add_service(..)..   (the CALLER's router)
    BuilderFromAxum, // RoutesBuilder::from(axum::Router::new()) ..
    AxumMut,         // Routes::default(), then *axum_router_mut() = axum::Router::new()
}
const VIAS: [Via; 7] = [Via::Direct, Via::New, Via::Builder, Via::BuilderFrom, Via::FromAxum, Via::BuilderFromAxum, Via::AxumMut];
impl Via {
    fn s(self) -> &'static str {
        match self {
            Via::Direct => "Routes::default().add_service",
            Via::New => "Routes::new",
            Via::Builder => "RoutesBuilder::add_service(&mut)",
            Via::BuilderFrom => "RoutesBuilder::from(Routes)",
            Via::FromAxum => "Routes::from(axum::Router::new())",
            Via::BuilderFromAxum => "RoutesBuilder::from(axum::Router::new())",
            Via::AxumMut => "*routes.axum_router_mut() = axum::Router::new()",
        }
    }
    fn parse(s: &str) -> Via {
        VIAS.into_iter().find(|h| h.s() == s).unwrap_or(Via::Direct)
    }
    /// the Routes::default()-rooted ways
    fn pick(r: &mut Rng) -> Via {
        *r.pick(&[Via::Direct, Via::Direct, Via::New, Via::Builder, Via::Builder, Via::BuilderFrom])
    }
    /// is the fallback the caller's (axum's default) rather than tonic's `unimplemented`
    fn user_router(self) -> bool {
        matches!(self, Via::FromAxum | Via::BuilderFromAxum | Via::AxumMut)
    }
    fn base(self) -> &'static str {
        if self.user_router() {
            "BaseAxumUser"
        } else {
            "BaseTonic"
        }
    }
}
/// Err = add_service panicked
fn build(regs: &[Reg], w: &World, prepare: bool, via: Via) -> Result<Routes, String> {
    catch(std::panic::AssertUnwindSafe(|| {
        let mut t = match via {
            Via::Direct => Target::Routes(Routes::default()),
            Via::New => Target::Fresh,
            Via::Builder => Target::Builder(Routes::builder()),
            Via::BuilderFrom => Target::Builder(RoutesBuilder::from(Routes::default())),
            Via::FromAxum => Target::Routes(Routes::from(axum::Router::new())),
            Via::BuilderFromAxum => Target::Builder(RoutesBuilder::from(axum::Router::new())),
            Via::AxumMut => {
                let mut r = Routes::default();
                *r.axum_router_mut() = axum::Router::new();
                Target::Routes(r)
            }
        };
        for g in regs {
            t = register(t, g, w);
        }
        let r = match t {
            Target::Fresh => Routes::default(),
            Target::Routes(r) => r,
            Target::Builder(b) => b.routes(),
            _ => unreachable!(),
        };
        if prepare {
            r.prepare()
        } else {
            r
        }
    }))
}
#[derive(Clone, Copy, Debug, PartialEq)]
enum ServeBy {
    Incoming,         // Router::serve_with_incoming over tokio::io::duplex
    IncomingShutdown, // Router::serve_with_incoming_shutdown (signal never fires) over duplex
    Tcp,              // Router::serve(addr) on 127.0.0.1
    TcpShutdown,      // Router::serve_with_shutdown(addr, never) on 127.0.0.1
}
const SERVES: [ServeBy; 4] = [ServeBy::Incoming, ServeBy::IncomingShutdown, ServeBy::Tcp, ServeBy::TcpShutdown];
impl ServeBy {
    fn s(self) -> &'static str {
        match self {
            ServeBy::Incoming => "serve_with_incoming",
            ServeBy::IncomingShutdown => "serve_with_incoming_shutdown",
            ServeBy::Tcp => "serve(addr) over 127.0.0.1",
            ServeBy::TcpShutdown => "serve_with_shutdown(addr, signal) over 127.0.0.1",
        }
    }
    fn parse(s: &str) -> ServeBy {
        SERVES.into_iter().find(|h| h.s() == s).unwrap_or(ServeBy::Incoming)
    }
}
/// how the transport Router is put together
#[derive(Clone, Copy, Debug, PartialEq)]
struct TPlan {
    /// Some(k): the first k registrations are added to a `Routes` (built through `via`, optionally
    /// prepare()d) which is handed to Server::builder().add_routes(routes); the rest is added to
    /// the resulting transport Router.  None: Server::add_service / add_optional_service first.
    routes_first: Option<usize>,
    via: Via,
    prepare: bool,
    serve: ServeBy,
    /// Server::builder().layer(PassLayer) first
    layer: bool,
}
impl TPlan {
    const PLAIN: TPlan = TPlan { routes_first: None, via: Via::Direct, prepare: false, serve: ServeBy::Incoming, layer: false };
    fn json(&self) -> Value {
        json!({"add_routes_with_first": self.routes_first, "via": self.via.s(), "prepare": self.prepare, "serve": self.serve.s(), "server_layer": self.layer})
    }
    fn from_json(v: &Value) -> TPlan {
        TPlan {
            routes_first: v["add_routes_with_first"].as_u64().map(|k| k as usize),
            via: Via::parse(v["via"].as_str().unwrap_or("")),
            prepare: v["prepare"].as_bool().unwrap_or(false),
            serve: ServeBy::parse(v["serve"].as_str().unwrap_or("")),
            layer: v["server_layer"].as_bool().unwrap_or(false),
        }
    }
    fn gen(r: &mut Rng, n: usize) -> TPlan {
        TPlan {
            routes_first: if r.chance(1, 2) { Some(r.range(0, n as u64) as usize) } else { None },
            via: Via::pick(r),
            prepare: r.chance(1, 3),
            serve: *r.pick(&[ServeBy::Incoming, ServeBy::Incoming, ServeBy::IncomingShutdown, ServeBy::IncomingShutdown, ServeBy::Tcp, ServeBy::TcpShutdown]),
            layer: r.chance(1, 3),
        }
    }
    /// the base the model is asked about: the caller's axum router only if add_routes got one
    fn base(&self) -> &'static str {
        if self.routes_first.is_some() {
            self.via.base()
        } else {
            "BaseTonic"
        }
    }
}
/// Server::builder().add_service(a).add_service(b).add_optional_service(..), or
/// Server::builder().add_routes(routes_with_services).add_service(..)..
fn build_transport(regs: &[Reg], w: &World, plan: TPlan) -> Result<AnyRouter, String> {
    catch(std::panic::AssertUnwindSafe(|| {
        let pass = PassLayer::default();
        let (mut t, rest) = match plan.routes_first {
            None if plan.layer => (Target::ServerL(Server::builder().layer(pass.clone())), regs),
            None => (Target::Server(Server::builder()), regs),
            Some(k) => {
                let k = k.min(regs.len());
                let routes = match build(&regs[..k], w, plan.prepare, plan.via) {
                    Ok(r) => r,
                    Err(p) => panic!("{}", p),
                };
                if plan.layer {
                    (Target::RouterL(Server::builder().layer(pass.clone()).add_routes(routes)), &regs[k..])
                } else {
                    (Target::Router(Server::builder().add_routes(routes)), &regs[k..])
                }
            }
        };
        for g in rest {
            t = register(t, g, w);
        }
        match t {
            Target::Server(mut s) => AnyRouter::Plain(s.add_routes(Routes::default())),
            Target::Router(r) => AnyRouter::Plain(r),
            Target::ServerL(mut s) => AnyRouter::Layered(s.add_routes(Routes::default()), pass.seen),
            Target::RouterL(r) => AnyRouter::Layered(r, pass.seen),
            _ => unreachable!(),
        }
    }))
}

// ------------------------------------------------------------------ one request
#[derive(Clone, Debug, PartialEq)]
struct Obs {
    hits: Vec<(String, String)>,
    reached: Vec<String>,
    http: u16,
    headers: HeaderMap,
    body: Vec<u8>,
    trailers: Option<HeaderMap>,
}
/// one gRPC frame holding an empty message: lets the real generated servers reach the handler
const FRAME: &[u8] = &[0, 0, 0, 0, 0];
/// request methods: routing must not look at them.  CONNECT cannot be sent with a path over h2.
const METHS: &[&str] = &["GET", "PUT", "DELETE", "HEAD", "OPTIONS", "PATCH", "TRACE", "FOO", "post", "CONNECT"];
fn gen_meth(r: &mut Rng, wire: bool) -> &'static str {
    if r.chance(7, 10) {
        return "POST";
    }
    loop {
        let m = *r.pick(METHS);
        if !(wire && m == "CONNECT") {
            return m;
        }
    }
}

fn request(routes: &Routes, w: &World, meth: &str, uri: &http::Uri) -> Result<Obs, String> {
    w.clear();
    let body = Body::new(http_body_util::Full::new(Bytes::from_static(FRAME)));
    let req = http::Request::builder()
        .method(meth)
        .version(http::Version::HTTP_2) // gRPC is HTTP/2; GrpcWebService answers 400 to anything else
        .uri(uri.clone())
        .header("content-type", "application/grpc")
        .header("te", "trailers")
        .body(body)
        .unwrap();
    let mut r = routes.clone();
    let res = catch(std::panic::AssertUnwindSafe(|| {
        let resp = match spin(Service::call(&mut r, req), 100_000) {
            Err(()) => return Err("hang".to_string()),
            Ok(Err(e)) => match e {},
            Ok(Ok(resp)) => resp,
        };
        let (parts, body) = resp.into_parts();
        let collected = match spin(http_body_util::BodyExt::collect(body), 100_000) {
            Err(()) => return Err("response body hangs".to_string()),
            Ok(Err(e)) => return Err(format!("response body error: {}", e)),
            Ok(Ok(c)) => c,
        };
        let trailers = collected.trailers().cloned();
        Ok(Obs {
            hits: w.hits(),
            reached: w.reached.lock().unwrap().clone(),
            http: parts.status.as_u16(),
            headers: parts.headers,
            body: collected.to_bytes().to_vec(),
            trailers,
        })
    }));
    match res {
        Err(p) => Err(format!("panic: {}", p)),
        Ok(r) => r,
    }
}

/// the same over a real connection: the transport Router served (serve_with_incoming[_shutdown]
/// on one end of tokio::io::duplex, or serve / serve_with_shutdown on a 127.0.0.1 listener), a
/// raw h2 client on the other end (so that arbitrary paths and methods can be sent)
fn wire_requests(router: AnyRouter, w: &World, reqs: &[(&'static str, http::Uri)], by: ServeBy) -> Vec<Result<Obs, String>> {
    let layer_seen = match &router {
        AnyRouter::Layered(_, seen) => Some(seen.clone()),
        AnyRouter::Plain(_) => None,
    };
    use tokio_stream::StreamExt;
    let rt = tokio::runtime::Builder::new_current_thread().enable_all().build().unwrap();
    let out = rt.block_on(async {
        let fail = |e: String| -> Vec<Result<Obs, String>> { reqs.iter().map(|_| Err(e.clone())).collect() };
        let handshake = match by {
            ServeBy::Incoming | ServeBy::IncomingShutdown => {
                let (client_io, server_io) = tokio::io::duplex(1 << 16);
                let incoming = tokio_stream::once(Ok::<_, std::io::Error>(server_io)).chain(tokio_stream::pending());
                tokio::spawn(async move {
                    match (router, by == ServeBy::IncomingShutdown) {
                        (AnyRouter::Plain(r), true) => drop(r.serve_with_incoming_shutdown(incoming, std::future::pending::<()>()).await),
                        (AnyRouter::Plain(r), false) => drop(r.serve_with_incoming(incoming).await),
                        (AnyRouter::Layered(r, _), true) => drop(r.serve_with_incoming_shutdown(incoming, std::future::pending::<()>()).await),
                        (AnyRouter::Layered(r, _), false) => drop(r.serve_with_incoming(incoming).await),
                    }
                });
                h2::client::handshake(Box::new(client_io) as Box<dyn Io>).await
            }
            ServeBy::Tcp | ServeBy::TcpShutdown => {
                // a free port: bind, read the address, release; Router::serve binds it again
                let addr = {
                    let l = std::net::TcpListener::bind("127.0.0.1:0").expect("bind 127.0.0.1:0");
                    l.local_addr().unwrap()
                };
                let (err_tx, mut err_rx) = tokio::sync::mpsc::unbounded_channel::<String>();
                tokio::spawn(async move {
                    let r = match (router, by == ServeBy::TcpShutdown) {
                        (AnyRouter::Plain(r), true) => r.serve_with_shutdown(addr, std::future::pending::<()>()).await,
                        (AnyRouter::Plain(r), false) => r.serve(addr).await,
                        (AnyRouter::Layered(r, _), true) => r.serve_with_shutdown(addr, std::future::pending::<()>()).await,
                        (AnyRouter::Layered(r, _), false) => r.serve(addr).await,
                    };
                    if let Err(e) = r {
                        let _ = err_tx.send(format!("{:?}", e));
                    }
                });
                let mut stream = None;
                for _ in 0..400 {
                    if let Ok(e) = err_rx.try_recv() {
                        return fail(format!("Router::serve failed: {}", e));
                    }
                    match tokio::net::TcpStream::connect(addr).await {
                        Ok(s) => {
                            stream = Some(s);
                            break;
                        }
                        Err(_) => tokio::time::sleep(std::time::Duration::from_millis(5)).await,
                    }
                }
                let Some(stream) = stream else { return fail("could not connect to the served address".to_string()) };
                h2::client::handshake(Box::new(stream) as Box<dyn Io>).await
            }
        };
        let (send, conn) = match handshake {
            Ok(x) => x,
            Err(e) => return fail(format!("h2 handshake: {}", e)),
        };
        tokio::spawn(async move {
            let _ = conn.await;
        });
        let mut out = vec![];
        for (meth, uri) in reqs {
            w.clear();
            let one = async {
                let req = http::Request::builder()
                    .method(*meth)
                    .uri(uri.clone())
                    .header("content-type", "application/grpc")
                    .header("te", "trailers")
                    .body(())
                    .unwrap();
                let mut s = send.clone().ready().await.map_err(|e| format!("h2 ready: {}", e))?;
                let (resp, mut stream) = s.send_request(req, false).map_err(|e| format!("h2 send_request: {}", e))?;
                let _ = stream.send_data(Bytes::from_static(FRAME), true);
                let resp = resp.await.map_err(|e| format!("h2 response: {}", e))?;
                let (parts, mut body) = resp.into_parts();
                let mut data = vec![];
                // the response to HEAD has no body by definition (the h2 client refuses DATA there,
                // which is what a handler that answers HEAD with a message runs into)
                while let Some(chunk) = if *meth == "HEAD" { None } else { body.data().await } {
                    let c = chunk.map_err(|e| format!("h2 data: {}", e))?;
                    let _ = body.flow_control().release_capacity(c.len());
                    data.extend_from_slice(&c);
                }
                let trailers = if *meth == "HEAD" { None } else { body.trailers().await.map_err(|e| format!("h2 trailers: {}", e))? };
                let mut headers = parts.headers;
                // the only hop-level header hyper adds; everything else is what Routes answered
                headers.remove("date");
                Ok::<Obs, String>(Obs { hits: w.hits(), reached: w.reached.lock().unwrap().clone(), http: parts.status.as_u16(), headers, body: data, trailers })
            };
            let before = layer_seen.as_ref().map(|s| *s.lock().unwrap());
            let res = match tokio::time::timeout(std::time::Duration::from_secs(20), one).await {
                Ok(r) => r,
                Err(_) => Err("no response within 20 s".to_string()),
            };
            // behind Server::layer every request goes through the layer, once
            out.push(match (res, before, layer_seen.as_ref().map(|s| *s.lock().unwrap())) {
                (Ok(_), Some(b), Some(a)) if a != b + 1 => Err(format!("Server::layer: the request passed the layer {} times", a - b)),
                (r, _, _) => r,
            });
        }
        out
    });
    drop(rt);
    out
}
trait Io: tokio::io::AsyncRead + tokio::io::AsyncWrite + Unpin + Send {}
impl<T: tokio::io::AsyncRead + tokio::io::AsyncWrite + Unpin + Send> Io for T {}

fn obs_tr(o: &Result<Obs, String>) -> Tr {
    match o {
        Err(_) => Tr::L(vec![Tr::n(97u8)]),
        Ok(o) => {
            let out = if o.hits.len() == 1 && o.reached.len() == 1 && o.reached[0] == o.hits[0].0 {
                Tr::L(vec![Tr::n(0u8), Tr::s(&o.hits[0].0), Tr::s(&o.hits[0].1)])
            } else if o.hits.is_empty() && o.reached.len() == 1 {
                Tr::L(vec![Tr::n(1u8), Tr::s(&o.reached[0])])
            } else if o.hits.is_empty() && o.reached.is_empty() {
                Tr::L(vec![Tr::n(2u8)])
            } else {
                Tr::L(vec![Tr::n(98u8)])
            };
            // what a handler answers is not the router's business
            let reply = if !o.hits.is_empty() {
                Tr::L(vec![Tr::n(0u8)])
            } else {
                Tr::L(vec![Tr::n(1u8), Tr::n(o.http), hm_tr(&o.headers), Tr::b(&o.body), Tr::opt(o.trailers.as_ref().map(hm_tr))])
            };
            Tr::L(vec![out, reply])
        }
    }
}
/// The property, checked directly: independent of the model's route/dispatch split and of the
/// code generator (names and methods come from the hand-written tables, in proto spelling).
/// `user_router`: the Routes was built on a router supplied by the caller (kind from_axum): the
/// answer to a path whose first segment is NOT a registered name is that router's own fallback
/// (axum's default: HTTP 404 without grpc-status) - see checks/C10.json, assumptions; everything
/// else is judged as strictly as on Routes::default().
fn oracle(regs: &[Reg], path: &str, o: &Result<Obs, String>, user_router: bool) -> Option<String> {
    let o = match o {
        Err(e) => return Some(e.clone()),
        Ok(o) => o,
    };
    let mut expected: Vec<(String, String)> = vec![];
    for g in regs {
        for m in g.methods() {
            // an empty identifier is not a method (protobuf has none); see report
            if !m.is_empty() && path == format!("/{}/{}", g.name(), m) {
                expected.push((g.name().to_string(), m));
            }
        }
    }
    if expected.len() > 1 {
        return None; // ambiguous registration (not generated: names are distinct, methods too)
    }
    if let Some(e) = expected.first() {
        if o.hits != vec![e.clone()] {
            return Some(format!("path {:?} is exactly /{}/{} but handlers run: {:?}", path, e.0, e.1, o.hits));
        }
        return None;
    }
    if !o.hits.is_empty() {
        return Some(format!("path {:?} names no registered method but reached handler {:?}", path, o.hits));
    }
    let vals = |k: &str| -> Vec<Vec<u8>> { o.headers.get_all(k).iter().map(|v| v.as_bytes().to_vec()).collect() };
    if user_router {
        let names_a_service = regs.iter().any(|g| {
            let p = format!("/{}/", g.name());
            path.starts_with(&p) && path.len() > p.len()
        });
        if !names_a_service {
            // the caller's fallback answers; tonic's must not have been installed over it
            if o.http == 404 && vals("grpc-status").is_empty() && o.body.is_empty() {
                return None;
            }
            return Some(format!("Routes on the caller's axum::Router: path {:?} names no registered service, expected that router's fallback (404, no grpc-status), got HTTP {} grpc-status {:?}", path, o.http, vals("grpc-status")));
        }
    }
    // a well-formed UNIMPLEMENTED answer (gRPC "Trailers-Only")
    if vals("grpc-status") != vec![b"12".to_vec()] {
        return Some(format!(
            "path {:?} names no registered method but grpc-status headers are {:?}, not exactly one 12",
            path,
            vals("grpc-status").iter().map(|v| String::from_utf8_lossy(v).to_string()).collect::<Vec<_>>()
        ));
    }
    if o.http != 200 {
        return Some(format!("UNIMPLEMENTED answer for {:?} has HTTP status {}", path, o.http));
    }
    if vals("content-type") != vec![b"application/grpc".to_vec()] {
        return Some(format!(
            "UNIMPLEMENTED answer for {:?} has content-type {:?}, not application/grpc",
            path,
            vals("content-type").iter().map(|v| String::from_utf8_lossy(v).to_string()).collect::<Vec<_>>()
        ));
    }
    // grpc-message: at most one, and then a legal percent-encoded value (printable ASCII)
    let msgs = vals("grpc-message");
    if msgs.len() > 1 || msgs.iter().any(|m| m.iter().any(|b| !(0x20..0x7f).contains(b))) {
        return Some(format!("UNIMPLEMENTED answer for {:?} has malformed grpc-message headers {:?}", path, msgs));
    }
    if !o.body.is_empty() {
        return Some(format!("UNIMPLEMENTED answer for {:?} has a body of {} bytes", path, o.body.len()));
    }
    if let Some(t) = &o.trailers {
        if !t.is_empty() {
            return Some(format!("UNIMPLEMENTED answer for {:?} has status in the headers and trailers {:?} as well", path, t));
        }
    }
    None
}

// ------------------------------------------------------------------ generators
const METHODS: &[&str] = &[
    "Get", "GetX", "Ge", "get", "GET", "List", "Put", "Chat", "Check", "Watch", "type", "M", "m", "a", "a.b",
    "x%2Fy", "Get/x", "\u{e9}", "ServerReflectionInfo", "Get_1", "Ping", "GetURL", "SayHello", "get_url", "\u{4e16}\u{754c}", "\u{1f600}",
];
/// groups of names one of which is a prefix / case variant / near miss of another
const FAMILIES: &[&[usize]] = &[
    &[0, 1, 3, 4, 5, 24, 30, 31],  // pkg.Svc pkg.SvcX pkg.Svc.Inner pkg.Sv pkg "pkg.Svc." pkg.Svc2 pkg.Svc_
    &[0, 6, 7, 2, 8, 25, 34, 35, 32, 33],  // pkg.Svc pkg.svc PKG.SVC Svc svc .Svc Pkg.Svc pkg.SVC pkg_Svc pkg..Svc
    &[2, 9, 10, 8],        // Svc S Sv svc
    &[11, 12, 13, 14, 23, 36, 40, 41, 42, 43, 44, 45], // a a.b a.b.C a_b.C1 a-b a.b.c.d.e.F a+b a=b a;b a,b a@b a!b
    &[15, 16, 17, 37],     // health names, the very long name
    &[18, 27, 26, 19, 20, 21, 22, 38, 39], // x%2Fy x%2fy x a*b a:b "" é 0 ~
];
/// a stub index inside the modelled name space that axum accepts
fn pick_idx(r: &mut Rng) -> usize {
    loop {
        let i = r.below(N_MODEL as u64) as usize;
        if !REJECTED.contains(&i) {
            return i;
        }
    }
}
fn gen_methods(r: &mut Rng) -> Vec<String> {
    let n = match r.below(8) {
        0 => 0,
        1..=3 => r.range(1, 2),
        _ => r.range(2, 5),
    };
    let mut v: Vec<String> = vec![];
    for _ in 0..n {
        let m = r.pick(METHODS).to_string();
        if !v.contains(&m) {
            v.push(m);
        }
    }
    v
}
fn gen_how(r: &mut Rng, real: bool) -> How {
    match r.below(14) {
        0..=3 => How::Plain,
        4 | 5 => How::Intercepted,
        6 | 7 => How::Layered,
        8 | 9 => How::GrpcWeb,
        10 | 11 => How::GrpcWebLayered,
        _ => {
            if real {
                How::WithInterceptor
            } else {
                How::Intercepted
            }
        }
    }
}
fn gen_kind(r: &mut Rng, fam: &[usize]) -> Kind {
    match r.below(8) {
        0 => Kind::Real(r.below(7) as usize),
        1 | 2 => Kind::Gen(r.below(ID_FIXTURE.len() as u64) as usize),
        _ => {
            let idx = if r.chance(3, 4) { *r.pick(fam) } else { pick_idx(r) };
            Kind::Stub { idx, methods: gen_methods(r) }
        }
    }
}
fn gen_regs(r: &mut Rng, max: u64, min: u64) -> Vec<Reg> {
    let n = r.range(min, max) as usize;
    let mut v: Vec<Reg> = vec![];
    let fam = *r.pick(FAMILIES);
    let mut tries = 0;
    while v.len() < n && tries < 80 {
        tries += 1;
        let kind = gen_kind(r, fam);
        let real = !matches!(kind, Kind::Stub { .. });
        let g = Reg { kind, how: gen_how(r, real), opt: None };
        if v.iter().all(|x| x.name() != g.name()) {
            v.push(g);
        }
    }
    v
}

include!("gen_uri.rs");
include!("corpus_paths.rs");

// ------------------------------------------------------------------ case kinds
fn outcome_class(o: &Result<Obs, String>) -> &'static str {
    match o {
        Err(_) => "error",
        Ok(o) if !o.hits.is_empty() => "handler",
        Ok(o) if !o.reached.is_empty() => "unimpl.service",
        Ok(_) => "unimpl.fallback",
    }
}
fn coq_request(meth: &str, path: &str) -> String {
    format!("(mkRequest {} {})", coq_bytes(meth.as_bytes()), coq_bytes(path.as_bytes()))
}
fn coq_regs(regs: &[Reg]) -> String {
    coq_list(regs, |g| g.coq())
}
fn regs_json(regs: &[Reg]) -> Vec<Value> {
    regs.iter().map(|g| g.json()).collect()
}
/// a PathTap records the path every request of a generated client carries, then forwards to Routes
#[derive(Clone)]
struct PathTap {
    inner: Routes,
    sent: Arc<Mutex<Vec<String>>>,
}
impl Service<http::Request<Body>> for PathTap {
    type Response = http::Response<Body>;
    type Error = Infallible;
    type Future = <Routes as Service<http::Request<Body>>>::Future;
    fn poll_ready(&mut self, cx: &mut std::task::Context<'_>) -> std::task::Poll<Result<(), Infallible>> {
        Service::<http::Request<Body>>::poll_ready(&mut self.inner, cx)
    }
    fn call(&mut self, req: http::Request<Body>) -> Self::Future {
        self.sent.lock().unwrap().push(req.uri().path().to_string());
        self.inner.call(req)
    }
}
/// calls method j of the generated CLIENT of ID_FIXTURE[k]; Err(()) = did not complete
fn client_call(tap: PathTap, k: usize, j: usize) -> Result<Result<(), tonic::Status>, ()> {
    use h_router::*;
    const N: usize = 200_000;
    fn one() -> Msg {
        Msg(vec![7])
    }
    fn many() -> tokio_stream::Iter<std::vec::IntoIter<Msg>> {
        tokio_stream::iter(vec![Msg(vec![7]), Msg(vec![8])])
    }
    fn done<T>(r: Result<Result<tonic::Response<T>, tonic::Status>, ()>) -> Result<Result<(), tonic::Status>, ()> {
        r.map(|x| x.map(|_| ()))
    }
    match (k, j) {
        (0, 0) => done(spin(id0::http_echo_client::HttpEchoClient::new(tap).ping(one()), N)),
        (0, 1) => done(spin(id0::http_echo_client::HttpEchoClient::new(tap).get_url(one()), N)),
        (0, 2) => done(spin(id0::http_echo_client::HttpEchoClient::new(tap).stream_v2(one()), N)),
        (1, 0) => done(spin(id1::echo_v2_client::EchoV2Client::new(tap).echo(one()), N)),
        (1, 1) => done(spin(id1::echo_v2_client::EchoV2Client::new(tap).echo_all(many()), N)),
        (2, 0) => done(spin(id2::greeter_client::GreeterClient::new(tap).say_hello(one()), N)),
        (2, 1) => done(spin(id2::greeter_client::GreeterClient::new(tap).say_hello_again(many()), N)),
        (3, 0) => done(spin(id3::http_echo_client::HttpEchoClient::new(tap).ping(one()), N)),
        (4, 0) => done(spin(id4::http_echo_client::HttpEchoClient::new(tap).ping(one()), N)),
        (4, 1) => done(spin(id4::http_echo_client::HttpEchoClient::new(tap).only_here(one()), N)),
        (5, 0) => done(spin(id5::greeter_client::GreeterClient::new(tap).say_hello(one()), N)),
        _ => panic!("no such identifier-fixture method"),
    }
}
struct Ctx {
    out: Out,
    w: World,
    unparsable: u64,
    outside_behaviour: std::collections::BTreeMap<String, u64>,
}
impl Ctx {
    fn parse_uri(&mut self, uri_text: &str) -> Option<http::Uri> {
        match uri_text.parse::<http::Uri>() {
            Ok(u) => {
                self.out.hist("uri", "parsed");
                Some(u)
            }
            Err(_) => {
                self.unparsable += 1;
                self.out.hist("uri", "rejected by http::Uri (not sent)");
                None
            }
        }
    }
    /// a request target given as raw bytes (not necessarily UTF-8): http::Uri must refuse what is not
    /// UTF-8, so that `Uri::path()` - a &str - is sound; counted, nothing to send
    fn raw_target(&mut self, raw: &[u8]) {
        match http::Uri::from_maybe_shared(Bytes::copy_from_slice(raw)) {
            Ok(u) if std::str::from_utf8(raw).is_err() => {
                // would make req.uri().path() a non-UTF-8 &str
                self.out.hist("raw_target", "NON-UTF-8 ACCEPTED by http::Uri");
                self.out.push(Case {
                    kind: "raw_target".into(),
                    input: json!({"raw": hex(raw)}),
                    model: "Nd [Nn 0]".into(),
                    impl_obs: Tr::L(vec![Tr::n(1u8)]),
                    oracle: Some(format!("http::Uri accepted the non-UTF-8 request target {:?} (path {:?}): outside the model's assumption that paths are what Uri::path() returns", hex(raw), u.path())),
                    nontrivial: true,
                });
            }
            Ok(_) => self.out.hist("raw_target", "valid UTF-8, accepted"),
            Err(_) => self.out.hist("raw_target", "rejected by http::Uri (cannot reach tonic)"),
        }
    }
    fn ctx_hist_port_race(&mut self) {
        self.out.hist("tcp.port_race_retries", "retry");
    }
    fn hist_outcome(&mut self, regs: &[Reg], o: &Result<Obs, String>) {
        let c = outcome_class(o);
        self.out.hist("outcome", c);
        if let Ok(o) = o {
            if let Some(name) = o.reached.first() {
                if let Some(g) = regs.iter().find(|g| g.name() == name) {
                    self.out.hist(&format!("{}.by", c), match g.kind {
                        Kind::Stub { .. } => "stub",
                        Kind::Real(_) => "real generated server (name() == identifier())",
                        Kind::Gen(_) => "real generated server (name() != identifier() / emit_package off)",
                    });
                    self.out.hist(&format!("{}.name_through", c), g.how.s());
                }
            }
        }
    }
    fn hist_regs(&mut self, k: &str, regs: &[Reg], mutation: &str, meth: &str) {
        self.out.hist(&format!("{}.services", k), regs.len());
        self.out.hist("real_generated_servers", regs.iter().filter(|g| g.is_real()).count());
        self.out.hist("identifier_fixture_servers", regs.iter().filter(|g| matches!(g.kind, Kind::Gen(_))).count());
        for g in regs {
            self.out.hist("registered.name_through", g.how.s());
        }
        for m in mutation.split('+') {
            self.out.hist("mutation", m);
        }
        self.out.hist("method", meth);
    }
    /// kind serve / from_axum: registration in the given order, one request
    #[allow(clippy::too_many_arguments)]
    fn serve(&mut self, kind: &str, regs: &[Reg], routes: &Result<Routes, String>, meth: &'static str, uri_text: &str, mutation: &str, prepare: bool, via: Via) {
        let Some(uri) = self.parse_uri(uri_text) else { return };
        let path = uri.path().to_string();
        let (obs, orc) = match routes {
            Err(p) => (Tr::L(vec![Tr::n(99u8)]), Some(format!("registration panicked: {}", p))),
            Ok(routes) => {
                let o = request(routes, &self.w, meth, &uri);
                self.hist_outcome(regs, &o);
                (obs_tr(&o), oracle(regs, &path, &o, via.user_router()))
            }
        };
        self.hist_regs("serve", regs, mutation, meth);
        self.out.hist("serve.via", via.s());
        self.out.hist("serve.prepare", prepare);
        let model = format!("obs_gserve {} {} {}", via.base(), coq_regs(regs), coq_request(meth, &path));
        self.out.push(Case {
            kind: kind.to_string(),
            input: json!({"services": regs_json(regs), "method": meth, "uri": uri_text, "path": path, "prepare": prepare, "via": via.s(), "mutation": mutation}),
            model,
            impl_obs: obs,
            oracle: orc,
            nontrivial: !regs.is_empty() && path.len() > 1,
        });
    }
    /// kinds orders / orders.sampled: the same request against several registration orders.
    /// `idxs` = None: all n! orders as Model.Router.perms enumerates them (n <= 4);
    /// Some: the given arrangements of 0..n-1
    #[allow(clippy::too_many_arguments)]
    fn orders(&mut self, kind: &str, regs: &[Reg], all: &[(Vec<Reg>, Result<Routes, String>)], idxs: Option<&Vec<Vec<usize>>>, meth: &'static str, uri_text: &str, mutation: &str, prepare: bool, via: Via) {
        let Some(uri) = self.parse_uri(uri_text) else { return };
        let path = uri.path().to_string();
        let mut trs = vec![];
        let mut orc: Option<String> = None;
        let mut first: Option<Result<Obs, String>> = None;
        for (order, routes) in all {
            match routes {
                Err(p) => {
                    trs.push(Tr::L(vec![Tr::n(99u8)]));
                    orc = orc.or(Some(format!("registration panicked: {}", p)));
                }
                Ok(routes) => {
                    let o = request(routes, &self.w, meth, &uri);
                    orc = orc.or(oracle(order, &path, &o, via.user_router()));
                    trs.push(obs_tr(&o));
                    match &first {
                        None => first = Some(o),
                        Some(f) => {
                            if *f != o && orc.is_none() {
                                orc = Some(format!(
                                    "registration order changes the answer: {:?} vs {:?} (order {:?})",
                                    f,
                                    o,
                                    order.iter().map(|g| g.name()).collect::<Vec<_>>()
                                ));
                            }
                        }
                    }
                }
            }
        }
        if let Some(f) = &first {
            self.hist_outcome(regs, f);
        }
        self.hist_regs("orders", regs, mutation, meth);
        self.out.hist("orders.prepare", prepare);
        self.out.hist("orders.via", via.s());
        self.out.hist("orders.orders_tried", all.len());
        let model = match idxs {
            None => format!("obs_gorders {} {} {}", via.base(), coq_regs(regs), coq_request(meth, &path)),
            Some(ix) => format!(
                "obs_gorders_at {} {} {} {}",
                via.base(),
                coq_regs(regs),
                coq_list(ix, |p| coq_list(p, |i| i.to_string())),
                coq_request(meth, &path)
            ),
        };
        self.out.push(Case {
            kind: kind.to_string(),
            input: json!({"services": regs_json(regs), "method": meth, "uri": uri_text, "path": path, "orders": all.len(), "order_indices": idxs, "prepare": prepare, "via": via.s(), "mutation": mutation}),
            model,
            impl_obs: Tr::L(trs),
            oracle: orc,
            nontrivial: regs.len() >= 2 && path.len() > 1,
        });
    }
    /// kind transport: Server::builder() registration, served over duplex or 127.0.0.1, raw h2 client
    fn transport(&mut self, kind: &str, regs: &[Reg], uris: &[(String, String, &'static str)], plan: TPlan) {
        let model_regs = present(regs);
        let parsed: Vec<(String, String, &'static str, http::Uri)> = uris
            .iter()
            .filter_map(|(u, d, meth)| {
                // an h2 request needs scheme and authority; only origin-form texts are sent
                if !u.starts_with('/') || *meth == "CONNECT" {
                    return None;
                }
                let uri = self.parse_uri(&format!("http://h{}", u))?;
                Some((u.clone(), d.clone(), *meth, uri))
            })
            .collect();
        let router = build_transport(regs, &self.w, plan);
        let results: Vec<Result<Obs, String>> = match router {
            Err(p) => parsed.iter().map(|_| Err(format!("registration panicked: {}", p))).collect(),
            Ok(router) => {
                let us: Vec<(&'static str, http::Uri)> = parsed.iter().map(|p| (p.2, p.3.clone())).collect();
                let mut res = wire_requests(router, &self.w, &us, plan.serve);
                // the TCP variants pick a free port, release it and let Router::serve bind it again:
                // another process can take it in between.  That is the environment, not a verdict:
                // build the same router again and retry on another port
                for _ in 0..4 {
                    let raced = matches!(res.first(), Some(Err(e)) if e.contains("AddrInUse") || e.contains("Address already in use") || e.contains("could not connect to the served address") || e.starts_with("h2 handshake"));
                    if !raced || !matches!(plan.serve, ServeBy::Tcp | ServeBy::TcpShutdown) {
                        break;
                    }
                    self.ctx_hist_port_race();
                    match build_transport(regs, &self.w, plan) {
                        Ok(router) => res = wire_requests(router, &self.w, &us, plan.serve),
                        Err(_) => break,
                    }
                }
                res
            }
        };
        let user_router = plan.base() == "BaseAxumUser";
        for ((text, mutation, meth, uri), o) in parsed.iter().zip(results) {
            let path = uri.path().to_string();
            self.hist_outcome(&model_regs, &o);
            self.hist_regs("transport", &model_regs, mutation, meth);
            for (i, g) in regs.iter().enumerate() {
                let in_routes = plan.routes_first.map(|k| i < k).unwrap_or(false);
                self.out.hist("transport.added_by", match (in_routes, g.opt) {
                    (true, Some(false)) => "not added (absent optional, before add_routes)",
                    (true, _) => "Routes handed to Server::add_routes",
                    (false, None) => "add_service",
                    (false, Some(true)) => "add_optional_service(Some)",
                    (false, Some(false)) => "add_optional_service(None)",
                });
            }
            self.out.hist("transport.add_routes", match plan.routes_first { None => "not used".to_string(), Some(k) => format!("with {} services", k.min(regs.len())) });
            self.out.hist("transport.serve", plan.serve.s());
            self.out.hist("transport.server_layer", plan.layer);
            // the model is handed EVERYTHING that was passed to the builder, with how it was passed
            // (add_service / add_optional_service(Some) / add_optional_service(None)); which of
            // them end up registered is the model's business (transport_regs)
            let model = format!(
                "obs_gtransport {} {} {}",
                plan.base(),
                coq_list(regs, |g| format!("({}, {})", g.coq(), match g.opt { None => "None", Some(true) => "(Some true)", Some(false) => "(Some false)" })),
                coq_request(meth, &path)
            );
            self.out.push(Case {
                kind: kind.to_string(),
                input: json!({"services": regs_json(regs), "method": meth, "uri": text, "path": path, "mutation": mutation, "plan": plan.json()}),
                model,
                impl_obs: obs_tr(&o),
                oracle: oracle(&model_regs, &path, &o, user_router),
                nontrivial: model_regs.len() >= 2 && path.len() > 1,
            });
        }
    }
    /// kind build: does registration panic (duplicates, names axum rejects)
    fn build_case(&mut self, kind: &str, regs: &[Reg], via: Via) {
        let r = build(regs, &self.w, false, via);
        let names: Vec<&str> = regs.iter().map(|g| g.name()).collect();
        let distinct = (0..names.len()).all(|i| (0..i).all(|j| names[i] != names[j]));
        let rejected = names.iter().any(|n| n.starts_with('*') || n.starts_with(':'));
        // the property speaks of a SET of services: distinct accepted names must register
        let orc = match &r {
            Err(p) if distinct && !rejected => Some(format!("registering distinct names {:?} panicked: {}", names, p)),
            _ => None,
        };
        self.out.hist("build", if r.is_ok() { "ok" } else if !distinct { "panic (duplicate name)" } else { "panic (name rejected by axum)" });
        self.out.hist("build.via", via.s());
        self.out.push(Case {
            kind: kind.to_string(),
            input: json!({"services": regs_json(regs), "via": via.s()}),
            model: format!("obs_gbuild {}", coq_regs(regs)),
            impl_obs: match r {
                Ok(_) => Tr::L(vec![Tr::n(1u8), Tr::n(regs.len() as u64)]),
                Err(_) => Tr::L(vec![Tr::n(0u8)]),
            },
            oracle: orc,
            nontrivial: regs.len() >= 2,
        });
    }
    /// kind *.outside: a NAME with '/', '{' or '}' is OUTSIDE the model (matchit syntax): the model
    /// must say so (obs_outside) instead of predicting; what axum really does is recorded in the
    /// summary (extra.outside_model_names_real_behaviour), not judged - protobuf names cannot
    /// contain these characters.  The boundary itself (which names are outside) is what is tied.
    fn outside_case(&mut self, kind: &str, regs: &[Reg], via: Via, req: Option<(&'static str, &str)>) {
        assert!(!all_in_model(regs));
        let r = build(regs, &self.w, false, via);
        let names: Vec<&str> = regs.iter().map(|g| g.name()).collect();
        let real = match (&r, req) {
            (Err(_), _) => "registration panics".to_string(),
            (Ok(_), None) => "registers".to_string(),
            (Ok(routes), Some((meth, p))) => match p.parse::<http::Uri>() {
                Err(_) => "registers; uri rejected".to_string(),
                Ok(u) => format!("registers; {} -> {}", p, outcome_class(&request(routes, &self.w, meth, &u))),
            },
        };
        *self.outside_behaviour.entry(format!("{:?}: {}", names, real)).or_default() += 1;
        self.out.hist("outside.real_behaviour", if r.is_ok() { "registers" } else { "registration panics" });
        let model = match req {
            None => format!("obs_gbuild {}", coq_regs(regs)),
            Some((meth, p)) => format!("obs_gserve {} {} {}", via.base(), coq_regs(regs), coq_request(meth, p)),
        };
        self.out.push(Case {
            kind: kind.to_string(),
            input: json!({"services": regs_json(regs), "via": via.s(), "request": req.map(|x| json!({"method": x.0, "path": x.1})), "real_behaviour (not judged)": real}),
            model,
            impl_obs: Tr::L(vec![Tr::n(96u8)]),
            oracle: None,
            nontrivial: false,
        });
    }
    /// kind client: the generated CLIENT of ID_FIXTURE[k], method j, against Routes carrying `regs`
    fn client_case(&mut self, kind: &str, regs: &[Reg], k: usize, j: usize, prepare: bool, via: Via) {
        let f = &ID_FIXTURE[k];
        let (_fn_name, ident, _shape) = f.methods[j];
        let want_path = format!("/{}/{}", f.route, ident);
        let routes = build(regs, &self.w, prepare, via);
        let target = Reg::gen(k);
        let d = target.desc().unwrap();
        let model = format!(
            "obs_gclient {} (mkTS {} {} {} {}) {} {}",
            coq_regs(regs),
            coq_bytes(d.rust_name.as_bytes()),
            coq_bytes(d.package.as_bytes()),
            coq_bytes(d.ident.as_bytes()),
            coq_list(&d.methods, |m| format!("(mkTM {} {})", coq_bytes(m.0.as_bytes()), coq_bytes(m.1.as_bytes()))),
            coq_bool(d.emit_package),
            j
        );
        let (obs, orc) = match &routes {
            Err(p) => (Tr::L(vec![Tr::n(99u8)]), Some(format!("registration panicked: {}", p))),
            Ok(routes) => {
                self.w.clear();
                let sent = Arc::new(Mutex::new(vec![]));
                let tap = PathTap { inner: routes.clone(), sent: sent.clone() };
                let res = catch(std::panic::AssertUnwindSafe(|| client_call(tap, k, j)));
                let sent = sent.lock().unwrap().clone();
                let hits = self.w.hits();
                let reached = self.w.reached.lock().unwrap().clone();
                let registered = regs.iter().any(|g| g.kind == Kind::Gen(k));
                let mut orc = None;
                match &res {
                    Err(p) => orc = Some(format!("generated client panicked: {}", p)),
                    Ok(Err(())) => orc = Some("generated client call did not complete".to_string()),
                    Ok(Ok(status)) => {
                        if sent != vec![want_path.clone()] {
                            orc = Some(format!("generated client {}::{} sent {:?}, the exact path is {:?}", f.rust_name, f.methods[j].0, sent, want_path));
                        } else if registered {
                            if hits != vec![(f.route.to_string(), ident.to_string())] {
                                orc = Some(format!("generated client {}::{} ({}) reached handlers {:?}", f.rust_name, f.methods[j].0, want_path, hits));
                            } else if let Err(s) = status {
                                orc = Some(format!("generated client {}::{}: handler ran but the call failed: {:?} {}", f.rust_name, f.methods[j].0, s.code(), s.message()));
                            }
                        } else {
                            // its server is not registered: UNIMPLEMENTED, no handler (unless a stub owns that exact path)
                            let stub_owns = regs.iter().any(|g| g.name() == f.route && g.methods().iter().any(|m| m == ident));
                            if !stub_owns {
                                if !hits.is_empty() {
                                    orc = Some(format!("server of {} is not registered but handlers {:?} ran", f.route, hits));
                                } else if status.as_ref().err().map(|s| s.code()) != Some(tonic::Code::Unimplemented) {
                                    orc = Some(format!("server of {} is not registered but the client got {:?}", f.route, status));
                                }
                            }
                        }
                    }
                }
                self.out.hist("client.outcome", if hits.len() == 1 { "handler" } else { "no handler" });
                // the reply of a non-handler answer is consumed by the client; what is compared is
                // the path and who was reached
                let outcome = if hits.len() == 1 && reached.len() == 1 && reached[0] == hits[0].0 {
                    Tr::L(vec![Tr::L(vec![Tr::n(0u8), Tr::s(&hits[0].0), Tr::s(&hits[0].1)]), Tr::L(vec![Tr::n(0u8)])])
                } else {
                    Tr::L(vec![Tr::n(98u8), Tr::n(hits.len() as u64), Tr::n(reached.len() as u64)])
                };
                (Tr::L(vec![Tr::s(sent.first().map(|s| s.as_str()).unwrap_or("")), outcome]), orc)
            }
        };
        self.out.hist("client.method", format!("{}::{}", f.route, f.methods[j].0));
        self.out.hist("client.via", via.s());
        self.out.hist("client.services", regs.len());
        self.out.push(Case {
            kind: kind.to_string(),
            input: json!({"services": regs_json(regs), "client_of": f.route, "id_fixture": k, "method_index": j, "client_fn": f.methods[j].0, "prepare": prepare, "via": via.s()}),
            model,
            impl_obs: obs,
            oracle: orc,
            nontrivial: true,
        });
    }
}

fn all_orders(regs: &[Reg], w: &World, prepare: bool, via: Via) -> Vec<(Vec<Reg>, Result<Routes, String>)> {
    perms(regs).into_iter().map(|p| { let r = build(&p, w, prepare, via); (p, r) }).collect()
}
fn orders_at(regs: &[Reg], idxs: &[Vec<usize>], w: &World, prepare: bool, via: Via) -> Vec<(Vec<Reg>, Result<Routes, String>)> {
    idxs.iter()
        .map(|ix| {
            let p: Vec<Reg> = ix.iter().map(|i| regs[*i].clone()).collect();
            let r = build(&p, w, prepare, via);
            (p, r)
        })
        .collect()
}
fn sample_orders(r: &mut Rng, n: usize, k: usize) -> Vec<Vec<usize>> {
    let id: Vec<usize> = (0..n).collect();
    let mut out = vec![id.clone(), id.iter().rev().cloned().collect()];
    while out.len() < k {
        let mut p = id.clone();
        for i in (1..n).rev() {
            let j = r.below(i as u64 + 1) as usize;
            p.swap(i, j);
        }
        out.push(p);
    }
    out
}
fn static_meth(m: &str) -> &'static str {
    std::iter::once("POST").chain(METHS.iter().cloned()).find(|x| *x == m).unwrap_or("POST")
}

fn run_replay(ctx: &mut Ctx, file: &str) {
    let v: Value = serde_json::from_str(&std::fs::read_to_string(file).expect("replay file")).expect("json");
    let kind = v["kind"].as_str().unwrap_or("serve").to_string();
    let input = &v["input"];
    let regs: Vec<Reg> = input["services"].as_array().unwrap().iter().map(Reg::from_json).collect();
    let uri = input["uri"].as_str().unwrap_or("/");
    let meth = static_meth(input["method"].as_str().unwrap_or("POST"));
    let mutation = input["mutation"].as_str().unwrap_or("id");
    let prepare = input["prepare"].as_bool().unwrap_or(false);
    let via = Via::parse(input["via"].as_str().unwrap_or(""));
    if kind.ends_with("outside") {
        let rq = input["request"].as_object().map(|o| (static_meth(o["method"].as_str().unwrap_or("POST")), o["path"].as_str().unwrap_or("/").to_string()));
        ctx.outside_case(&kind, &regs, via, rq.as_ref().map(|x| (x.0, x.1.as_str())));
    } else if kind.ends_with("client") {
        ctx.client_case(&kind, &regs, input["id_fixture"].as_u64().unwrap_or(0) as usize, input["method_index"].as_u64().unwrap_or(0) as usize, prepare, via);
    } else if kind.ends_with("build") {
        ctx.build_case(&kind, &regs, via);
    } else if kind.ends_with("transport") {
        ctx.transport(&kind, &regs, &[(uri.to_string(), mutation.to_string(), meth)], TPlan::from_json(&input["plan"]));
    } else if kind.ends_with("orders.sampled") {
        let idxs: Vec<Vec<usize>> = input["order_indices"].as_array().unwrap().iter().map(|p| p.as_array().unwrap().iter().map(|i| i.as_u64().unwrap() as usize).collect()).collect();
        let all = orders_at(&regs, &idxs, &ctx.w, prepare, via);
        ctx.orders(&kind, &regs, &all, Some(&idxs), meth, uri, mutation, prepare, via);
    } else if kind.ends_with("orders") {
        let all = all_orders(&regs, &ctx.w, prepare, via);
        ctx.orders(&kind, &regs, &all, None, meth, uri, mutation, prepare, via);
    } else {
        let routes = build(&regs, &ctx.w, prepare, via);
        ctx.serve(&kind, &regs, &routes, meth, uri, mutation, prepare, via);
    }
}

fn main() {
    let a = args();
    let mut ctx = Ctx { out: Out::new(&a.out), w: World::default(), unparsable: 0, outside_behaviour: Default::default() };
    let mut r = Rng::new(a.seed);
    const RULE: &str = "serve: 0..8 services (stubs transcribing the generated `call`, 7 real generated servers with name() == identifier(), 6 real generated servers with name() != identifier() / emit_package(false) made by CodeGenBuilder from our own tonic_build::Service impls; names drawn from prefix/case families of a 48-name pool, with and without package; NamedService::NAME through the harness wrapper, InterceptedService::new, XxxServer::with_interceptor, Layered, GrpcWebService or Layered over GrpcWebLayer) registered via Routes::default().add_service / Routes::new / RoutesBuilder::add_service(&mut) / RoutesBuilder::from [optionally prepare()], one request (method POST 70 %, else GET/PUT/DELETE/HEAD/OPTIONS/PATCH/TRACE/FOO/post/CONNECT) whose URI is a registered /S/M under 0-2 of 41 mutations (drop/insert/case/extra+empty segments/%2F/percent-escapes/query/fragment/absolute-form/prefix truncation+extension/Rust spelling of service or method/package added or dropped/...) or random; every generated server is described to the model by its tonic-build descriptor (Service::name(), package, identifier(), emit_package, methods); from_axum: the same on Routes::from(axum::Router::new()) / RoutesBuilder::from(axum::Router) / axum_router_mut; orders: 1..4 services, the same request against ALL n! registration orders (with and without prepare()); orders.sampled: 5..8 services, 12 sampled orders; transport: Server::builder().add_service / add_optional_service(Some|None) / add_routes chains served with serve_with_incoming[_shutdown] over tokio duplex or serve / serve_with_shutdown on 127.0.0.1, requests sent by a raw h2 client; client: the generated clients of the identifier fixture against Routes carrying their server among others (path put on the wire + handler reached); build: registration with duplicate and rejected names; *.outside: names with '/', '{', '}' (the model answers obs_outside). The whole response head of every non-handler answer is observed (HTTP status, all headers, body, trailers). Non-trivial = at least one (orders, transport: two) services and a path other than '/'. Distinct = distinct (kind, model expression).";

    if let Some(f) = &a.replay {
        run_replay(&mut ctx, f);
        ctx.out.finish(IMPORTS, RULE, json!({"replay": f}));
        return;
    }
    let post = |ps: &[&str]| -> Vec<(String, String, &'static str)> { ps.iter().map(|p| (p.to_string(), "corpus".to_string(), "POST")).collect() };

    // ---- corpus: all 7 real generated servers, the hand-picked near misses ----
    let real: Vec<Reg> = (0..7).map(Reg::real).collect();
    for (prepare, via) in [(false, Via::Direct), (true, Via::Builder)] {
        let routes = build(&real, &ctx.w, prepare, via);
        for p in CORPUS_PATHS {
            ctx.serve("corpus.serve", &real, &routes, "POST", p, "corpus", prepare, via);
        }
    }
    // the same with NAME propagated by tonic (interceptor / with_interceptor / Layered)
    for how in [How::Intercepted, How::WithInterceptor, How::Layered, How::GrpcWeb, How::GrpcWebLayered] {
        let regs: Vec<Reg> = (0..7).map(|k| Reg { kind: Kind::Real(k), how, opt: None }).collect();
        let routes = build(&regs, &ctx.w, false, Via::Direct);
        for p in CORPUS_PATHS {
            ctx.serve("corpus.serve", &regs, &routes, "POST", p, "corpus", false, Via::Direct);
        }
    }
    // empty Routes: every path is answered by the fallback (C03: a well-formed UNIMPLEMENTED)
    for via in [Via::Direct, Via::Builder] {
        let routes = build(&[], &ctx.w, false, via);
        for p in ["/", "/pkg.Svc/Get", "/grpc.health.v1.Health/Check", "*", "/a", "//", "/a/b/c?x"] {
            for meth in ["POST", "GET", "HEAD", "CONNECT", "FOO"] {
                ctx.serve("corpus.serve", &[], &routes, meth, p, "corpus", false, via);
            }
        }
    }
    // ---- corpus: the identifier fixture (name() != identifier(), emit_package on / off) ----
    // witness of the seeded change r4-C10 (NAME derived from Service::name()): the exact paths
    // reach their handlers, every Rust spelling is UNIMPLEMENTED, through every registration path
    let idfix: Vec<Reg> = (0..ID_FIXTURE.len()).map(Reg::gen).collect();
    for (prepare, via) in [(false, Via::Direct), (true, Via::Builder)] {
        let routes = build(&idfix, &ctx.w, prepare, via);
        for p in ID_CORPUS_PATHS {
            ctx.serve("corpus.serve", &idfix, &routes, "POST", p, "corpus", prepare, via);
        }
    }
    for how in [How::Intercepted, How::WithInterceptor, How::Layered, How::GrpcWeb, How::GrpcWebLayered] {
        let regs: Vec<Reg> = (0..ID_FIXTURE.len()).map(|k| Reg { kind: Kind::Gen(k), how, opt: None }).collect();
        let routes = build(&regs, &ctx.w, false, Via::Direct);
        for p in ID_CORPUS_PATHS {
            ctx.serve("corpus.serve", &regs, &routes, "POST", p, "corpus", false, Via::Direct);
        }
    }
    // each identifier-fixture server ALONE (no other route can take the blame), and without the
    // server whose identifier is the Rust spelling of another one
    for k in [0usize, 2, 3] {
        let regs = vec![Reg::gen(k)];
        let routes = build(&regs, &ctx.w, false, Via::Direct);
        for p in ID_CORPUS_PATHS {
            ctx.serve("corpus.serve", &regs, &routes, "POST", p, "corpus", false, Via::Direct);
        }
    }
    let no_canon: Vec<Reg> = [0usize, 1, 2, 3].iter().map(|k| Reg::gen(*k)).collect();
    let all = all_orders(&no_canon, &ctx.w, false, Via::Direct);
    for p in ID_CORPUS_PATHS {
        ctx.orders("corpus.orders", &no_canon, &all, None, "POST", p, "corpus", false, Via::Direct);
    }
    // every generated client of the fixture, its server registered alone / among all others in two orders
    for k in 0..ID_FIXTURE.len() {
        for j in 0..ID_FIXTURE[k].methods.len() {
            ctx.client_case("corpus.client", &[Reg::gen(k)], k, j, false, Via::Direct);
            ctx.client_case("corpus.client", &idfix, k, j, false, Via::Builder);
            let mut rev: Vec<Reg> = idfix.iter().rev().cloned().collect();
            rev.extend((0..4).map(Reg::real));
            ctx.client_case("corpus.client", &rev, k, j, true, Via::New);
        }
    }
    // a stub registered under the NAME a generated server must have: registration must refuse the pair
    for regs in [vec![Reg::gen(0), Reg::stub(46, &["Ping"])], vec![Reg::stub(47, &[]), Reg::gen(2)], vec![Reg::gen(0), Reg::gen(4), Reg::gen(3)], vec![Reg::gen(2), Reg::gen(5)], idfix.clone()] {
        for via in [Via::Direct, Via::New, Via::Builder] {
            ctx.build_case("corpus.build", &regs, via);
        }
    }
    // through tonic::transport::Server over a connection
    let paths = post(CORPUS_PATHS);
    let id_paths = post(ID_CORPUS_PATHS);
    ctx.transport("corpus.transport", &real, &paths, TPlan::PLAIN);
    // all seven handed over as ready-made Routes: Server::builder().add_routes(routes)
    ctx.transport("corpus.transport", &real, &paths, TPlan { routes_first: Some(7), via: Via::Builder, prepare: false, serve: ServeBy::IncomingShutdown, layer: false });
    ctx.transport("corpus.transport", &real, &paths, TPlan { routes_first: Some(3), via: Via::New, prepare: true, serve: ServeBy::Incoming, layer: false });
    // Router::serve / serve_with_shutdown on a 127.0.0.1 listener
    ctx.transport("corpus.transport", &real, &paths, TPlan { routes_first: None, via: Via::Direct, prepare: false, serve: ServeBy::Tcp, layer: false });
    ctx.transport("corpus.transport", &real, &paths[..24], TPlan { routes_first: Some(4), via: Via::Direct, prepare: false, serve: ServeBy::TcpShutdown, layer: false });
    // the identifier fixture over the wire, by add_service and by add_routes
    ctx.transport("corpus.transport", &idfix, &id_paths, TPlan::PLAIN);
    ctx.transport("corpus.transport", &idfix, &id_paths, TPlan { routes_first: Some(6), via: Via::Builder, prepare: false, serve: ServeBy::IncomingShutdown, layer: false });
    ctx.transport("corpus.transport", &idfix, &id_paths, TPlan { routes_first: Some(2), via: Via::Direct, prepare: true, serve: ServeBy::Tcp, layer: false });
    ctx.transport("corpus.transport", &idfix, &id_paths, TPlan { routes_first: None, via: Via::Direct, prepare: false, serve: ServeBy::TcpShutdown, layer: false });
    // .. and handed over on the caller's axum router
    ctx.transport("corpus.transport", &idfix, &id_paths, TPlan { routes_first: Some(6), via: Via::FromAxum, prepare: false, serve: ServeBy::Incoming, layer: false });
    let mixed: Vec<Reg> = vec![
        Reg { kind: Kind::Real(0), how: How::WithInterceptor, opt: None },
        Reg { kind: Kind::Real(1), how: How::GrpcWeb, opt: Some(true) },
        Reg { kind: Kind::Real(2), how: How::Layered, opt: Some(false) },
        Reg { kind: Kind::Real(4), how: How::Intercepted, opt: None },
        Reg { kind: Kind::Stub { idx: 3, methods: vec!["Get".into()] }, how: How::GrpcWebLayered, opt: Some(true) },
        Reg { kind: Kind::Gen(0), how: How::WithInterceptor, opt: Some(true) },
        Reg { kind: Kind::Gen(4), how: How::GrpcWeb, opt: Some(false) },
    ];
    let mut mixed_paths = paths.clone();
    mixed_paths.extend(id_paths.iter().cloned());
    ctx.transport("corpus.transport", &mixed, &mixed_paths, TPlan::PLAIN);
    // behind Server::builder().layer(..): by add_service, by add_routes, over TCP
    ctx.transport("corpus.transport", &mixed, &mixed_paths, TPlan { layer: true, ..TPlan::PLAIN });
    ctx.transport("corpus.transport", &idfix, &id_paths[..30], TPlan { routes_first: Some(3), via: Via::Builder, prepare: false, serve: ServeBy::Tcp, layer: true });
    ctx.transport("corpus.transport", &real, &paths[..30], TPlan { routes_first: Some(7), via: Via::Direct, prepare: true, serve: ServeBy::IncomingShutdown, layer: true });
    ctx.transport("corpus.transport", &mixed, &mixed_paths, TPlan { routes_first: Some(2), via: Via::Direct, prepare: false, serve: ServeBy::IncomingShutdown, layer: false });
    ctx.transport("corpus.transport", &[], &paths[..12], TPlan::PLAIN);
    ctx.transport("corpus.transport", &[Reg { kind: Kind::Real(0), how: How::Plain, opt: Some(false) }], &paths[..12], TPlan::PLAIN);
    // other methods over the wire
    let meth_paths: Vec<(String, String, &'static str)> = ["/pkg.Svc/Get", "/pkg.Svc/Nope", "/pkg.Other/Get", "/", "/pkg.HTTPEcho/Ping", "/pkg.HttpEcho/Ping"]
        .iter()
        .flat_map(|p| ["GET", "PUT", "DELETE", "HEAD", "OPTIONS", "PATCH", "TRACE", "FOO", "post"].into_iter().map(move |m| (p.to_string(), "corpus".to_string(), m)))
        .collect();
    ctx.transport("corpus.transport", &[Reg::real(0), Reg::gen(0)], &meth_paths, TPlan::PLAIN);
    // prefix-sharing names (pkg.Svc / pkg.SvcX / Svc / pkg.Svc.Inner, real generated servers) in
    // EVERY order through every transport registration path: a registration that probes by prefix
    // un-routes the shorter name when the longer one is registered first
    let prefix_paths = post(&[
        "/pkg.Svc/Get", "/pkg.SvcX/Get", "/pkg.SvcX/GetX", "/Svc/Get", "/Svc/get", "/pkg.Svc.Inner/Get", "/pkg.Svc/Chat", "/pkg.Svc/GetX",
        "/pkg.Sv/Get", "/pkg.SvcXY/Get", "/pkg.Svc./Get", "/pkg.Svc.Inne/Get", "/pkg/Get", "/pkg.Svc/",
    ]);
    let four: Vec<Reg> = (0..4).map(Reg::real).collect();
    for (i, order) in perms(&four).into_iter().enumerate() {
        let plan = match i % 4 {
            0 => TPlan::PLAIN,
            1 => TPlan { routes_first: Some(4), via: Via::Direct, prepare: false, serve: ServeBy::Incoming, layer: false },
            2 => TPlan { routes_first: Some(2), via: Via::Builder, prepare: true, serve: ServeBy::IncomingShutdown, layer: false },
            _ => TPlan { routes_first: Some(1), via: Via::New, prepare: false, serve: ServeBy::IncomingShutdown, layer: false },
        };
        ctx.transport("corpus.transport", &order, &prefix_paths, plan);
        // and the complementary plan, so that every order meets add_routes AND add_service
        let plan2 = if plan.routes_first.is_none() { TPlan { routes_first: Some(3), via: Via::BuilderFrom, prepare: false, serve: ServeBy::Incoming, layer: false } } else { TPlan::PLAIN };
        ctx.transport("corpus.transport", &order, &prefix_paths, plan2);
    }
    // .. and through each way of building Routes directly
    for via in [Via::Direct, Via::New, Via::Builder, Via::BuilderFrom] {
        for prepare in [false, true] {
            let all = all_orders(&four, &ctx.w, prepare, via);
            for (p, _, _) in &prefix_paths {
                ctx.orders("corpus.orders", &four, &all, None, "POST", p, "corpus", prepare, via);
            }
        }
    }
    // the same names as stubs (finer observable is identical), incl. odd but legal names
    let stubs: Vec<Reg> = vec![Reg::stub(0, &["Get", "List"]), Reg::stub(1, &["Get", "GetX"]), Reg::stub(2, &["Get", "get"]), Reg::stub(3, &["Get"])];
    for prepare in [false, true] {
        let all = all_orders(&stubs, &ctx.w, prepare, Via::Direct);
        for p in CORPUS_PATHS {
            ctx.orders("corpus.orders", &stubs, &all, None, "POST", p, "corpus", prepare, Via::Direct);
        }
    }
    let odd: Vec<Reg> = vec![
        Reg::stub(21, &["M"]),                // NAME = ""
        Reg::stub(18, &["M", "x%2Fy"]),       // NAME = "x%2Fy"
        Reg::stub(26, &["M", "Get/x", ""]),   // NAME = "x": a method with '/', an empty method
        Reg::stub(19, &["M"]),                // a*b
    ];
    let all = all_orders(&odd, &ctx.w, false, Via::Builder);
    for p in ["//M", "/x%2Fy/M", "/x%2fy/M", "/x/y/M", "/x%2Fy/x%2Fy", "/x/Get/x", "/x/Get", "/x/", "/x", "/a*b/M", "/aXb/M", "/a%2Ab/M", "///M", "//", "/"] {
        ctx.orders("corpus.orders", &odd, &all, None, "POST", p, "corpus", false, Via::Builder);
    }
    // registration panics
    for regs in [
        vec![Reg::real(0), Reg::stub(0, &[])],
        vec![Reg::stub(2, &[]), Reg::real(2)],
        vec![Reg::stub(28, &[])],
        vec![Reg::stub(9, &[]), Reg::stub(29, &[])],
        vec![Reg::stub(19, &[]), Reg::stub(20, &[]), Reg::stub(21, &[])],
        vec![],
        real.clone(),
    ] {
        for via in [Via::Direct, Via::New, Via::Builder] {
            ctx.build_case("corpus.build", &regs, via);
        }
    }
    // ---- corpus: Routes built on the CALLER's axum router (observation N-C10-3, see checks) ----
    for via in [Via::FromAxum, Via::BuilderFromAxum, Via::AxumMut] {
        for (regs, ps) in [(&real, CORPUS_PATHS), (&idfix, ID_CORPUS_PATHS)] {
            for prepare in [false, true] {
                let routes = build(regs, &ctx.w, prepare, via);
                for p in ps.iter().take(if prepare { 12 } else if via == Via::FromAxum { ps.len() } else { 24 }) {
                    ctx.serve("corpus.from_axum", regs, &routes, "POST", p, "corpus", prepare, via);
                }
            }
        }
        let routes = build(&[], &ctx.w, false, via);
        for p in ["/", "/pkg.Svc/Get", "*", "/a"] {
            for meth in ["POST", "GET", "HEAD", "CONNECT"] {
                ctx.serve("corpus.from_axum", &[], &routes, meth, p, "corpus", false, via);
            }
        }
    }
    // ---- corpus: names outside the modelled name space ----
    for idx in 48..56usize {
        ctx.outside_case("corpus.build.outside", &[Reg::stub(idx, &["M"])], Via::Direct, None);
        ctx.outside_case("corpus.build.outside", &[Reg::stub(0, &["Get"]), Reg::stub(idx, &["M"])], Via::Builder, None);
        let p = format!("/{}/M", STUB_NAMES[idx]);
        ctx.outside_case("corpus.serve.outside", &[Reg::stub(idx, &["M"]), Reg::stub(0, &["Get"])], Via::Direct, Some(("POST", &p)));
    }
    ctx.outside_case("corpus.build.outside", &[Reg::stub(51, &[]), Reg::stub(52, &[])], Via::Direct, None); // {x} and {y}
    ctx.outside_case("corpus.build.outside", &[Reg::stub(48, &[]), Reg::stub(11, &[])], Via::Direct, None); // a/b and a
    // ---- corpus: request targets that are not UTF-8 ----
    for raw in [&b"/pkg.Svc/\xff"[..], b"/pkg.Svc/Get\x80", b"/\xc3\x28/Get", b"/pkg.Svc/\xe9", b"/pkg.Svc/\xc3\xa9", b"/pkg.\xf0\x9f\x98\x80/Get", b"/pkg.Svc/Get?\xff", b"/pkg.Svc/\xed\xa0\x80"] {
        ctx.raw_target(raw);
    }

    // ---- generated ----
    let (n_orders, paths_per, n_serve_sc, n_build, n_sampled, n_transport, n_axum, n_client) = if a.thorough { (500, 12, 1500, 600, 200, 400, 300, 600) } else { (60, 10, 140, 80, 25, 40, 30, 60) };
    for _ in 0..n_orders {
        let regs = gen_regs(&mut r, 4, 1);
        let prepare = r.chance(1, 2);
        let via = Via::pick(&mut r);
        let all = all_orders(&regs, &ctx.w, prepare, via);
        for _ in 0..paths_per {
            let (u, d) = gen_uri(&mut r, &regs);
            let meth = gen_meth(&mut r, false);
            ctx.orders("orders", &regs, &all, None, meth, &u, &d, prepare, via);
        }
    }
    for _ in 0..n_sampled {
        let regs = gen_regs(&mut r, 8, 5);
        let prepare = r.chance(1, 2);
        let idxs = sample_orders(&mut r, regs.len(), 12);
        let via = Via::pick(&mut r);
        let all = orders_at(&regs, &idxs, &ctx.w, prepare, via);
        for _ in 0..paths_per {
            let (u, d) = gen_uri(&mut r, &regs);
            let meth = gen_meth(&mut r, false);
            ctx.orders("orders.sampled", &regs, &all, Some(&idxs), meth, &u, &d, prepare, via);
        }
    }
    for _ in 0..n_serve_sc {
        let regs = gen_regs(&mut r, 8, 0);
        let prepare = r.chance(1, 2);
        let via = Via::pick(&mut r);
        let routes = build(&regs, &ctx.w, prepare, via);
        for _ in 0..paths_per {
            let (u, d) = gen_uri(&mut r, &regs);
            let meth = gen_meth(&mut r, false);
            ctx.serve("serve", &regs, &routes, meth, &u, &d, prepare, via);
        }
    }
    for _ in 0..n_axum {
        let regs = gen_regs(&mut r, 6, 0);
        let prepare = r.chance(1, 2);
        let via = *r.pick(&[Via::FromAxum, Via::BuilderFromAxum, Via::AxumMut]);
        let routes = build(&regs, &ctx.w, prepare, via);
        for _ in 0..paths_per {
            let (u, d) = gen_uri(&mut r, &regs);
            let meth = gen_meth(&mut r, false);
            ctx.serve("from_axum", &regs, &routes, meth, &u, &d, prepare, via);
        }
    }
    for _ in 0..n_client {
        let k = r.below(ID_FIXTURE.len() as u64) as usize;
        let j = r.below(ID_FIXTURE[k].methods.len() as u64) as usize;
        let mut regs = gen_regs(&mut r, 6, 0);
        regs.retain(|g| g.name() != ID_FIXTURE[k].route);
        let at = r.below(regs.len() as u64 + 1) as usize;
        let real = true;
        regs.insert(at, Reg { kind: Kind::Gen(k), how: gen_how(&mut r, real), opt: None });
        let via = if r.chance(1, 5) { *r.pick(&[Via::FromAxum, Via::BuilderFromAxum]) } else { Via::pick(&mut r) };
        ctx.client_case("client", &regs, k, j, r.chance(1, 2), via);
    }
    for _ in 0..n_transport {
        let mut regs = gen_regs(&mut r, 6, 0);
        if regs.len() < 2 && r.chance(3, 4) {
            regs = gen_regs(&mut r, 5, 2);
        }
        for g in regs.iter_mut() {
            g.opt = match r.below(10) {
                0..=4 => None,
                5..=7 => Some(true),
                _ => Some(false),
            };
        }
        let model_regs = present(&regs);
        let mut uris = vec![];
        for _ in 0..paths_per {
            // aim at everything that was passed to the builder, registered or not
            let aim_all = r.chance(1, 4);
            let (u, d) = gen_uri(&mut r, if aim_all { &regs } else { &model_regs });
            uris.push((u, d, gen_meth(&mut r, true)));
        }
        let plan = TPlan::gen(&mut r, regs.len());
        if regs.len() <= 3 && r.chance(1, 2) {
            // every registration order of a small set over the wire
            for order in perms(&regs) {
                ctx.transport("transport", &order, &uris, plan);
            }
        } else {
            ctx.transport("transport", &regs, &uris, plan);
        }
    }
    for _ in 0..n_build {
        let n = r.range(0, 5);
        let mut regs = vec![];
        for _ in 0..n {
            let kind = match r.below(12) {
                0 | 1 => Kind::Real(r.below(7) as usize),
                2 | 3 => Kind::Gen(r.below(ID_FIXTURE.len() as u64) as usize),
                4 => Kind::Stub { idx: r.range(28, 29) as usize, methods: vec![] },
                5 => Kind::Stub { idx: r.range(46, 47) as usize, methods: gen_methods(&mut r) },
                _ => Kind::Stub { idx: *r.pick(&[0usize, 1, 2, 3, 4, 15, 19, 20, 21, 30, 33, 37]), methods: gen_methods(&mut r) },
            };
            let real = !matches!(kind, Kind::Stub { .. });
            regs.push(Reg { kind, how: gen_how(&mut r, real), opt: None });
        }
        ctx.build_case("build", &regs, Via::pick(&mut r));
    }
    // names outside the model among modelled ones
    for _ in 0..(n_build / 4) {
        let mut regs = gen_regs(&mut r, 3, 0);
        let at = r.below(regs.len() as u64 + 1) as usize;
        regs.insert(at, Reg::stub(r.range(48, 55) as usize, &["M"]));
        if r.chance(1, 2) {
            ctx.outside_case("build.outside", &regs, Via::pick(&mut r), None);
        } else {
            let (u, _) = gen_uri(&mut r, &regs);
            if let Ok(uri) = u.parse::<http::Uri>() {
                let p = uri.path().to_string();
                ctx.outside_case("serve.outside", &regs, Via::pick(&mut r), Some(("POST", &p)));
            }
        }
    }
    // random request targets with high bytes
    for _ in 0..(n_build / 2) {
        let mut raw = b"/pkg.Svc/Get".to_vec();
        for _ in 0..r.range(1, 3) {
            let at = r.range(1, raw.len() as u64) as usize;
            raw.insert(at, r.range(0x80, 0xff) as u8);
        }
        ctx.raw_target(&raw);
    }

    let unparsable = ctx.unparsable;
    let outside: Vec<Value> = ctx.outside_behaviour.iter().map(|(k, v)| json!({"registration": k, "times": v})).collect();
    ctx.out.finish(IMPORTS, RULE, json!({"uris_rejected_by_http_crate_and_not_sent": unparsable, "outside_model_names_real_behaviour (not judged)": outside}));
}
