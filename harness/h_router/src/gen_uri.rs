fn flip_case(c: char) -> char {
    if c.is_ascii_uppercase() {
        c.to_ascii_lowercase()
    } else {
        c.to_ascii_uppercase()
    }
}
const INS: &[char] = &['/', '.', 'X', 'x', '%', '2', 'F', '_', ';', '*', ':', '-', '{', '}', '\u{e9}', '+', '~', '='];
const MUTATIONS: &[&str] = &[
    "id", "drop", "insert", "case1", "upper", "lower", "seg_after", "seg_before", "trail_slash", "lead_slash",
    "mid_slash", "pct_slash", "pct_slash_lc", "pct_letter", "pct_dot", "query", "query_path", "fragment",
    "absolute", "trunc_svc", "ext_svc", "trunc_m", "ext_m", "drop_m", "drop_all", "no_lead", "dot_seg",
    "dotdot", "semicolon", "swap", "space_pct", "dup",
    // name() vs identifier(): the Rust spellings of the service / method, package on / off
    "rust_svc", "rust_method", "rust_both", "camel_svc", "snake_method", "camel_method", "drop_pkg", "add_pkg", "server_suffix", "mod_name",
];
/// one mutation of the URI text (before parsing)
fn mutate(r: &mut Rng, s: &str, svc: &str, m: &str, rust: &(String, String), which: &str) -> String {
    let chars: Vec<char> = s.chars().collect();
    let pos = |r: &mut Rng, incl_end: bool| -> usize {
        let n = chars.len() + incl_end as usize;
        if n == 0 {
            0
        } else {
            r.below(n as u64) as usize
        }
    };
    match which {
        "id" => s.to_string(),
        "drop" if !chars.is_empty() => {
            let i = pos(r, false);
            chars.iter().enumerate().filter(|(j, _)| *j != i).map(|(_, c)| *c).collect()
        }
        "insert" => {
            let i = pos(r, true);
            let c = *r.pick(INS);
            let mut v = chars.clone();
            v.insert(i, c);
            v.into_iter().collect()
        }
        "case1" if !chars.is_empty() => {
            let i = pos(r, false);
            chars.iter().enumerate().map(|(j, c)| if j == i { flip_case(*c) } else { *c }).collect()
        }
        "upper" => s.to_ascii_uppercase(),
        "lower" => s.to_ascii_lowercase(),
        "seg_after" => format!("{}/{}", s, r.pick(&["x", "Get", "", "/", m])),
        "seg_before" => format!("/{}{}", r.pick(&["x", "pkg", svc, "."]), s),
        "trail_slash" => format!("{}/", s),
        "lead_slash" => format!("/{}", s),
        "mid_slash" => format!("/{}//{}", svc, m),
        "pct_slash" => format!("/{}%2F{}", svc, m),
        "pct_slash_lc" => format!("/{}%2f{}", svc, m),
        "pct_letter" if !chars.is_empty() => {
            let i = pos(r, false);
            let mut out = String::new();
            for (j, c) in chars.iter().enumerate() {
                if j == i && c.is_ascii() && *c != '/' {
                    out.push_str(&format!("%{:02X}", *c as u8));
                } else {
                    out.push(*c);
                }
            }
            out
        }
        "pct_dot" => s.replace('.', "%2E"),
        "query" => format!("{}?{}", s, r.pick(&["", "x=1", "a/b", "/"])),
        "query_path" => format!("/{}?/{}", svc, m),
        "fragment" => format!("{}#frag", s),
        "absolute" => format!("{}://{}{}", r.pick(&["http", "https"]), r.pick(&["h", "example.com:50051", "[::1]"]), s),
        "trunc_svc" if !svc.is_empty() => {
            let k = r.below(svc.chars().count() as u64) as usize;
            format!("/{}/{}", svc.chars().take(k).collect::<String>(), m)
        }
        "ext_svc" => format!("/{}{}/{}", svc, r.pick(&["X", ".", ".Inner", "x", "%", "_"]), m),
        "trunc_m" if !m.is_empty() => {
            let k = r.below(m.chars().count() as u64) as usize;
            format!("/{}/{}", svc, m.chars().take(k).collect::<String>())
        }
        "ext_m" => format!("/{}/{}{}", svc, m, r.pick(&["X", "x", ".", "%20", "_"])),
        "drop_m" => format!("/{}", svc),
        "drop_all" => r.pick(&["/", "*", "//", "/.", "/%2F"]).to_string(),
        "no_lead" => s.trim_start_matches('/').to_string(),
        "dot_seg" => format!("/.{}", s),
        "dotdot" => format!("/{}/../{}/{}", svc, svc, m),
        "semicolon" => format!("/{};v=1/{}", svc, m),
        "swap" => format!("/{}/{}", m, svc),
        "space_pct" => format!("/{}%20/{}", svc, m),
        "dup" => format!("{}{}", s, s),
        "rust_svc" => format!("/{}/{}", rust.0, m),
        "rust_method" => format!("/{}/{}", svc, rust.1),
        "rust_both" => format!("/{}/{}", rust.0, rust.1),
        "camel_svc" => format!("/{}/{}", upper_camel(svc), m),
        "snake_method" => format!("/{}/{}", svc, snake(m)),
        "camel_method" => format!("/{}/{}", svc, upper_camel(m)),
        "drop_pkg" => format!("/{}/{}", svc.rsplit('.').next().unwrap_or(svc), m),
        "add_pkg" => format!("/{}.{}/{}", r.pick(&["pkg", "hidden.pkg", "grpc"]), svc, m),
        "server_suffix" => format!("/{}{}/{}", svc, r.pick(&["Server", "Client", "_server"]), m),
        "mod_name" => format!("/{}/{}", snake(svc), m),
        _ => s.to_string(),
    }
}
fn gen_random_path(r: &mut Rng) -> String {
    let alpha: &[&str] = &["/", "/", "pkg", ".", "Svc", "X", "Get", "S", "a", "%2F", "%", "get", "b", "Inner", "x", "*", "{", "}"];
    let n = r.range(0, 7);
    let mut s = String::new();
    if r.chance(5, 6) {
        s.push('/');
    }
    for _ in 0..n {
        s.push_str(*r.pick(alpha));
    }
    s
}
/// (uri text, description of the mutations)
fn gen_uri(r: &mut Rng, regs: &[Reg]) -> (String, String) {
    if r.chance(1, 10) {
        return (gen_random_path(r), "random".into());
    }
    // base (service, method): mostly a registered pair
    let (svc, m, rust): (String, String, (String, String)) = if !regs.is_empty() && r.chance(4, 5) {
        let g = r.pick(regs);
        let ms = g.methods();
        let (rs, rms) = g.rust_spellings();
        if ms.is_empty() || r.chance(1, 8) {
            let m = r.pick(METHODS).to_string();
            let rm = snake(&m);
            (g.name().to_string(), m, (rs, rm))
        } else {
            let j = r.below(ms.len() as u64) as usize;
            (g.name().to_string(), ms[j].clone(), (rs, rms[j].clone()))
        }
    } else {
        let svc = STUB_NAMES[r.below(N_MODEL as u64) as usize].to_string();
        let m = r.pick(METHODS).to_string();
        let rust = (upper_camel(&svc), snake(&m));
        (svc, m, rust)
    };
    let mut s = format!("/{}/{}", svc, m);
    let k = match r.below(10) {
        0 | 1 => 0,
        2..=7 => 1,
        _ => 2,
    };
    let mut desc = vec![];
    for _ in 0..k {
        // the name/identifier spellings get a third of the draws
        let which = if r.chance(1, 3) { *r.pick(&MUTATIONS[32..]) } else { *r.pick(&MUTATIONS[1..]) };
        s = mutate(r, &s, &svc, &m, &rust, which);
        desc.push(which);
    }
    if desc.is_empty() {
        desc.push("id");
    }
    (s, desc.join("+"))
}

// ------------------------------------------------------------------ permutations (= Model.Router.perms)
fn insert_all<T: Clone>(x: &T, l: &[T]) -> Vec<Vec<T>> {
    if l.is_empty() {
        return vec![vec![x.clone()]];
    }
    let mut first = vec![x.clone()];
    first.extend_from_slice(l);
    let mut out = vec![first];
    for q in insert_all(x, &l[1..]) {
        let mut v = vec![l[0].clone()];
        v.extend(q);
        out.push(v);
    }
    out
}
fn perms<T: Clone>(l: &[T]) -> Vec<Vec<T>> {
    if l.is_empty() {
        return vec![vec![]];
    }
    let mut out = vec![];
    for p in perms(&l[1..]) {
        out.extend(insert_all(&l[0], &p));
    }
    out
}

