//! Fixture shared by h_router (C10) and h_codegen (C11): real generated clients/servers (see
//! build.rs), a raw byte codec, and a handler implementation that records which handler ran.
use std::sync::{Arc, Mutex};
use tonic::codec::{Codec, DecodeBuf, Decoder, EncodeBuf, Encoder};
use tonic::{Request, Response, Status, Streaming};

#[derive(Clone, Debug, Default, PartialEq, Eq)]
pub struct Msg(pub Vec<u8>);

#[derive(Clone, Debug, Default)]
pub struct RawCodec;
impl Codec for RawCodec {
    type Encode = Msg;
    type Decode = Msg;
    type Encoder = RawCodec;
    type Decoder = RawCodec;
    fn encoder(&mut self) -> RawCodec {
        RawCodec
    }
    fn decoder(&mut self) -> RawCodec {
        RawCodec
    }
}
impl Encoder for RawCodec {
    type Item = Msg;
    type Error = Status;
    fn encode(&mut self, item: Msg, dst: &mut EncodeBuf<'_>) -> Result<(), Status> {
        use bytes::BufMut;
        dst.put_slice(&item.0);
        Ok(())
    }
}
impl Decoder for RawCodec {
    type Item = Msg;
    type Error = Status;
    fn decode(&mut self, src: &mut DecodeBuf<'_>) -> Result<Option<Msg>, Status> {
        use bytes::Buf;
        let mut v = vec![0u8; src.remaining()];
        src.copy_to_slice(&mut v);
        Ok(Some(Msg(v)))
    }
}

pub mod pkg_svc {
    include!(concat!(env!("OUT_DIR"), "/pkg.Svc.rs"));
}
pub mod pkg_svcx {
    include!(concat!(env!("OUT_DIR"), "/pkg.SvcX.rs"));
}
pub mod nopkg_svc {
    include!(concat!(env!("OUT_DIR"), "/.Svc.rs"));
}
pub mod pkg_svc_inner {
    include!(concat!(env!("OUT_DIR"), "/pkg.Svc.Inner.rs"));
}

/// the generated sources themselves (for h_codegen: committed == what the fixture compiled)
pub const GENERATED: &[(&str, &str)] = &[
    ("pkg.Svc", include_str!(concat!(env!("OUT_DIR"), "/pkg.Svc.rs"))),
    ("pkg.SvcX", include_str!(concat!(env!("OUT_DIR"), "/pkg.SvcX.rs"))),
    ("Svc", include_str!(concat!(env!("OUT_DIR"), "/.Svc.rs"))),
    ("pkg.Svc.Inner", include_str!(concat!(env!("OUT_DIR"), "/pkg.Svc.Inner.rs"))),
];

/// (full service name, route name of the method, streaming shape the handler was entered with)
pub type Hits = Arc<Mutex<Vec<(String, String, &'static str)>>>;

/// Implements every generated server trait; each handler records itself and answers.
#[derive(Clone, Default)]
pub struct Rec {
    pub hits: Hits,
}
impl Rec {
    fn hit(&self, s: &str, m: &str, shape: &'static str) {
        self.hits.lock().unwrap().push((s.to_string(), m.to_string(), shape));
    }
}
pub type MsgStream = tokio_stream::Iter<std::vec::IntoIter<Result<Msg, Status>>>;
fn one() -> MsgStream {
    tokio_stream::iter(vec![Ok(Msg(b"r".to_vec()))])
}

#[tonic::async_trait]
impl pkg_svc::svc_server::Svc for Rec {
    async fn get(&self, _r: Request<Msg>) -> Result<Response<Msg>, Status> {
        self.hit("pkg.Svc", "Get", "unary");
        Ok(Response::new(Msg(b"r".to_vec())))
    }
    type ListStream = MsgStream;
    async fn list(&self, _r: Request<Msg>) -> Result<Response<MsgStream>, Status> {
        self.hit("pkg.Svc", "List", "server_streaming");
        Ok(Response::new(one()))
    }
    async fn put(&self, _r: Request<Streaming<Msg>>) -> Result<Response<Msg>, Status> {
        self.hit("pkg.Svc", "Put", "client_streaming");
        Ok(Response::new(Msg(b"r".to_vec())))
    }
    type ChatStream = MsgStream;
    async fn chat(&self, _r: Request<Streaming<Msg>>) -> Result<Response<MsgStream>, Status> {
        self.hit("pkg.Svc", "Chat", "streaming");
        Ok(Response::new(one()))
    }
}
#[tonic::async_trait]
impl pkg_svcx::svc_x_server::SvcX for Rec {
    async fn get(&self, _r: Request<Msg>) -> Result<Response<Msg>, Status> {
        self.hit("pkg.SvcX", "Get", "unary");
        Ok(Response::new(Msg(b"r".to_vec())))
    }
    async fn get_x(&self, _r: Request<Msg>) -> Result<Response<Msg>, Status> {
        self.hit("pkg.SvcX", "GetX", "unary");
        Ok(Response::new(Msg(b"r".to_vec())))
    }
    async fn ge(&self, _r: Request<Msg>) -> Result<Response<Msg>, Status> {
        self.hit("pkg.SvcX", "Ge", "unary");
        Ok(Response::new(Msg(b"r".to_vec())))
    }
}
#[tonic::async_trait]
impl nopkg_svc::svc_server::Svc for Rec {
    async fn get(&self, _r: Request<Msg>) -> Result<Response<Msg>, Status> {
        self.hit("Svc", "Get", "unary");
        Ok(Response::new(Msg(b"r".to_vec())))
    }
    async fn get_lower(&self, _r: Request<Msg>) -> Result<Response<Msg>, Status> {
        self.hit("Svc", "get", "unary");
        Ok(Response::new(Msg(b"r".to_vec())))
    }
    type GETStream = MsgStream;
    async fn get_upper(&self, _r: Request<Msg>) -> Result<Response<MsgStream>, Status> {
        self.hit("Svc", "GET", "server_streaming");
        Ok(Response::new(one()))
    }
}
#[tonic::async_trait]
impl pkg_svc_inner::inner_server::Inner for Rec {
    type GetStream = MsgStream;
    async fn get(&self, _r: Request<Streaming<Msg>>) -> Result<Response<MsgStream>, Status> {
        self.hit("pkg.Svc.Inner", "Get", "streaming");
        Ok(Response::new(one()))
    }
    async fn r#type(&self, _r: Request<Msg>) -> Result<Response<Msg>, Status> {
        self.hit("pkg.Svc.Inner", "type", "unary");
        Ok(Response::new(Msg(b"r".to_vec())))
    }
}

/// (full name, [(route name, shape)]) of the fixture services, as written in build.rs
pub const FIXTURE: &[(&str, &[(&str, &str)])] = &[
    ("pkg.Svc", &[("Get", "unary"), ("List", "server_streaming"), ("Put", "client_streaming"), ("Chat", "streaming")]),
    ("pkg.SvcX", &[("Get", "unary"), ("GetX", "unary"), ("Ge", "unary")]),
    ("Svc", &[("Get", "unary"), ("get", "unary"), ("GET", "server_streaming")]),
    ("pkg.Svc.Inner", &[("Get", "streaming"), ("type", "unary")]),
];

// ---- handlers for the generated servers that are COMMITTED in /repo (health, reflection) ----
use tonic_health::pb::{health_server::Health, HealthCheckRequest, HealthCheckResponse};
pub type HealthStream = tokio_stream::Iter<std::vec::IntoIter<Result<HealthCheckResponse, Status>>>;
#[tonic::async_trait]
impl Health for Rec {
    async fn check(&self, _r: Request<HealthCheckRequest>) -> Result<Response<HealthCheckResponse>, Status> {
        self.hit("grpc.health.v1.Health", "Check", "unary");
        Ok(Response::new(HealthCheckResponse { status: 1 }))
    }
    type WatchStream = HealthStream;
    async fn watch(&self, _r: Request<HealthCheckRequest>) -> Result<Response<HealthStream>, Status> {
        self.hit("grpc.health.v1.Health", "Watch", "server_streaming");
        Ok(Response::new(tokio_stream::iter(vec![Ok(HealthCheckResponse { status: 1 })])))
    }
}
pub mod refl {
    use super::*;
    use tonic_reflection::pb::v1 as r1;
    use tonic_reflection::pb::v1alpha as r1a;
    pub type S1 = tokio_stream::Iter<std::vec::IntoIter<Result<r1::ServerReflectionResponse, Status>>>;
    pub type S1a = tokio_stream::Iter<std::vec::IntoIter<Result<r1a::ServerReflectionResponse, Status>>>;
    #[tonic::async_trait]
    impl r1::server_reflection_server::ServerReflection for Rec {
        type ServerReflectionInfoStream = S1;
        async fn server_reflection_info(
            &self,
            _r: Request<Streaming<r1::ServerReflectionRequest>>,
        ) -> Result<Response<S1>, Status> {
            self.hit("grpc.reflection.v1.ServerReflection", "ServerReflectionInfo", "streaming");
            Ok(Response::new(tokio_stream::iter(vec![])))
        }
    }
    #[tonic::async_trait]
    impl r1a::server_reflection_server::ServerReflection for Rec {
        type ServerReflectionInfoStream = S1a;
        async fn server_reflection_info(
            &self,
            _r: Request<Streaming<r1a::ServerReflectionRequest>>,
        ) -> Result<Response<S1a>, Status> {
            self.hit("grpc.reflection.v1alpha.ServerReflection", "ServerReflectionInfo", "streaming");
            Ok(Response::new(tokio_stream::iter(vec![])))
        }
    }
}

/// the generated servers committed in /repo, as (NAME, [(method, shape)])
pub const COMMITTED: &[(&str, &[(&str, &str)])] = &[
    ("grpc.health.v1.Health", &[("Check", "unary"), ("Watch", "server_streaming")]),
    ("grpc.reflection.v1.ServerReflection", &[("ServerReflectionInfo", "streaming")]),
    ("grpc.reflection.v1alpha.ServerReflection", &[("ServerReflectionInfo", "streaming")]),
];

// =====================================================================================
// C10 (added): generated servers AND clients of services whose Rust type name (Service::name())
// differs from the proto identifier (Service::identifier()); see build.rs `id_fixture`.
// Everything below is hand-written from the proto spelling - nothing is computed from the
// generator's own helpers.
pub mod id0 {
    include!(concat!(env!("OUT_DIR"), "/id_0.rs"));
}
pub mod id1 {
    include!(concat!(env!("OUT_DIR"), "/id_1.rs"));
}
pub mod id2 {
    include!(concat!(env!("OUT_DIR"), "/id_2.rs"));
}
pub mod id3 {
    include!(concat!(env!("OUT_DIR"), "/id_3.rs"));
}
pub mod id4 {
    include!(concat!(env!("OUT_DIR"), "/id_4.rs"));
}
pub mod id5 {
    include!(concat!(env!("OUT_DIR"), "/id_5.rs"));
}

/// One service of the identifier fixture, as the .proto (not the generator) spells it.
pub struct IdSvc {
    /// the name the service must be routed under: `<package>.<identifier>`, the package only if
    /// the code was generated with emit_package(true) and the package is not empty
    pub route: &'static str,
    /// Service::name(): the Rust type name (trait, XxxServer, xxx_server module)
    pub rust_name: &'static str,
    pub package: &'static str,
    /// Service::identifier(): the proto service name
    pub ident: &'static str,
    pub emit_package: bool,
    /// (Method::name() = the Rust fn, Method::identifier() = the proto method name, shape)
    pub methods: &'static [(&'static str, &'static str, &'static str)],
}
pub const ID_FIXTURE: &[IdSvc] = &[
    IdSvc { route: "pkg.HTTPEcho", rust_name: "HttpEcho", package: "pkg", ident: "HTTPEcho", emit_package: true,
            methods: &[("ping", "Ping", "unary"), ("get_url", "GetURL", "unary"), ("stream_v2", "Stream_V2", "server_streaming")] },
    IdSvc { route: "pkg.Echo_V2", rust_name: "EchoV2", package: "pkg", ident: "Echo_V2", emit_package: true,
            methods: &[("echo", "echo", "unary"), ("echo_all", "EchoAll", "streaming")] },
    IdSvc { route: "greeter", rust_name: "Greeter", package: "", ident: "greeter", emit_package: true,
            methods: &[("say_hello", "SayHello", "unary"), ("say_hello_again", "sayHelloAgain", "client_streaming")] },
    IdSvc { route: "HTTPEcho", rust_name: "HttpEcho", package: "hidden.pkg", ident: "HTTPEcho", emit_package: false,
            methods: &[("ping", "Ping", "unary")] },
    IdSvc { route: "pkg.HttpEcho", rust_name: "HttpEcho", package: "pkg", ident: "HttpEcho", emit_package: true,
            methods: &[("ping", "Ping", "unary"), ("only_here", "OnlyHere", "unary")] },
    IdSvc { route: "Greeter", rust_name: "Greeter", package: "hidden.pkg", ident: "Greeter", emit_package: false,
            methods: &[("say_hello", "SayHello", "unary")] },
];

#[tonic::async_trait]
impl id0::http_echo_server::HttpEcho for Rec {
    async fn ping(&self, _r: Request<Msg>) -> Result<Response<Msg>, Status> {
        self.hit("pkg.HTTPEcho", "Ping", "unary");
        Ok(Response::new(Msg(b"r".to_vec())))
    }
    async fn get_url(&self, _r: Request<Msg>) -> Result<Response<Msg>, Status> {
        self.hit("pkg.HTTPEcho", "GetURL", "unary");
        Ok(Response::new(Msg(b"r".to_vec())))
    }
    type Stream_V2Stream = MsgStream;
    async fn stream_v2(&self, _r: Request<Msg>) -> Result<Response<MsgStream>, Status> {
        self.hit("pkg.HTTPEcho", "Stream_V2", "server_streaming");
        Ok(Response::new(one()))
    }
}
#[tonic::async_trait]
impl id1::echo_v2_server::EchoV2 for Rec {
    async fn echo(&self, _r: Request<Msg>) -> Result<Response<Msg>, Status> {
        self.hit("pkg.Echo_V2", "echo", "unary");
        Ok(Response::new(Msg(b"r".to_vec())))
    }
    type EchoAllStream = MsgStream;
    async fn echo_all(&self, _r: Request<Streaming<Msg>>) -> Result<Response<MsgStream>, Status> {
        self.hit("pkg.Echo_V2", "EchoAll", "streaming");
        Ok(Response::new(one()))
    }
}
#[tonic::async_trait]
impl id2::greeter_server::Greeter for Rec {
    async fn say_hello(&self, _r: Request<Msg>) -> Result<Response<Msg>, Status> {
        self.hit("greeter", "SayHello", "unary");
        Ok(Response::new(Msg(b"r".to_vec())))
    }
    async fn say_hello_again(&self, _r: Request<Streaming<Msg>>) -> Result<Response<Msg>, Status> {
        self.hit("greeter", "sayHelloAgain", "client_streaming");
        Ok(Response::new(Msg(b"r".to_vec())))
    }
}
#[tonic::async_trait]
impl id3::http_echo_server::HttpEcho for Rec {
    async fn ping(&self, _r: Request<Msg>) -> Result<Response<Msg>, Status> {
        self.hit("HTTPEcho", "Ping", "unary");
        Ok(Response::new(Msg(b"r".to_vec())))
    }
}
#[tonic::async_trait]
impl id4::http_echo_server::HttpEcho for Rec {
    async fn ping(&self, _r: Request<Msg>) -> Result<Response<Msg>, Status> {
        self.hit("pkg.HttpEcho", "Ping", "unary");
        Ok(Response::new(Msg(b"r".to_vec())))
    }
    async fn only_here(&self, _r: Request<Msg>) -> Result<Response<Msg>, Status> {
        self.hit("pkg.HttpEcho", "OnlyHere", "unary");
        Ok(Response::new(Msg(b"r".to_vec())))
    }
}
#[tonic::async_trait]
impl id5::greeter_server::Greeter for Rec {
    async fn say_hello(&self, _r: Request<Msg>) -> Result<Response<Msg>, Status> {
        self.hit("Greeter", "SayHello", "unary");
        Ok(Response::new(Msg(b"r".to_vec())))
    }
}

/// the Rust-side spelling of the manual fixture (package, Service::name(), [Method::name()]) -
/// tonic_build::manual: name() == identifier(), so FIXTURE[k].0 == "<package>.<name>"
pub const FIXTURE_DESC: &[(&str, &str, &[&str])] = &[
    ("pkg", "Svc", &["get", "list", "put", "chat"]),
    ("pkg", "SvcX", &["get", "get_x", "ge"]),
    ("", "Svc", &["get", "get_lower", "get_upper"]),
    ("pkg.Svc", "Inner", &["get", "r#type"]),
];
/// .. and of the servers committed in /repo (generated by the prost path, emit_package(true))
pub const COMMITTED_DESC: &[(&str, &str, &[&str])] = &[
    ("grpc.health.v1", "Health", &["check", "watch"]),
    ("grpc.reflection.v1", "ServerReflection", &["server_reflection_info"]),
    ("grpc.reflection.v1alpha", "ServerReflection", &["server_reflection_info"]),
];
