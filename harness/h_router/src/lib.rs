//! Fixture shared by h_router (C10) and h_codegen (C11): real generated clients/servers (see
//! build.rs), a raw byte codec, and a handler implementation that records which handler ran.
use std::sync::{Arc, Mutex};
use tonic::codec::{Codec, DecodeBuf, Decoder, EncodeBuf, Encoder};
use tonic::{Request, Response, Status, Streaming};

#[derive(Clone, Debug, Default, PartialEq, Eq)]
pub struct Msg(pub Vec<u8>);

#[derive(Clone, Debug, Default)]
pub struct RawCodec;
impl Codec for RawCodec {
    type Encode = Msg;
    type Decode = Msg;
    type Encoder = RawCodec;
    type Decoder = RawCodec;
    fn encoder(&mut self) -> RawCodec {
        RawCodec
    }
    fn decoder(&mut self) -> RawCodec {
        RawCodec
    }
}
impl Encoder for RawCodec {
    type Item = Msg;
    type Error = Status;
    fn encode(&mut self, item: Msg, dst: &mut EncodeBuf<'_>) -> Result<(), Status> {
        use bytes::BufMut;
        dst.put_slice(&item.0);
        Ok(())
    }
}
impl Decoder for RawCodec {
    type Item = Msg;
    type Error = Status;
    fn decode(&mut self, src: &mut DecodeBuf<'_>) -> Result<Option<Msg>, Status> {
        use bytes::Buf;
        let mut v = vec![0u8; src.remaining()];
        src.copy_to_slice(&mut v);
        Ok(Some(Msg(v)))
    }
}

pub mod pkg_svc {
    include!(concat!(env!("OUT_DIR"), "/pkg.Svc.rs"));
}
pub mod pkg_svcx {
    include!(concat!(env!("OUT_DIR"), "/pkg.SvcX.rs"));
}
pub mod nopkg_svc {
    include!(concat!(env!("OUT_DIR"), "/.Svc.rs"));
}
pub mod pkg_svc_inner {
    include!(concat!(env!("OUT_DIR"), "/pkg.Svc.Inner.rs"));
}

/// the generated sources themselves (for h_codegen: committed == what the fixture compiled)
pub const GENERATED: &[(&str, &str)] = &[
    ("pkg.Svc", include_str!(concat!(env!("OUT_DIR"), "/pkg.Svc.rs"))),
    ("pkg.SvcX", include_str!(concat!(env!("OUT_DIR"), "/pkg.SvcX.rs"))),
    ("Svc", include_str!(concat!(env!("OUT_DIR"), "/.Svc.rs"))),
    ("pkg.Svc.Inner", include_str!(concat!(env!("OUT_DIR"), "/pkg.Svc.Inner.rs"))),
];

/// (full service name, route name of the method, streaming shape the handler was entered with)
pub type Hits = Arc<Mutex<Vec<(String, String, &'static str)>>>;

/// Implements every generated server trait; each handler records itself and answers.
#[derive(Clone, Default)]
pub struct Rec {
    pub hits: Hits,
}
impl Rec {
    fn hit(&self, s: &str, m: &str, shape: &'static str) {
        self.hits.lock().unwrap().push((s.to_string(), m.to_string(), shape));
    }
}
pub type MsgStream = tokio_stream::Iter<std::vec::IntoIter<Result<Msg, Status>>>;
fn one() -> MsgStream {
    tokio_stream::iter(vec![Ok(Msg(b"r".to_vec()))])
}

#[tonic::async_trait]
impl pkg_svc::svc_server::Svc for Rec {
    async fn get(&self, _r: Request<Msg>) -> Result<Response<Msg>, Status> {
        self.hit("pkg.Svc", "Get", "unary");
        Ok(Response::new(Msg(b"r".to_vec())))
    }
    type ListStream = MsgStream;
    async fn list(&self, _r: Request<Msg>) -> Result<Response<MsgStream>, Status> {
        self.hit("pkg.Svc", "List", "server_streaming");
        Ok(Response::new(one()))
    }
    async fn put(&self, _r: Request<Streaming<Msg>>) -> Result<Response<Msg>, Status> {
        self.hit("pkg.Svc", "Put", "client_streaming");
        Ok(Response::new(Msg(b"r".to_vec())))
    }
    type ChatStream = MsgStream;
    async fn chat(&self, _r: Request<Streaming<Msg>>) -> Result<Response<MsgStream>, Status> {
        self.hit("pkg.Svc", "Chat", "streaming");
        Ok(Response::new(one()))
    }
}
#[tonic::async_trait]
impl pkg_svcx::svc_x_server::SvcX for Rec {
    async fn get(&self, _r: Request<Msg>) -> Result<Response<Msg>, Status> {
        self.hit("pkg.SvcX", "Get", "unary");
        Ok(Response::new(Msg(b"r".to_vec())))
    }
    async fn get_x(&self, _r: Request<Msg>) -> Result<Response<Msg>, Status> {
        self.hit("pkg.SvcX", "GetX", "unary");
        Ok(Response::new(Msg(b"r".to_vec())))
    }
    async fn ge(&self, _r: Request<Msg>) -> Result<Response<Msg>, Status> {
        self.hit("pkg.SvcX", "Ge", "unary");
        Ok(Response::new(Msg(b"r".to_vec())))
    }
}
#[tonic::async_trait]
impl nopkg_svc::svc_server::Svc for Rec {
    async fn get(&self, _r: Request<Msg>) -> Result<Response<Msg>, Status> {
        self.hit("Svc", "Get", "unary");
        Ok(Response::new(Msg(b"r".to_vec())))
    }
    async fn get_lower(&self, _r: Request<Msg>) -> Result<Response<Msg>, Status> {
        self.hit("Svc", "get", "unary");
        Ok(Response::new(Msg(b"r".to_vec())))
    }
    type GETStream = MsgStream;
    async fn get_upper(&self, _r: Request<Msg>) -> Result<Response<MsgStream>, Status> {
        self.hit("Svc", "GET", "server_streaming");
        Ok(Response::new(one()))
    }
}
#[tonic::async_trait]
impl pkg_svc_inner::inner_server::Inner for Rec {
    type GetStream = MsgStream;
    async fn get(&self, _r: Request<Streaming<Msg>>) -> Result<Response<MsgStream>, Status> {
        self.hit("pkg.Svc.Inner", "Get", "streaming");
        Ok(Response::new(one()))
    }
    async fn r#type(&self, _r: Request<Msg>) -> Result<Response<Msg>, Status> {
        self.hit("pkg.Svc.Inner", "type", "unary");
        Ok(Response::new(Msg(b"r".to_vec())))
    }
}

/// (full name, [(route name, shape)]) of the fixture services, as written in build.rs
pub const FIXTURE: &[(&str, &[(&str, &str)])] = &[
    ("pkg.Svc", &[("Get", "unary"), ("List", "server_streaming"), ("Put", "client_streaming"), ("Chat", "streaming")]),
    ("pkg.SvcX", &[("Get", "unary"), ("GetX", "unary"), ("Ge", "unary")]),
    ("Svc", &[("Get", "unary"), ("get", "unary"), ("GET", "server_streaming")]),
    ("pkg.Svc.Inner", &[("Get", "streaming"), ("type", "unary")]),
];

// ---- handlers for the generated servers that are COMMITTED in /repo (health, reflection) ----
use tonic_health::pb::{health_server::Health, HealthCheckRequest, HealthCheckResponse};
pub type HealthStream = tokio_stream::Iter<std::vec::IntoIter<Result<HealthCheckResponse, Status>>>;
#[tonic::async_trait]
impl Health for Rec {
    async fn check(&self, _r: Request<HealthCheckRequest>) -> Result<Response<HealthCheckResponse>, Status> {
        self.hit("grpc.health.v1.Health", "Check", "unary");
        Ok(Response::new(HealthCheckResponse { status: 1 }))
    }
    type WatchStream = HealthStream;
    async fn watch(&self, _r: Request<HealthCheckRequest>) -> Result<Response<HealthStream>, Status> {
        self.hit("grpc.health.v1.Health", "Watch", "server_streaming");
        Ok(Response::new(tokio_stream::iter(vec![Ok(HealthCheckResponse { status: 1 })])))
    }
}
pub mod refl {
    use super::*;
    use tonic_reflection::pb::v1 as r1;
    use tonic_reflection::pb::v1alpha as r1a;
    pub type S1 = tokio_stream::Iter<std::vec::IntoIter<Result<r1::ServerReflectionResponse, Status>>>;
    pub type S1a = tokio_stream::Iter<std::vec::IntoIter<Result<r1a::ServerReflectionResponse, Status>>>;
    #[tonic::async_trait]
    impl r1::server_reflection_server::ServerReflection for Rec {
        type ServerReflectionInfoStream = S1;
        async fn server_reflection_info(
            &self,
            _r: Request<Streaming<r1::ServerReflectionRequest>>,
        ) -> Result<Response<S1>, Status> {
            self.hit("grpc.reflection.v1.ServerReflection", "ServerReflectionInfo", "streaming");
            Ok(Response::new(tokio_stream::iter(vec![])))
        }
    }
    #[tonic::async_trait]
    impl r1a::server_reflection_server::ServerReflection for Rec {
        type ServerReflectionInfoStream = S1a;
        async fn server_reflection_info(
            &self,
            _r: Request<Streaming<r1a::ServerReflectionRequest>>,
        ) -> Result<Response<S1a>, Status> {
            self.hit("grpc.reflection.v1alpha.ServerReflection", "ServerReflectionInfo", "streaming");
            Ok(Response::new(tokio_stream::iter(vec![])))
        }
    }
}

/// the generated servers committed in /repo, as (NAME, [(method, shape)])
pub const COMMITTED: &[(&str, &[(&str, &str)])] = &[
    ("grpc.health.v1.Health", &[("Check", "unary"), ("Watch", "server_streaming")]),
    ("grpc.reflection.v1.ServerReflection", &[("ServerReflectionInfo", "streaming")]),
    ("grpc.reflection.v1alpha.ServerReflection", &[("ServerReflectionInfo", "streaming")]),
];
