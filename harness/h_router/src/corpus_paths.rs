const CORPUS_PATHS: &[&str] = &[
    "/pkg.Svc/Get", "/pkg.Svc/List", "/pkg.Svc/Put", "/pkg.Svc/Chat", "/pkg.SvcX/Get", "/pkg.SvcX/GetX", "/pkg.SvcX/Ge",
    "/Svc/Get", "/Svc/get", "/Svc/GET", "/pkg.Svc.Inner/Get", "/pkg.Svc.Inner/type",
    "/grpc.health.v1.Health/Check", "/grpc.health.v1.Health/Watch", "/grpc.health.v1.Health/check",
    "/grpc.health.v1.Healt/Check", "/grpc.health.v1.HealthX/Check", "/grpc.health.v1.Health/Check/",
    "/grpc.reflection.v1.ServerReflection/ServerReflectionInfo", "/grpc.reflection.v1alpha.ServerReflection/ServerReflectionInfo",
    "/grpc.reflection.v1.ServerReflection/serverReflectionInfo", "/grpc.reflection.v1beta.ServerReflection/ServerReflectionInfo",
    // the near misses of Props/C10.v c10_examples
    "/pkg.Other/Get", "/pkg.Svc/Nope", "/pkg.Sv/Get", "/pkg.SvcXY/Get", "/pkg/Svc/Get", "/pkg.Svc/Ge", "/pkg.Svc/GetX",
    "/pkg.Svc/Get/x", "/pkg.Svc/Get/", "/pkg.Svc//Get", "//pkg.Svc/Get", "/pkg.Svc/", "/pkg.Svc", "/", "*",
    "/pkg.svc/Get", "/pkg.Svc/GET", "/PKG.SVC/GET", "/pkg.Svc%2FGet", "/pkg.Svc%2fGet", "/pkg.Svc/%47et", "/pkg%2ESvc/Get",
    "/pkg.Svc/Get?x=1", "/pkg.Svc/Get?", "/pkg.Svc?/Get", "/pkg.Svc/Get#f", "http://h/pkg.Svc/Get", "https://example.com:443/pkg.Svc/Get/",
    "http://h", "/pkg.Svc/Get%20", "/pkg.Svc/Get;v=1", "/pkg.Svc;v=1/Get", "/./pkg.Svc/Get", "/pkg.Svc/../pkg.Svc/Get",
    "/pkg.Svc/%FF", "/pkg.Svc/\u{e9}", "/pkg.Svc./Get", "/.pkg.Svc/Get", "/pkg.Svc.Inner/Get/Get", "/pkg.Svc.Inne/Get",
    "/pkg.Svc/Inner/Get", "/Svc/Svc/Get", "/pkg.Svc/pkg.Svc/Get", "/pkg.Svc/{*rest}", "/{S}/Get", "/pkg.Svc/*",
];

