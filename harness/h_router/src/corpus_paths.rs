const CORPUS_PATHS: &[&str] = &[
    "/pkg.Svc/Get", "/pkg.Svc/List", "/pkg.Svc/Put", "/pkg.Svc/Chat", "/pkg.SvcX/Get", "/pkg.SvcX/GetX", "/pkg.SvcX/Ge",
    "/Svc/Get", "/Svc/get", "/Svc/GET", "/pkg.Svc.Inner/Get", "/pkg.Svc.Inner/type",
    "/grpc.health.v1.Health/Check", "/grpc.health.v1.Health/Watch", "/grpc.health.v1.Health/check",
    "/grpc.health.v1.Healt/Check", "/grpc.health.v1.HealthX/Check", "/grpc.health.v1.Health/Check/",
    "/grpc.reflection.v1.ServerReflection/ServerReflectionInfo", "/grpc.reflection.v1alpha.ServerReflection/ServerReflectionInfo",
    "/grpc.reflection.v1.ServerReflection/serverReflectionInfo", "/grpc.reflection.v1beta.ServerReflection/ServerReflectionInfo",
    // the near misses of Props/C10.v c10_examples
    "/pkg.Other/Get", "/pkg.Svc/Nope", "/pkg.Sv/Get", "/pkg.SvcXY/Get", "/pkg/Svc/Get", "/pkg.Svc/Ge", "/pkg.Svc/GetX",
    "/pkg.Svc/Get/x", "/pkg.Svc/Get/", "/pkg.Svc//Get", "//pkg.Svc/Get", "/pkg.Svc/", "/pkg.Svc", "/", "*",
    "/pkg.svc/Get", "/pkg.Svc/GET", "/PKG.SVC/GET", "/pkg.Svc%2FGet", "/pkg.Svc%2fGet", "/pkg.Svc/%47et", "/pkg%2ESvc/Get",
    "/pkg.Svc/Get?x=1", "/pkg.Svc/Get?", "/pkg.Svc?/Get", "/pkg.Svc/Get#f", "http://h/pkg.Svc/Get", "https://example.com:443/pkg.Svc/Get/",
    "http://h", "/pkg.Svc/Get%20", "/pkg.Svc/Get;v=1", "/pkg.Svc;v=1/Get", "/./pkg.Svc/Get", "/pkg.Svc/../pkg.Svc/Get",
    "/pkg.Svc/%FF", "/pkg.Svc/\u{e9}", "/pkg.Svc./Get", "/.pkg.Svc/Get", "/pkg.Svc.Inner/Get/Get", "/pkg.Svc.Inne/Get",
    "/pkg.Svc/Inner/Get", "/Svc/Svc/Get", "/pkg.Svc/pkg.Svc/Get", "/pkg.Svc/{*rest}", "/{S}/Get", "/pkg.Svc/*",
];

/// paths aimed at the identifier fixture (build.rs id_fixture): exact proto spellings and every
/// Rust-side spelling of service, method, module, package
const ID_CORPUS_PATHS: &[&str] = &[
    // exact: /<package>.<identifier>/<method identifier>
    "/pkg.HTTPEcho/Ping", "/pkg.HTTPEcho/GetURL", "/pkg.HTTPEcho/Stream_V2", "/pkg.Echo_V2/echo", "/pkg.Echo_V2/EchoAll",
    "/greeter/SayHello", "/greeter/sayHelloAgain", "/HTTPEcho/Ping", "/pkg.HttpEcho/Ping", "/pkg.HttpEcho/OnlyHere", "/Greeter/SayHello",
    // Service::name() instead of the identifier
    "/pkg.HttpEcho/GetURL", "/pkg.HttpEcho/Stream_V2", "/pkg.EchoV2/echo", "/pkg.EchoV2/EchoAll", "/Greeter/sayHelloAgain", "/HttpEcho/Ping",
    // Method::name() / other casings of the method
    "/pkg.HTTPEcho/ping", "/pkg.HTTPEcho/get_url", "/pkg.HTTPEcho/GetUrl", "/pkg.HTTPEcho/stream_v2", "/pkg.HTTPEcho/StreamV2",
    "/pkg.Echo_V2/Echo", "/pkg.Echo_V2/echo_all", "/greeter/say_hello", "/greeter/SayHelloAgain", "/greeter/say_hello_again", "/pkg.HttpEcho/only_here",
    // both
    "/pkg.HttpEcho/ping", "/pkg.EchoV2/echo_all", "/Greeter/say_hello",
    // module / type names, package on and off
    "/pkg.http_echo/Ping", "/pkg.http_echo_server/Ping", "/pkg.HTTPEchoServer/Ping", "/pkg.HttpEchoServer/Ping", "/pkg.echo_v2/echo",
    "/hidden.pkg.HTTPEcho/Ping", "/hidden.pkg.HttpEcho/Ping", "/hidden.pkg.Greeter/SayHello", "/hidden.pkg/Ping", "/pkg.greeter/SayHello", "/pkg.Greeter/SayHello",
    "/Echo_V2/echo", "/EchoV2/echo", "/pkg/HTTPEcho/Ping", "/pkg.HTTPEcho.Ping", "/pkg.HTTPECHO/Ping", "/pkg.httpecho/Ping", "/pkg.HTTPEcho/PING",
    "/pkg.Echo-V2/echo", "/pkg.Echo%5FV2/echo", "/pkg.Echo_V2/", "/pkg.Echo_V/echo", "/pkg.Echo_V22/echo", "/GREETER/SayHello", "/greeter./SayHello",
];
