//! C04 correspondence harness: Status <-> headers, Code tables, status inference.
use bytes::Bytes;
use http::{HeaderMap, HeaderName, HeaderValue};
use serde_json::json;
use tonic::metadata::{MetadataKey, MetadataMap, MetadataValue};
use tonic::{Code, Status};
use vcommon::body::{spin, Ev, ScriptBody};
use vcommon::*;

const IMPORTS: &str = "From Verif Require Import Lib.Bytes Lib.Obs Lib.HeaderMap Model.Status Model.StatusExt.";

const MSG_PREFIX: &str = "Error deserializing status message header: ";
const DET_PREFIX: &str = "Error deserializing status details header: ";
const HTTP_PREFIX: &str = "grpc-status header missing, mapped from HTTP status code ";

fn canon_msg(m: &str) -> Vec<u8> {
    for p in [MSG_PREFIX, DET_PREFIX, HTTP_PREFIX] {
        if m.starts_with(p) {
            return p.as_bytes().to_vec();
        }
    }
    m.as_bytes().to_vec()
}
fn status_tr(st: &Status) -> Tr {
    Tr::L(vec![
        Tr::n(st.code() as i32 as u32),
        Tr::B(canon_msg(st.message())),
        Tr::b(st.details()),
        hm_tr(&st.metadata().clone().into_headers()),
    ])
}
fn status_coq(code: u32, msg: &[u8], details: &[u8], md: &HeaderMap) -> String {
    format!(
        "(mkStatus {} {} {} {})",
        code,
        coq_bytes(msg),
        coq_bytes(details),
        coq_hm(md)
    )
}

// ------------------------------------------------------------------ generators
fn gen_message(r: &mut Rng) -> String {
    let pieces: &[&str] = &[
        "a", "Z", "0", " ", "%", "\"", "#", "<", ">", "?", "{", "}", "`", "\u{7f}", "\u{0}", "\n", "\t",
        "\u{1f}", "é", "ß", "€", "語", "😀", "\u{10FFFF}", "%41", "%zz", "+", "/", "=", ":", "~", "|",
    ];
    let n = match r.below(40) {
        0..=3 => 0,
        4..=27 => r.range(1, 8),
        28..=35 => r.range(9, 30),
        36..=38 => r.range(31, 60),
        _ => r.range(100, 300),
    };
    (0..n).map(|_| *r.pick(pieces)).collect()
}
fn gen_details(r: &mut Rng) -> Vec<u8> {
    let n = match r.below(10) {
        0 | 1 => 0,
        2..=7 => r.range(1, 9),
        8 => r.range(10, 40),
        _ => r.range(90, 200),
    } as usize;
    r.bytes(n)
}
const KEYS: &[&str] = &[
    "x-a", "x-b", "x-trace-id", "authorization", "x-payload-bin", "x-other-bin", "te", "user-agent",
    "content-type", "grpc-message", "grpc-message-type", "grpc-status", "grpc-timeout",
    "grpc-encoding", "grpc-accept-encoding",
];
fn gen_ascii_value(r: &mut Rng) -> String {
    let n = r.range(0, 12) as usize;
    (0..n).map(|_| r.range(0x20, 0x7e) as u8 as char).collect()
}
fn gen_metadata(r: &mut Rng, allow_details_key: bool) -> MetadataMap {
    let mut m = MetadataMap::new();
    let n = match r.below(24) {
        0..=3 => 0,
        4..=15 => r.range(1, 3),
        16..=21 => r.range(4, 7),
        22 => r.range(8, 20),
        _ => r.range(21, 60),
    };
    for _ in 0..n {
        let mut k = *r.pick(KEYS);
        // the unreserved protocol name of F-C04e: about one status in six holds an entry of it
        if allow_details_key && r.chance(1, 12) {
            k = "grpc-status-details-bin";
        }
        if k.ends_with("-bin") {
            let len = r.range(0, 7) as usize;
            let v = MetadataValue::from_bytes(&r.bytes(len));
            m.append_bin(MetadataKey::from_bytes(k.as_bytes()).unwrap(), v);
        } else {
            let v: MetadataValue<_> = match gen_ascii_value(r).parse() {
                Ok(v) => v,
                Err(_) => continue,
            };
            m.append(MetadataKey::from_bytes(k.as_bytes()).unwrap(), v);
        }
    }
    m
}

// ------------------------------------------------------------------ kinds: a status written to headers
/// where the status is written: a fresh map (add_header), the trailers of a server stream
/// (Status::to_header_map through EncodeBody::new_server), the head of a Trailers-Only response
/// (Status::into_http), an existing map (add_header into `pre`)
#[derive(Clone, Copy, PartialEq, Debug)]
enum Sink {
    Fresh,
    Trailers,
    IntoHttp,
    Into,
}
impl Sink {
    fn kind(self) -> &'static str {
        match self {
            Sink::Fresh => "roundtrip",
            Sink::Trailers => "trailers",
            Sink::IntoHttp => "into_http",
            Sink::Into => "add_header.into",
        }
    }
}
enum Wrote {
    Map(HeaderMap),
    Err,
}
/// run the real code; a panic is reported by the caller (catch)
fn write_status(st: Status, sink: Sink, pre: &HeaderMap) -> Wrote {
    match sink {
        Sink::Fresh | Sink::Into => {
            let mut hm = pre.clone();
            match st.add_header(&mut hm) {
                Ok(()) => Wrote::Map(hm),
                Err(_) => Wrote::Err,
            }
        }
        Sink::IntoHttp => Wrote::Map(st.into_http::<()>().headers().clone()),
        Sink::Trailers => {
            use http_body::Body;
            let src = tokio_stream::iter(vec![Err::<Vec<u8>, Status>(st)]);
            let body = tonic::codec::EncodeBody::new_server(RawEncoder, src, None, Default::default(), None);
            let mut body = Box::pin(body);
            let w = vcommon::body::noop_waker();
            let mut cx = std::task::Context::from_waker(&w);
            match body.as_mut().poll_frame(&mut cx) {
                std::task::Poll::Ready(Some(Ok(f))) => match f.into_trailers() {
                    Ok(t) => Wrote::Map(t),
                    Err(_) => panic!("harness: a data frame instead of trailers"),
                },
                std::task::Poll::Ready(Some(Err(_))) => Wrote::Err,
                _ => panic!("harness: no trailers frame"),
            }
        }
    }
}
fn legal_value(v: &[u8]) -> bool {
    v.iter().all(|b| *b == 9 || (0x20..0x7f).contains(b) || *b >= 0x80)
}
const STATUS_NAMES: &[&str] = &["grpc-status", "grpc-message", "grpc-status-details-bin"];
/// names MetadataMap::into_sanitized_headers strips (written from the gRPC protocol, not from tonic)
const SANITIZED: &[&str] = &["te", "user-agent", "content-type", "grpc-message", "grpc-message-type", "grpc-status"];

/// The property's direct check on what was written, independent of the model AND (for the wire
/// format) of tonic's decoders: grpc-status is the decimal code, grpc-message percent-decodes
/// (own decoder) to the message, grpc-status-details-bin is unpadded base64 (own decoder) of the
/// details and ABSENT for empty details - whatever the status metadata or the target map held under
/// that name (F-C04e, fixed by ed827503: STRICT, no exception) -, every value is a legal header
/// value, and Status::from_header_map reads an equal status back: the details are the status's own
/// in ALL cases; metadata: the target map extended by the status metadata minus the reserved
/// names and minus the three status header names.  `base` = what the target map held before
/// (content-type for into_http).
fn judge_written(code: u32, msg: &str, details: &[u8], mdh: &HeaderMap, base: &HeaderMap, hm: &HeaderMap) -> Option<String> {
    for (k, v) in hm.iter() {
        if !legal_value(v.as_bytes()) {
            return Some(format!("illegal header value written under {}", k));
        }
    }
    let sv: Vec<_> = hm.get_all("grpc-status").iter().collect();
    if sv.len() != 1 || sv[0].as_bytes() != code.to_string().as_bytes() {
        return Some(format!("grpc-status is not exactly the decimal code {}", code));
    }
    let stale_msg = base.contains_key("grpc-message");
    let mv: Vec<_> = hm.get_all("grpc-message").iter().collect();
    if !msg.is_empty() {
        if mv.len() != 1 {
            return Some("not exactly one grpc-message".into());
        }
        let raw = mv[0].as_bytes();
        if !raw.iter().all(|b| (0x20..0x7f).contains(b)) {
            return Some("grpc-message is not printable ASCII".into());
        }
        if indep_pct(raw) != msg.as_bytes() {
            return Some("grpc-message does not percent-decode to the message".into());
        }
    } else if !stale_msg && !mv.is_empty() {
        return Some("grpc-message written for an empty message".into());
    }
    let dv: Vec<_> = hm.get_all("grpc-status-details-bin").iter().collect();
    if !details.is_empty() {
        if dv.len() != 1 {
            return Some("not exactly one grpc-status-details-bin".into());
        }
        let raw = dv[0].as_bytes();
        if raw.contains(&b'=') {
            return Some("grpc-status-details-bin is padded".into());
        }
        if indep_b64(raw).as_deref() != Some(details) {
            return Some("grpc-status-details-bin does not decode to the details".into());
        }
    } else if !dv.is_empty() {
        return Some("a grpc-status-details-bin header is in the written map although the status has no details (F-C04e)".into());
    }
    let b = match Status::from_header_map(hm) {
        None => return Some("status not found in the headers it was written to".into()),
        Some(b) => b,
    };
    // the target map already carried a grpc-message that this status (empty message) does not
    // overwrite (only possible for add_header into a caller-supplied map): code and message read
    // back are then decided by the caller's stale header - outside the property (premise of
    // c04_add_header_roundtrip); details and metadata are judged all the same
    if !(msg.is_empty() && stale_msg) {
        if b.code() as i32 as u32 != code {
            return Some(format!("code {} read back as {}", code, b.code() as i32));
        }
        if b.message() != msg {
            return Some("message changed".into());
        }
    }
    if b.details() != details {
        return Some("details changed: the status read back does not have the status's own details".into());
    }
    let bm = b.metadata().clone().into_headers();
    let mut names: std::collections::BTreeSet<String> = Default::default();
    for m in [mdh, base, &bm] {
        for k in m.keys() {
            names.insert(k.as_str().to_string());
        }
    }
    for k in names {
        let got: Vec<&[u8]> = bm.get_all(k.as_str()).iter().map(|v| v.as_bytes()).collect();
        let want: Vec<&[u8]> = if STATUS_NAMES.contains(&k.as_str()) {
            vec![]
        } else if SANITIZED.contains(&k.as_str()) || !mdh.contains_key(k.as_str()) {
            base.get_all(k.as_str()).iter().map(|v| v.as_bytes()).collect()
        } else {
            mdh.get_all(k.as_str()).iter().map(|v| v.as_bytes()).collect()
        };
        if got != want {
            return Some(if SANITIZED.contains(&k.as_str()) && mdh.contains_key(k.as_str()) {
                format!("reserved name {} of the status metadata came back", k)
            } else {
                format!("metadata {} changed", k)
            });
        }
    }
    None
}

fn case_written(out: &mut Out, sink: Sink, code: u32, msg: &str, details: &[u8], md: MetadataMap, pre: HeaderMap, corpus: bool) {
    case_written_tag(out, sink, code, msg, details, md, pre, if corpus { Some("") } else { None });
}
/// `tag`: None = a generated case (kind = the sink's), Some("") = corpus.<sink>,
/// Some("F-C04e") = corpus.F-C04e.<sink> (the witness family of a fixed finding)
fn case_written_tag(out: &mut Out, sink: Sink, code: u32, msg: &str, details: &[u8], md: MetadataMap, pre: HeaderMap, tag: Option<&str>) {
    let mdh = md.clone().into_headers();
    let st = Status::with_details_and_metadata(Code::from_i32(code as i32), msg.to_string(), Bytes::copy_from_slice(details), md);
    let stc = status_coq(code, msg.as_bytes(), details, &mdh);
    let model = match sink {
        Sink::Fresh => format!("obs_roundtrip_c {}", stc),
        Sink::Trailers => format!("obs_trailers {}", stc),
        Sink::IntoHttp => format!("obs_into_http {}", stc),
        Sink::Into => format!("obs_add_header {} {}", stc, coq_hm(&pre)),
    };
    let mut base = pre.clone();
    if sink == Sink::IntoHttp {
        base.insert("content-type", HeaderValue::from_static("application/grpc"));
    }
    let res = catch(std::panic::AssertUnwindSafe(|| write_status(st, sink, &pre)));
    let (obs, oracle) = match res {
        Err(p) => (Tr::L(vec![Tr::n(99u8)]), Some(format!("panic: {}", p))),
        Ok(Wrote::Err) => (Tr::L(vec![Tr::n(0u8)]), Some("writing the status returned Err (illegal header value)".to_string())),
        Ok(Wrote::Map(hm)) => {
            let back = Status::from_header_map(&hm);
            let why = judge_written(code, msg, details, &mdh, &base, &hm);
            (Tr::L(vec![Tr::n(1u8), hm_tr(&hm), Tr::opt(back.as_ref().map(status_tr))]), why)
        }
    };
    let k = sink.kind();
    out.hist(&format!("{}.msg_len", k), bucket(msg.len()));
    out.hist(&format!("{}.details_len_mod3", k), details.len() % 3);
    out.hist(&format!("{}.md_entries", k), bucket(mdh.len()));
    if sink == Sink::Into {
        out.hist("add_header.into.pre_entries", pre.len());
    }
    // the shape of F-C04e: a grpc-status-details-bin entry among the status metadata (or in the
    // target map), with / without details of the status's own
    let det_entry = mdh.contains_key("grpc-status-details-bin") || pre.contains_key("grpc-status-details-bin");
    out.hist(
        &format!("{}.details_bin_entry", k),
        match (det_entry, details.is_empty()) {
            (false, _) => "none",
            (true, true) => "entry, status WITHOUT details (F-C04e shape)",
            (true, false) => "entry, status with details",
        },
    );
    out.push(Case {
        kind: match tag {
            None => k.to_string(),
            Some("") => format!("corpus.{}", k),
            Some(t) => format!("corpus.{}.{}", t, k),
        },
        input: json!({"code": code, "msg": hex(msg.as_bytes()), "details": hex(details), "md": hm_json(&mdh), "pre": hm_json(&pre)}),
        model,
        impl_obs: obs,
        oracle,
        nontrivial: !msg.is_empty() || !details.is_empty() || !mdh.is_empty(),
    });
}
fn case_roundtrip(out: &mut Out, code: u32, msg: &str, details: &[u8], md: MetadataMap, corpus: bool) {
    case_written(out, Sink::Fresh, code, msg, details, md, HeaderMap::new(), corpus);
}

// ------------------------------------------------------------------ kinds: capacity.* (http::HeaderMap holds 24576 names)
/// the metadata of the Coq side's `cap_md names dups`: `names` distinct ascending names k00000...,
/// then `dups` further values under the one name x-dup
fn cap_md(names: usize, dups: usize) -> MetadataMap {
    let mut m = MetadataMap::new();
    for i in 0..names {
        m.append(MetadataKey::from_bytes(format!("k{:05}", i).as_bytes()).unwrap(), MetadataValue::from_static("v"));
    }
    for _ in 0..dups {
        m.append(MetadataKey::from_static("x-dup"), MetadataValue::from_static("v"));
    }
    m
}
const HM_MAX_NAMES: usize = 24576;
fn case_capacity(out: &mut Out, sink: Sink, names: usize, dups: usize, msg: &str, details: &[u8], pre: HeaderMap, witness: Option<&str>) {
    let code = 5u32;
    let md = cap_md(names, dups);
    let mdh = md.clone().into_headers();
    let st = Status::with_details_and_metadata(Code::from_i32(code as i32), msg.to_string(), Bytes::copy_from_slice(details), md);
    let args = format!("{} {} {} {} {}", code, coq_bytes(msg.as_bytes()), coq_bytes(details), names, dups);
    let model = match sink {
        Sink::Trailers => format!("obs_cap_trailers {}", args),
        Sink::IntoHttp => format!("obs_cap_into_http {}", args),
        _ => format!("obs_cap_add {} {}", args, coq_hm(&pre)),
    };
    let mut base = pre.clone();
    if sink == Sink::IntoHttp {
        base.insert("content-type", HeaderValue::from_static("application/grpc"));
    }
    // independent expectation: the finished map holds these names
    let mut fin: std::collections::BTreeSet<String> = base.keys().map(|k| k.as_str().to_string()).collect();
    let base_names = fin.len();
    for k in mdh.keys() {
        if !SANITIZED.contains(&k.as_str()) {
            fin.insert(k.as_str().to_string());
        }
    }
    fin.insert("grpc-status".into());
    if !msg.is_empty() {
        fin.insert("grpc-message".into());
    }
    // the map is at its fullest before the last step: a status without details finally REMOVES
    // grpc-status-details-bin (fix ed827503), a removal cannot panic
    let peak = fin.len() + if !details.is_empty() && !fin.contains("grpc-status-details-bin") { 1 } else { 0 };
    if !details.is_empty() {
        fin.insert("grpc-status-details-bin".into());
    } else {
        fin.remove("grpc-status-details-bin");
    }
    let fits = peak <= HM_MAX_NAMES;
    // http's insert reserves a slot before it looks the name up: a map that is exactly full
    // refuses even a name it already holds.  Only possible when the target map already had one
    // of the names that are written; not tonic's to decide - tie only.
    let written = ["grpc-status", "grpc-message", "grpc-status-details-bin"];
    let corner = fits
        && fin.len() == HM_MAX_NAMES
        && pre.keys().any(|k| written.contains(&k.as_str()) || mdh.contains_key(k));
    let _ = base_names;
    let res = catch(std::panic::AssertUnwindSafe(|| write_status(st, sink, &pre)));
    let (obs, oracle) = match res {
        Err(p) => (
            Tr::L(vec![Tr::n(99u8)]),
            if fits && !corner { Some(format!("panic although the finished map has only {} names: {}", fin.len(), p)) } else { None },
        ),
        Ok(Wrote::Err) => (Tr::L(vec![Tr::n(0u8)]), Some("writing the status returned Err".to_string())),
        Ok(Wrote::Map(hm)) => {
            let mut why = judge_written(code, msg, details, &mdh, &base, &hm);
            if why.is_none() && hm.keys_len() != fin.len() {
                why = Some(format!("{} names written, {} expected", hm.keys_len(), fin.len()));
            }
            (Tr::L(vec![Tr::n(1u8), Tr::n(hm.keys_len() as u64), Tr::n(hm.len() as u64)]), why)
        }
    };
    let k = match sink {
        Sink::Trailers => "capacity.trailers",
        Sink::IntoHttp => "capacity.into_http",
        _ => "capacity.add_header",
    };
    out.hist("capacity.finished_names_minus_24576", fin.len() as i64 - HM_MAX_NAMES as i64);
    out.push(Case {
        kind: format!("corpus.{}{}", k, witness.map(|w| format!(".{}", w)).unwrap_or_default()),
        input: json!({"names": names, "dups": dups, "msg": hex(msg.as_bytes()), "details": hex(details), "pre": hm_json(&pre), "sink": format!("{:?}", sink)}),
        model,
        impl_obs: obs,
        oracle,
        nontrivial: true,
    });
}

fn bucket(n: usize) -> String {
    match n {
        0 => "0".into(),
        1..=8 => "1-8".into(),
        9..=64 => "9-64".into(),
        _ => ">64".into(),
    }
}

// ---- independent re-implementations used only by the oracle (written from the specifications of
// the base64 Indifferent-padding decoder and of percent-decoding, not from tonic's code path)
fn b64_val(c: u8) -> Option<u32> {
    match c {
        b'A'..=b'Z' => Some((c - b'A') as u32),
        b'a'..=b'z' => Some((c - b'a') as u32 + 26),
        b'0'..=b'9' => Some((c - b'0') as u32 + 52),
        b'+' => Some(62),
        b'/' => Some(63),
        _ => None,
    }
}
fn indep_b64(v: &[u8]) -> Option<Vec<u8>> {
    // padding may only close the last group of at most four bytes, after >= 2 symbols
    let n = v.len();
    let last = if n == 0 { 0 } else if n % 4 == 0 { 4 } else { n % 4 };
    let (head, tail) = v.split_at(n - last);
    let mut out = vec![];
    for q in head.chunks(4) {
        let x: Option<Vec<u32>> = q.iter().map(|c| b64_val(*c)).collect();
        let x = x?;
        let w = (x[0] << 18) | (x[1] << 12) | (x[2] << 6) | x[3];
        out.extend_from_slice(&[(w >> 16) as u8, (w >> 8) as u8, w as u8]);
    }
    let syms: Vec<u8> = tail.iter().cloned().take_while(|c| *c != b'=').collect();
    if tail[syms.len()..].iter().any(|c| *c != b'=') {
        return None;
    }
    if tail.len() > syms.len() && syms.len() < 2 {
        return None;
    }
    let x: Option<Vec<u32>> = syms.iter().map(|c| b64_val(*c)).collect();
    let x = x?;
    match x.len() {
        0 => {
            if !tail.is_empty() {
                return None;
            }
        }
        1 => return None,
        2 => {
            if x[1] & 0xf != 0 {
                return None;
            }
            out.push(((x[0] << 2) | (x[1] >> 4)) as u8);
        }
        3 => {
            if x[2] & 0x3 != 0 {
                return None;
            }
            out.push(((x[0] << 2) | (x[1] >> 4)) as u8);
            out.push((((x[1] & 0xf) << 4) | (x[2] >> 2)) as u8);
        }
        _ => {
            let w = (x[0] << 18) | (x[1] << 12) | (x[2] << 6) | x[3];
            out.extend_from_slice(&[(w >> 16) as u8, (w >> 8) as u8, w as u8]);
        }
    }
    Some(out)
}
fn indep_pct(v: &[u8]) -> Vec<u8> {
    fn hv(c: u8) -> Option<u8> {
        (c as char).to_digit(16).map(|d| d as u8)
    }
    let mut out = vec![];
    let mut i = 0;
    while i < v.len() {
        if v[i] == b'%' && i + 2 < v.len() + 0 && i + 2 <= v.len() - 1 {
            if let (Some(a), Some(b)) = (hv(v[i + 1]), hv(v[i + 2])) {
                out.push(a * 16 + b);
                i += 3;
                continue;
            }
        }
        out.push(v[i]);
        i += 1;
    }
    out
}

// ------------------------------------------------------------------ kind: hostile
const CODE_VALUES: &[&[u8]] = &[
    b"0", b"1", b"2", b"9", b"10", b"16", b"17", b"", b"007", b"00", b"-1", b"+1", b" 1", b"1 ", b"2x",
    b"16 ", b"99", b"100", b"\xff", b"\xc3\xa9", b"1\t", b"0x1", b"15", b"3", b"12", b"13",
];
const MSG_VALUES: &[&[u8]] = &[
    b"", b"ok", b"a%20b", b"%", b"%4", b"%G1", b"%ff", b"%C3%A9", b"%C3%28", b"%E2%82%AC", b"%e2%82%ac",
    b"%F0%9F%98%80", b"%ED%A0%80", b"%F4%90%80%80", b"%C0%AF", b"a%", b"%%", b"%25", b"%2", b"\xe9",
    b"\xc3\xa9", b"\xff\xfe", b"100%", b"%41%42%43", b"\t", b"a b",
];
const DET_VALUES: &[&[u8]] = &[
    b"", b"QQ", b"QQ=", b"QQ==", b"QQ===", b"QR", b"Q", b"QU JD", b"!!!", b"=", b"==", b"A=", b"AA=A",
    b"AAAA", b"AAA=", b"AAA", b"AAAAA", b"AAAAAA", b"AAAAAA==", b"AAAAAAA", b"AAAAAAA=", b"/+/+", b"-_-_",
    b"QUJD", b"QUJDRA", b"QUJDRA==", b"QUJDRA=", b"QUJD=", b"QUJD====", b"Zm9vYg==", b"Zm9vYh==", b"Zm9vYmE=",
    b"Zm9vYmF=", b"\xff\xff\xff\xff", b"AA\tA", b"AAAA\t", b"AAAA ", b" AAAA",
];
fn gen_value(r: &mut Rng, pool: &[&[u8]], alphabet: &[u8]) -> Vec<u8> {
    if r.chance(2, 3) {
        r.pick(pool).to_vec()
    } else {
        let n = r.range(0, 12) as usize;
        (0..n).map(|_| *r.pick(alphabet)).collect()
    }
}
/// long peer-supplied values: lengths around every power of two / round constant a reader might
/// slice, truncate or preview at, filled with one ASCII byte, with multi-byte UTF-8 sequences and
/// invalid bytes placed so that they STRADDLE such an offset, and a tail that makes the field
/// undecodable (or not, for the decodable half)
fn gen_long_value(r: &mut Rng, filler: u8, tails: &[&[u8]]) -> Vec<u8> {
    const MARKS: &[usize] = &[8, 15, 16, 31, 32, 48, 63, 64, 65, 80, 100, 127, 128, 200, 255, 256, 512, 1000, 1024, 4096];
    const SEQS: &[&[u8]] = &[b"\xc3\xa9", b"\xe2\x82\xac", b"\xf0\x9f\x98\x80", b"\xff", b"\xc3", b"\xe2\x82"];
    let mark = *r.pick(MARKS);
    let n = mark + r.below(8) as usize;
    let mut v = vec![filler; n];
    for _ in 0..r.range(1, 3) {
        let seq = *r.pick(SEQS);
        let around = if r.chance(3, 4) { mark } else { *r.pick(MARKS) };
        // start so that the sequence covers offset `around` (or ends / begins exactly there)
        let back = r.below(seq.len() as u64 + 1) as usize;
        let at = around.saturating_sub(back).min(v.len());
        for (i, b) in seq.iter().enumerate() {
            if at + i < v.len() { v[at + i] = *b; } else { v.push(*b); }
        }
    }
    let tail: &[u8] = *r.pick(tails);
    v.extend_from_slice(tail);
    v
}
fn case_hostile(out: &mut Out, entries: Vec<(String, Vec<u8>)>, corpus: bool) {
    let mut hm = HeaderMap::new();
    for (k, v) in &entries {
        if let (Ok(k), Ok(v)) = (HeaderName::from_bytes(k.as_bytes()), HeaderValue::from_bytes(v)) {
            hm.append(k, v);
        } else {
            // not a header an HTTP stack can deliver: never silently
            out.hist("hostile.entries_not_representable", hex(v));
        }
    }
    let model = format!("obs_from_headers {}", coq_hm(&hm));
    let res = catch(std::panic::AssertUnwindSafe(|| Status::from_header_map(&hm)));
    let (obs, oracle) = match res {
        Err(p) => (Tr::L(vec![Tr::n(99u8)]), Some(format!("panic reading headers: {}", p))),
        Ok(st) => {
            let mut why = None;
            if let (Some(st), Some(cv)) = (&st, hm.get("grpc-status")) {
                let canonical: Vec<String> = (0..17).map(|i| i.to_string()).collect();
                let ok = canonical.iter().any(|c| c.as_bytes() == cv.as_bytes());
                if !ok && st.code() != Code::Unknown {
                    why = Some("malformed grpc-status did not become UNKNOWN".to_string());
                }
            }
            // undecodable fields degrade to UNKNOWN; decodable ones are read exactly
            if let Some(st) = &st {
                let msg_ok = match hm.get("grpc-message") {
                    Some(m) => match String::from_utf8(indep_pct(m.as_bytes())) {
                        Ok(t) => Some(t),
                        Err(_) => None,
                    },
                    None => Some(String::new()),
                };
                let det_ok = match hm.get("grpc-status-details-bin") {
                    Some(d) => indep_b64(d.as_bytes()),
                    None => Some(vec![]),
                };
                match (&msg_ok, &det_ok) {
                    (Some(m), Some(d)) => {
                        if st.message() != m {
                            why = Some("decodable grpc-message not read exactly".to_string());
                        }
                        if st.details() != &d[..] {
                            why = Some("decodable grpc-status-details-bin not read exactly".to_string());
                        }
                        // a canonical code with decodable fields is that code
                        if let Some(cv) = hm.get("grpc-status") {
                            if let Some(n) = (0..17u32).find(|i| i.to_string().as_bytes() == cv.as_bytes()) {
                                if st.code() as i32 as u32 != n {
                                    why = Some(format!("grpc-status {} read as code {}", n, st.code() as i32));
                                }
                            }
                        }
                    }
                    _ => {
                        if st.code() != Code::Unknown {
                            why = Some("undecodable message/details did not degrade to UNKNOWN".to_string());
                        }
                    }
                }
            }
            if st.is_some() != hm.contains_key("grpc-status") {
                why = Some("presence of status does not match presence of grpc-status".to_string());
            }
            // exactly the three status headers are stripped; every other header is metadata
            if let Some(st) = &st {
                let md = st.metadata().clone().into_headers();
                let mut names: std::collections::BTreeSet<&str> = hm.keys().map(|k| k.as_str()).collect();
                names.extend(md.keys().map(|k| k.as_str()));
                for k in names {
                    let got: Vec<&[u8]> = md.get_all(k).iter().map(|v| v.as_bytes()).collect();
                    let want: Vec<&[u8]> = if STATUS_NAMES.contains(&k) { vec![] } else { hm.get_all(k).iter().map(|v| v.as_bytes()).collect() };
                    if got != want {
                        why = Some(format!("header {} is not carried into the status metadata as it was", k));
                    }
                }
            }
            (Tr::opt(st.as_ref().map(status_tr)), why)
        }
    };
    out.hist("hostile.entries", hm.len());
    out.push(Case {
        kind: if corpus { "corpus.hostile".into() } else { "hostile".into() },
        input: json!({"headers": hm_json(&hm)}),
        model,
        impl_obs: obs,
        oracle,
        nontrivial: hm.len() >= 2,
    });
}

// ------------------------------------------------------------------ kind: infer (through Streaming)
#[derive(Default, Clone)]
struct RawDecoder;
impl tonic::codec::Decoder for RawDecoder {
    type Item = Vec<u8>;
    type Error = Status;
    fn decode(&mut self, src: &mut tonic::codec::DecodeBuf<'_>) -> Result<Option<Vec<u8>>, Status> {
        use bytes::Buf;
        let mut v = vec![0u8; src.remaining()];
        src.copy_to_slice(&mut v);
        Ok(Some(v))
    }
}
/// what the property says a response with this HTTP status and these trailers (empty body) ends
/// with: None = clean end, Some(code) = that error.  Written from the property text: a grpc-status
/// in the trailers decides (malformed -> UNKNOWN, undecodable message/details -> UNKNOWN), else
/// the gRPC HTTP mapping table.  Uses the oracle's own percent / base64 decoders.
fn infer_expected(http: u16, trailers: Option<&HeaderMap>) -> Option<u32> {
    if let Some(cv) = trailers.and_then(|t| t.get("grpc-status")) {
        let t = trailers.unwrap();
        let canonical: Vec<String> = (0..17).map(|i| i.to_string()).collect();
        let mut code = canonical.iter().position(|c| c.as_bytes() == cv.as_bytes()).map(|i| i as u32).unwrap_or(2);
        let msg_ok = match t.get("grpc-message") {
            Some(m) => String::from_utf8(indep_pct(m.as_bytes())).is_ok(),
            None => true,
        };
        let det_ok = match t.get("grpc-status-details-bin") {
            Some(d) => indep_b64(d.as_bytes()).is_some(),
            None => true,
        };
        if !msg_ok || !det_ok {
            code = 2;
        }
        return if code == 0 { None } else { Some(code) };
    }
    match http {
        200 => None,
        400 => Some(13),
        401 => Some(16),
        403 => Some(7),
        404 => Some(12),
        429 | 502 | 503 | 504 => Some(14),
        _ => Some(2),
    }
}
fn case_infer(out: &mut Out, http: u16, trailers: Option<HeaderMap>) {
    let model = format!(
        "obs_infer_stream {} {}",
        coq_opt(&trailers, |t| coq_hm(t)),
        http
    );
    let evs: Vec<Ev<Status>> = trailers.clone().into_iter().map(Ev::Trailers).collect();
    let res = catch(std::panic::AssertUnwindSafe(|| {
        let (body, _) = ScriptBody::new(evs);
        let mut s = tonic::codec::Streaming::new_response(
            RawDecoder,
            body,
            http::StatusCode::from_u16(http).unwrap(),
            None,
            None,
        );
        spin(async { s.message().await }, 1000)
    }));
    let want = infer_expected(http, trailers.as_ref());
    let (obs, oracle) = match res {
        Err(p) => (Tr::L(vec![Tr::n(99u8)]), Some(format!("panic: {}", p))),
        Ok(Err(())) => (Tr::L(vec![Tr::n(98u8)]), Some("hang".to_string())),
        Ok(Ok(Ok(None))) => (
            Tr::L(vec![Tr::n(0u8)]),
            want.map(|w| format!("HTTP {} with these trailers ended cleanly, expected code {}", http, w)),
        ),
        Ok(Ok(Ok(Some(_)))) => (Tr::L(vec![Tr::n(97u8)]), Some("message from an empty body".into())),
        Ok(Ok(Err(st))) => {
            let got = st.code() as i32 as u32;
            let why = match want {
                None => Some(format!("HTTP {} with these trailers gave code {}, expected a clean end", http, got)),
                Some(w) if w != got => Some(format!("HTTP {} with these trailers classified as code {}, expected {}", http, got, w)),
                _ => None,
            };
            (Tr::L(vec![Tr::n(2u8), status_tr(&st)]), why)
        }
    };
    let has_status = trailers.as_ref().map(|t| t.contains_key("grpc-status"));
    out.hist("infer.http_class", format!("{}xx", http / 100));
    out.hist("infer.trailers", match has_status { None => "none", Some(true) => "with grpc-status", Some(false) => "without grpc-status" });
    out.push(Case {
        kind: match has_status {
            None => "infer.http".into(),
            Some(true) => "infer.trailers".into(),
            Some(false) => "infer.trailers_no_status".into(),
        },
        input: json!({"http": http, "trailers": trailers.as_ref().map(hm_json)}),
        model,
        impl_obs: obs,
        oracle,
        nontrivial: true,
    });
}

// ------------------------------------------------------------------ kind: tables
fn case_tables(out: &mut Out, thorough: bool) {
    // h2 reason -> code
    let reasons: Vec<u32> = (0..=40).chain([255, 256, 65535, 1 << 20, u32::MAX]).collect();
    for n in reasons {
        let st = Status::from(h2::Error::from(h2::Reason::from(n)));
        let want = match n {
            0 | 1 | 2 | 3 | 4 | 6 | 9 | 10 => Some(Code::Internal),
            7 => Some(Code::Unavailable),
            8 => Some(Code::Cancelled),
            11 => Some(Code::ResourceExhausted),
            12 => Some(Code::PermissionDenied),
            // STREAM_CLOSED ("no mapping" in the gRPC table) and HTTP_1_1_REQUIRED (not in it):
            // the property text does not decide, INTERNAL or UNKNOWN
            5 | 13 => None,
            _ => Some(Code::Unknown),
        };
        let oracle = match want {
            Some(w) if st.code() != w => Some(format!("h2 reason {} -> {:?}, expected {:?}", n, st.code(), w)),
            None if !(st.code() == Code::Internal || st.code() == Code::Unknown) => {
                Some(format!("h2 reason {} -> {:?}", n, st.code()))
            }
            _ => None,
        };
        out.push(Case {
            kind: "table.h2".into(),
            input: json!({"reason": n}),
            model: format!("Nn (code_from_h2 {})", n),
            impl_obs: Tr::n(st.code() as i32 as u32),
            oracle,
            nontrivial: true,
        });
    }
    for c in 0..17u32 {
        let e = h2::Error::from(Status::new(Code::from_i32(c as i32), "x"));
        let r: u32 = e.reason().map(|r| r.into()).unwrap_or(9999);
        out.push(Case {
            kind: "table.to_h2".into(),
            input: json!({"code": c}),
            model: format!("Nn (to_h2_error {})", c),
            impl_obs: Tr::n(r),
            oracle: None,
            nontrivial: true,
        });
    }
    // Code::from_i32
    let mut ints: Vec<i64> = (-3..=20).collect();
    ints.extend([i32::MIN as i64, i32::MAX as i64, 255, 256, -17, 1000]);
    for i in ints {
        let c = Code::from_i32(i as i32);
        let want = if (0..=16).contains(&i) { i as u32 } else { 2 };
        out.push(Case {
            kind: "table.from_i32".into(),
            input: json!({"i": i}),
            model: format!("Nn (code_from_i32 ({})%Z)", i),
            impl_obs: Tr::n(c as i32 as u32),
            oracle: if c as i32 as u32 != want { Some(format!("from_i32({}) = {:?}", i, c)) } else { None },
            nontrivial: true,
        });
    }
    // Code::from_bytes: all strings over a small alphabet up to length 3 (thorough) / 2
    let alpha: &[u8] = b"0123456789 -+a\xff";
    let maxlen = if thorough { 3 } else { 2 };
    let mut strs: Vec<Vec<u8>> = vec![vec![]];
    let mut frontier: Vec<Vec<u8>> = vec![vec![]];
    for _ in 0..maxlen {
        let mut next = vec![];
        for s in &frontier {
            for a in alpha {
                let mut t = s.clone();
                t.push(*a);
                next.push(t);
            }
        }
        strs.extend(next.iter().cloned());
        frontier = next;
    }
    for s in strs {
        let c = Code::from_bytes(&s);
        let canonical = std::str::from_utf8(&s)
            .ok()
            .and_then(|t| t.parse::<u32>().ok().filter(|n| *n <= 16 && n.to_string() == t));
        let want = canonical.unwrap_or(2);
        out.push(Case {
            kind: "table.from_bytes".into(),
            input: json!({"bytes": hex(&s)}),
            model: format!("Nn (code_from_bytes {})", coq_bytes(&s)),
            impl_obs: Tr::n(c as i32 as u32),
            oracle: if c as i32 as u32 != want { Some(format!("from_bytes({:?}) = {:?}", s, c)) } else { None },
            nontrivial: true,
        });
    }
}

// ------------------------------------------------------------------ kind: from_error (error chains)
#[derive(Debug)]
struct Wrap(Option<Box<dyn std::error::Error + Send + Sync>>);
impl std::fmt::Display for Wrap {
    fn fmt(&self, f: &mut std::fmt::Formatter<'_>) -> std::fmt::Result {
        write!(f, "wrapper")
    }
}
impl std::error::Error for Wrap {
    fn source(&self) -> Option<&(dyn std::error::Error + 'static)> {
        self.0.as_ref().map(|e| &**e as &(dyn std::error::Error + 'static))
    }
}
/// node encoding: (kind, arg): 0 Status(code) | 1 TimeoutExpired | 2 ConnectError | 3 h2 error with reason | 5 other wrapper
fn build_chain(nodes: &[(u8, u32)]) -> Option<Box<dyn std::error::Error + Send + Sync>> {
    let (first, rest) = nodes.split_first()?;
    let inner = build_chain(rest);
    Some(match first.0 {
        0 => Box::new(Status::new(Code::from_i32(first.1 as i32), "chain")),
        1 => Box::new(tonic::TimeoutExpired(())),
        2 => Box::new(tonic::ConnectError(inner.unwrap_or_else(|| Box::new(Wrap(None))))),
        3 => Box::new(h2::Error::from(h2::Reason::from(first.1))),
        _ => Box::new(Wrap(inner)),
    })
}
fn chain_coq(nodes: &[(u8, u32)]) -> String {
    coq_list(nodes, |n| match n.0 {
        0 => format!("EStatus {}", n.1),
        1 => "ETimeout".into(),
        2 => "EConnect".into(),
        3 => format!("EH2 (Some {})", n.1),
        _ => "EOther".into(),
    })
}
fn case_from_error(out: &mut Out, nodes: Vec<(u8, u32)>) {
    // Status, TimeoutExpired and h2::Error have no source: the chain ends at the first of them
    let end = nodes.iter().position(|n| matches!(n.0, 0 | 1 | 3)).map(|i| i + 1).unwrap_or(nodes.len());
    let nodes: Vec<(u8, u32)> = nodes[..end].to_vec();
    let model = format!("Nn (from_error_code {})", chain_coq(&nodes));
    let res = catch(std::panic::AssertUnwindSafe(|| {
        build_chain(&nodes).map(|e| Status::from_error(e).code() as i32 as u32)
    }));
    let (obs, mut oracle) = match res {
        Err(p) => (Tr::n(99u8), Some(format!("panic: {}", p))),
        Ok(None) => return,
        Ok(Some(c)) => (Tr::n(c), None),
    };
    // direct oracle for the simplest chains: a bare h2 error is classified by the gRPC table
    if let [(3, r)] = nodes[..] {
        let want = match r {
            0 | 1 | 2 | 3 | 4 | 6 | 9 | 10 => Some(13),
            7 => Some(14),
            8 => Some(1),
            11 => Some(8),
            12 => Some(7),
            5 | 13 => None,
            _ => Some(2),
        };
        if let (Some(w), Tr::N(c)) = (want, &obs) {
            if *c != w as u128 {
                oracle = Some(format!("from_error(h2 reason {}) = code {}, table says {}", r, c, w));
            }
        }
    }
    if let [(2, _), ..] = nodes[..] {
        if obs != Tr::n(14u8) {
            oracle = Some("a ConnectError was not classified UNAVAILABLE".into());
        }
    }
    out.push(Case {
        kind: "table.from_error".into(),
        input: json!({"chain": nodes}),
        model,
        impl_obs: obs,
        oracle,
        nontrivial: nodes.len() >= 2,
    });
}

// ------------------------------------------------------------------ kind: reset (a real RST_STREAM through hyper)
struct PipeConnector(std::sync::Arc<std::sync::Mutex<Option<tokio::io::DuplexStream>>>);
impl tower_service::Service<http::Uri> for PipeConnector {
    type Response = hyper_util::rt::TokioIo<tokio::io::DuplexStream>;
    type Error = std::io::Error;
    type Future = std::future::Ready<Result<Self::Response, Self::Error>>;
    fn poll_ready(&mut self, _: &mut std::task::Context<'_>) -> std::task::Poll<Result<(), Self::Error>> {
        std::task::Poll::Ready(Ok(()))
    }
    fn call(&mut self, _: http::Uri) -> Self::Future {
        std::future::ready(match self.0.lock().unwrap().take() {
            Some(io) => Ok(hyper_util::rt::TokioIo::new(io)),
            None => Err(std::io::Error::new(std::io::ErrorKind::Other, "no more pipes")),
        })
    }
}
#[derive(Default, Clone)]
struct RawEncoder;
impl tonic::codec::Encoder for RawEncoder {
    type Item = Vec<u8>;
    type Error = Status;
    fn encode(&mut self, item: Vec<u8>, dst: &mut tonic::codec::EncodeBuf<'_>) -> Result<(), Status> {
        use bytes::BufMut;
        dst.put_slice(&item);
        Ok(())
    }
}
#[derive(Default, Clone)]
struct RawCodec;
impl tonic::codec::Codec for RawCodec {
    type Encode = Vec<u8>;
    type Decode = Vec<u8>;
    type Encoder = RawEncoder;
    type Decoder = RawDecoder;
    fn encoder(&mut self) -> RawEncoder {
        RawEncoder
    }
    fn decoder(&mut self) -> RawDecoder {
        RawDecoder
    }
}
/// the peer answers the call's stream with RST_STREAM(reason), before (`late` = false) or after
/// the response headers; the client is the full tonic Channel stack
fn case_reset(out: &mut Out, reason: u32, late: bool) {
    let rt = tokio::runtime::Builder::new_current_thread().enable_all().build().unwrap();
    let res: Result<Result<u32, String>, String> = catch(std::panic::AssertUnwindSafe(|| {
        rt.block_on(async move {
            let (c, s) = tokio::io::duplex(1 << 16);
            tokio::spawn(async move {
                let mut conn = match h2::server::handshake(s).await {
                    Ok(c) => c,
                    Err(_) => return,
                };
                while let Some(Ok((_req, mut respond))) = conn.accept().await {
                    if late {
                        let resp = http::Response::builder()
                            .status(200)
                            .header("content-type", "application/grpc")
                            .body(())
                            .unwrap();
                        if let Ok(mut send) = respond.send_response(resp, false) {
                            send.send_reset(h2::Reason::from(reason));
                        }
                    } else {
                        respond.send_reset(h2::Reason::from(reason));
                    }
                }
            });
            let ep = tonic::transport::Endpoint::from_static("http://pipe.test");
            let ch = ep.connect_with_connector_lazy(PipeConnector(std::sync::Arc::new(std::sync::Mutex::new(Some(c)))));
            let mut g = tonic::client::Grpc::new(ch);
            let fut = async {
                g.ready().await.map_err(|e| format!("not ready: {}", e))?;
                let r = g
                    .unary::<Vec<u8>, Vec<u8>, _>(
                        tonic::Request::new(vec![1, 2, 3]),
                        http::uri::PathAndQuery::from_static("/p.S/M"),
                        RawCodec,
                    )
                    .await;
                match r {
                    Ok(_) => Err("call succeeded although the stream was reset".to_string()),
                    Err(st) => Ok(st.code() as i32 as u32),
                }
            };
            match tokio::time::timeout(std::time::Duration::from_secs(20), fut).await {
                Ok(r) => r,
                Err(_) => Err("hang".to_string()),
            }
        })
    }));
    let (obs, oracle) = match res {
        Err(p) => (Tr::n(99u8), Some(format!("panic: {}", p))),
        Ok(Err(e)) => (Tr::n(98u8), Some(e)),
        Ok(Ok(c)) => {
            let want = match reason {
                0 | 1 | 2 | 3 | 4 | 6 | 9 | 10 => Some(13),
                7 => Some(14),
                8 => Some(1),
                11 => Some(8),
                12 => Some(7),
                5 | 13 => None,
                _ => Some(2),
            };
            let why = match want {
                Some(w) if w != c => Some(format!("stream reset with HTTP/2 error {} seen as code {}, table says {}", reason, c, w)),
                None if c != 13 && c != 2 => Some(format!("stream reset with HTTP/2 error {} seen as code {}", reason, c)),
                _ => None,
            };
            (Tr::n(c), why)
        }
    };
    out.push(Case {
        kind: if late { "reset.after_headers".into() } else { "reset.before_headers".into() },
        input: json!({"reason": reason, "late": late}),
        model: format!("Nn (reset_stream_code {})", reason),
        impl_obs: obs,
        oracle,
        nontrivial: true,
    });
}

// ------------------------------------------------------------------ kinds with GENUINE hyper / transport errors
/// describe a real error chain (the error, then its sources) in the model's alphabet, by
/// downcasting every node the way a reader of the gRPC property would classify it
fn describe_chain(e: &(dyn std::error::Error + 'static)) -> (Vec<String>, Vec<serde_json::Value>) {
    let mut coq = vec![];
    let mut js = vec![];
    let mut cur = Some(e);
    while let Some(n) = cur {
        if let Some(st) = n.downcast_ref::<Status>() {
            coq.push(format!("EStatus {}", st.code() as i32));
            js.push(json!({"status": st.code() as i32}));
        } else if n.downcast_ref::<tonic::TimeoutExpired>().is_some() {
            coq.push("ETimeout".into());
            js.push(json!("timeout-expired"));
        } else if n.downcast_ref::<tonic::ConnectError>().is_some() {
            coq.push("EConnect".into());
            js.push(json!("connect-error"));
        } else if let Some(h) = n.downcast_ref::<h2::Error>() {
            let r: Option<u32> = h.reason().map(|r| r.into());
            coq.push(format!("EH2 {}", coq_opt(&r, |r| r.to_string())));
            js.push(json!({"h2": r}));
        } else if let Some(h) = n.downcast_ref::<hyper::Error>() {
            let src: Option<Option<u32>> = n.source().and_then(|s| s.downcast_ref::<h2::Error>()).map(|h| h.reason().map(|r| r.into()));
            coq.push(format!(
                "EHyper {} {} {}",
                coq_bool(h.is_timeout()),
                coq_bool(h.is_canceled()),
                coq_opt(&src, |o| format!("({})", coq_opt(o, |r| r.to_string())))
            ));
            js.push(json!({"hyper": {"timeout": h.is_timeout(), "canceled": h.is_canceled(), "h2_source": src}}));
        } else {
            coq.push("EOther".into());
            js.push(json!("other"));
        }
        cur = n.source();
    }
    (coq, js)
}
fn h2_want(r: u32) -> Option<u32> {
    match r {
        0 | 1 | 2 | 3 | 4 | 6 | 9 | 10 => Some(13),
        7 => Some(14),
        8 => Some(1),
        11 => Some(8),
        12 => Some(7),
        5 | 13 => None,
        _ => Some(2),
    }
}
struct NoBody;
impl http_body::Body for NoBody {
    type Data = Bytes;
    type Error = std::convert::Infallible;
    fn poll_frame(self: std::pin::Pin<&mut Self>, _: &mut std::task::Context<'_>) -> std::task::Poll<Option<Result<http_body::Frame<Bytes>, Self::Error>>> {
        std::task::Poll::Ready(None)
    }
    fn is_end_stream(&self) -> bool {
        true
    }
}
#[derive(Clone, Copy, Debug, PartialEq)]
enum HyperHow {
    /// the peer resets the stream before / after the response headers
    Reset(u32, bool),
    /// the connection task is dropped before the request is sent
    ConnDropped,
    /// the peer stops answering: hyper's HTTP/2 keep-alive PING times out
    KeepAlive,
}
/// a hyper::Error as hyper itself produces it, from a real HTTP/2 exchange over a duplex pipe
fn make_hyper_error(how: HyperHow) -> Option<hyper::Error> {
    let rt = tokio::runtime::Builder::new_current_thread().enable_all().build().unwrap();
    rt.block_on(async move {
        let (c, s) = tokio::io::duplex(1 << 16);
        let (reason, late) = match how {
            HyperHow::Reset(r, l) => (r, l),
            _ => (0, false),
        };
        tokio::spawn(async move {
            let mut conn = match h2::server::handshake(s).await {
                Ok(c) => c,
                Err(_) => return,
            };
            while let Some(Ok((_req, mut respond))) = conn.accept().await {
                if how == HyperHow::KeepAlive {
                    // hold the stream and stop driving the connection: PINGs stay unanswered
                    tokio::time::sleep(std::time::Duration::from_secs(30)).await;
                    drop(respond);
                    return;
                }
                if late {
                    let resp = http::Response::builder().status(200).body(()).unwrap();
                    if let Ok(mut send) = respond.send_response(resp, false) {
                        send.send_reset(h2::Reason::from(reason));
                    }
                } else {
                    respond.send_reset(h2::Reason::from(reason));
                }
            }
        });
        let mut builder = hyper::client::conn::http2::Builder::new(hyper_util::rt::TokioExecutor::new());
        if how == HyperHow::KeepAlive {
            builder
                .timer(hyper_util::rt::TokioTimer::new())
                .keep_alive_interval(std::time::Duration::from_millis(40))
                .keep_alive_timeout(std::time::Duration::from_millis(40))
                .keep_alive_while_idle(true);
        }
        let (mut send, conn) = builder.handshake::<_, NoBody>(hyper_util::rt::TokioIo::new(c)).await.ok()?;
        if how == HyperHow::ConnDropped {
            drop(conn);
        } else {
            tokio::spawn(conn);
        }
        let req = http::Request::builder().method("POST").uri("http://pipe.test/p.S/M").body(NoBody).unwrap();
        let fut = async {
            match send.send_request(req).await {
                Err(e) => Some(e),
                Ok(resp) => {
                    use http_body::Body;
                    let mut body = resp.into_body();
                    loop {
                        match std::future::poll_fn(|cx| std::pin::Pin::new(&mut body).poll_frame(cx)).await {
                            Some(Err(e)) => return Some(e),
                            Some(Ok(_)) => continue,
                            None => return None,
                        }
                    }
                }
            }
        };
        tokio::time::timeout(std::time::Duration::from_secs(20), fut).await.ok().flatten()
    })
}
/// Status::from_error on a chain that contains the genuine hyper error, under `wrap` wrappers
/// (kind 5 = unknown wrapper, 2 = ConnectError); the model input is the DESCRIPTION of the real
/// chain, not what the harness meant to build
fn case_from_error_hyper(out: &mut Out, how: HyperHow, wrap: &[u8]) {
    let e = match make_hyper_error(how) {
        Some(e) => e,
        None => {
            out.hist("from_error_hyper.not_produced", format!("{:?}", how));
            return;
        }
    };
    let mut err: Box<dyn std::error::Error + Send + Sync> = Box::new(e);
    for w in wrap.iter().rev() {
        err = match w {
            2 => Box::new(tonic::ConnectError(err)),
            _ => Box::new(Wrap(Some(err))),
        };
    }
    let (coq, js) = describe_chain(&*err);
    let hyper_pos = js.iter().position(|n| n.get("hyper").is_some());
    let model = format!("Nn (from_error_code [{}])", coq.join("; "));
    let res = catch(std::panic::AssertUnwindSafe(|| Status::from_error(err).code() as i32 as u32));
    let (obs, oracle) = match res {
        Err(p) => (Tr::n(99u8), Some(format!("panic: {}", p))),
        Ok(c) => {
            let mut why = None;
            if hyper_pos.is_none() {
                why = Some("harness: no hyper error in the chain".to_string());
            } else if wrap.contains(&2) {
                if c != 14 {
                    why = Some("a ConnectError was not classified UNAVAILABLE".into());
                }
            } else if let HyperHow::Reset(r, _) = how {
                // a reset stream is classified from the HTTP/2 error code
                let h = &js[hyper_pos.unwrap()]["hyper"];
                if h["timeout"] == json!(false) && h["canceled"] == json!(false) {
                    if h["h2_source"] != json!(r) {
                        why = Some(format!("hyper's error for RST_STREAM({}) does not carry that h2 reason: {}", r, h));
                    } else {
                        match h2_want(r) {
                            Some(w) if w != c => why = Some(format!("stream reset with HTTP/2 error {} classified as code {}, table says {}", r, c, w)),
                            None if c != 13 && c != 2 => why = Some(format!("stream reset with HTTP/2 error {} classified as code {}", r, c)),
                            _ => {}
                        }
                    }
                }
            }
            (Tr::n(c), why)
        }
    };
    out.hist("from_error_hyper.shape", coq.iter().map(|n| n.split(' ').next().unwrap_or("")).collect::<Vec<_>>().join(">"));
    out.push(Case {
        kind: "table.from_error_hyper".into(),
        input: json!({"how": format!("{:?}", how), "wrap": wrap, "chain": js}),
        model,
        impl_obs: obs,
        oracle,
        nontrivial: true,
    });
}
/// the error the tonic Channel (used as a tower Service) returns for a stream that the peer
/// resets before the response headers: its real source chain is described, must have the shape
/// "unknown wrappers, then hyper's error with the h2 reason as its source" (the premise of
/// c04_reset_stream_wrapped), and Status::from_error of it must follow the table
fn case_reset_chain(out: &mut Out, reason: u32) {
    let rt = tokio::runtime::Builder::new_current_thread().enable_all().build().unwrap();
    let res: Result<Result<tonic::transport::Error, String>, String> = catch(std::panic::AssertUnwindSafe(|| {
        rt.block_on(async move {
            let (c, s) = tokio::io::duplex(1 << 16);
            tokio::spawn(async move {
                let mut conn = match h2::server::handshake(s).await {
                    Ok(c) => c,
                    Err(_) => return,
                };
                while let Some(Ok((_req, mut respond))) = conn.accept().await {
                    respond.send_reset(h2::Reason::from(reason));
                }
            });
            let ep = tonic::transport::Endpoint::from_static("http://pipe.test");
            let mut ch = ep.connect_with_connector_lazy(PipeConnector(std::sync::Arc::new(std::sync::Mutex::new(Some(c)))));
            let fut = async {
                use tower_service::Service;
                std::future::poll_fn(|cx| ch.poll_ready(cx)).await.map_err(|e| format!("not ready: {}", e))?;
                let req = http::Request::builder()
                    .method("POST")
                    .uri("http://pipe.test/p.S/M")
                    .header("content-type", "application/grpc")
                    .header("te", "trailers")
                    .body(tonic::body::Body::default())
                    .unwrap();
                match ch.call(req).await {
                    Ok(_) => Err("the channel answered although the stream was reset".to_string()),
                    Err(e) => Ok(e),
                }
            };
            match tokio::time::timeout(std::time::Duration::from_secs(20), fut).await {
                Ok(r) => r,
                Err(_) => Err("hang".to_string()),
            }
        })
    }));
    let (model, obs, oracle, js) = match res {
        Err(p) => ("Nn 0".to_string(), Tr::n(99u8), Some(format!("panic: {}", p)), vec![]),
        Ok(Err(e)) => ("Nn 0".to_string(), Tr::n(98u8), Some(e), vec![]),
        Ok(Ok(e)) => {
            let (coq, js) = describe_chain(&e);
            let hp = js.iter().position(|n| n.get("hyper").is_some());
            let mut why = None;
            match hp {
                None => why = Some(format!("no hyper error in the chain of a reset stream: {:?}", js)),
                Some(i) => {
                    let h = &js[i]["hyper"];
                    if js[..i].iter().any(|n| n != &json!("other")) {
                        why = Some(format!("a recognised node above hyper's error in the chain of a reset stream: {:?}", js));
                    } else if h["timeout"] != json!(false) || h["canceled"] != json!(false) || h["h2_source"] != json!(reason) {
                        why = Some(format!("hyper's error for RST_STREAM({}) is {}", reason, h));
                    }
                }
            }
            let c = Status::from_error(Box::new(e)).code() as i32 as u32;
            if why.is_none() {
                match h2_want(reason) {
                    Some(w) if w != c => why = Some(format!("stream reset with HTTP/2 error {} seen as code {}, table says {}", reason, c, w)),
                    None if c != 13 && c != 2 => why = Some(format!("stream reset with HTTP/2 error {} seen as code {}", reason, c)),
                    _ => {}
                }
            }
            out.hist("reset.chain.shape", coq.iter().map(|n| n.split(' ').next().unwrap_or("")).collect::<Vec<_>>().join(">"));
            (format!("Nn (from_error_code [{}])", coq.join("; ")), Tr::n(c), why, js)
        }
    };
    out.push(Case {
        kind: "reset.chain".into(),
        input: json!({"reason": reason, "chain": js}),
        model,
        impl_obs: obs,
        oracle,
        nontrivial: true,
    });
}

fn gen_pre(r: &mut Rng) -> HeaderMap {
    let names = ["content-type", "x-a", "x-pre", "date", "grpc-status", "x-trace-id", "grpc-encoding", "te"];
    let mut m = HeaderMap::new();
    for _ in 0..r.range(1, 4) {
        let mut k = *r.pick(&names);
        if r.chance(1, 10) {
            k = *r.pick(&["grpc-message", "grpc-status-details-bin"]);
        }
        if let Ok(v) = HeaderValue::from_str(&gen_ascii_value(r)) {
            m.append(HeaderName::from_static(k), v);
        }
    }
    m
}
fn md_from_json(v: &serde_json::Value) -> MetadataMap {
    let mut md = MetadataMap::new();
    for (k, val) in hm_from_json(v).iter() {
        md.as_mut().append(k.clone(), val.clone());
    }
    md
}

fn main() {
    let a = args();
    let mut out = Out::new(&a.out);
    let mut r = Rng::new(a.seed);

    if let Some(f) = &a.replay {
        // re-run exactly one stored case (the `input` of a replay file) on the implementation
        let v: serde_json::Value = serde_json::from_str(&std::fs::read_to_string(f).unwrap()).unwrap();
        let c = if v.get("first_disagreement").is_some() { &v["first_disagreement"] } else { &v };
        let (kind, inp) = (c["kind"].as_str().unwrap_or(""), &c["input"]);
        let kind = kind.strip_prefix("corpus.").unwrap_or(kind);
        let kind = kind.strip_prefix("F-C04e.").unwrap_or(kind);
        let sink = if kind.starts_with("roundtrip") {
            Some(Sink::Fresh)
        } else if kind.starts_with("trailers") || kind.starts_with("capacity.trailers") {
            Some(Sink::Trailers)
        } else if kind.starts_with("into_http") || kind.starts_with("capacity.into_http") {
            Some(Sink::IntoHttp)
        } else if kind.starts_with("add_header.into") || kind.starts_with("capacity.add_header") {
            Some(Sink::Into)
        } else {
            None
        };
        if kind.starts_with("capacity") {
            case_capacity(
                &mut out,
                sink.unwrap(),
                inp["names"].as_u64().unwrap() as usize,
                inp["dups"].as_u64().unwrap() as usize,
                &String::from_utf8(unhex(inp["msg"].as_str().unwrap())).unwrap(),
                &unhex(inp["details"].as_str().unwrap()),
                hm_from_json(&inp["pre"]),
                None,
            );
        } else if let Some(sink) = sink {
            case_written(
                &mut out,
                sink,
                inp["code"].as_u64().unwrap() as u32,
                &String::from_utf8(unhex(inp["msg"].as_str().unwrap())).unwrap(),
                &unhex(inp["details"].as_str().unwrap()),
                md_from_json(&inp["md"]),
                if inp["pre"].is_array() { hm_from_json(&inp["pre"]) } else { HeaderMap::new() },
                false,
            );
        } else if kind.ends_with("hostile") {
            let e = hm_from_json(&inp["headers"])
                .iter()
                .map(|(k, v)| (k.as_str().to_string(), v.as_bytes().to_vec()))
                .collect();
            case_hostile(&mut out, e, false);
        } else if kind.starts_with("infer") {
            let t = if inp["trailers"].is_null() { None } else { Some(hm_from_json(&inp["trailers"])) };
            case_infer(&mut out, inp["http"].as_u64().unwrap() as u16, t);
        } else if kind.starts_with("reset.chain") {
            case_reset_chain(&mut out, inp["reason"].as_u64().unwrap() as u32);
        } else if kind.starts_with("reset") {
            case_reset(&mut out, inp["reason"].as_u64().unwrap() as u32, inp["late"].as_bool().unwrap_or(false));
        } else if kind == "table.from_error" {
            let nodes: Vec<(u8, u32)> = inp["chain"].as_array().unwrap().iter().map(|n| (n[0].as_u64().unwrap() as u8, n[1].as_u64().unwrap() as u32)).collect();
            case_from_error(&mut out, nodes);
        } else {
            case_tables(&mut out, true);
        }
        out.finish(IMPORTS, "replay of one stored case", json!({}));
        return;
    }

    // corpus: witnesses of the fixed findings and hand-picked boundary cases, always first
    for d in DET_VALUES {
        case_hostile(&mut out, vec![("grpc-status".into(), b"3".to_vec()), ("grpc-status-details-bin".into(), d.to_vec())], true);
    }
    for m in MSG_VALUES {
        case_hostile(&mut out, vec![("grpc-status".into(), b"5".to_vec()), ("grpc-message".into(), m.to_vec())], true);
    }
    for c in CODE_VALUES {
        case_hostile(&mut out, vec![("grpc-status".into(), c.to_vec())], true);
    }
    case_roundtrip(&mut out, 5, "a:b c%\u{7f}é", b"\x00\x01\x02\x03", MetadataMap::new(), true);
    for c in 0..17 {
        case_roundtrip(&mut out, c, "", b"", MetadataMap::new(), true);
        case_written(&mut out, Sink::Trailers, c, "", b"", MetadataMap::new(), HeaderMap::new(), true);
        case_written(&mut out, Sink::IntoHttp, c, "m", b"", MetadataMap::new(), HeaderMap::new(), true);
    }
    // a status whose metadata carries every reserved name: none may reach the wire or come back
    {
        let mut md = MetadataMap::new();
        for k in SANITIZED {
            md.append(MetadataKey::from_bytes(k.as_bytes()).unwrap(), MetadataValue::from_static("forged"));
        }
        md.append(MetadataKey::from_static("x-keep"), MetadataValue::from_static("1"));
        for sink in [Sink::Fresh, Sink::Trailers, Sink::IntoHttp] {
            case_written(&mut out, sink, 7, "denied", b"\x01", md.clone(), HeaderMap::new(), true);
        }
        let mut pre = HeaderMap::new();
        pre.insert("content-type", HeaderValue::from_static("application/grpc"));
        pre.insert("grpc-status", HeaderValue::from_static("0"));
        pre.insert("x-keep", HeaderValue::from_static("old"));
        pre.insert("x-pre", HeaderValue::from_static("stays"));
        case_written(&mut out, Sink::Into, 7, "denied", b"\x01", md, pre, true);
    }
    // F-C04e (fixed ed827503): a status whose custom metadata holds an entry named
    // grpc-status-details-bin (not a reserved name: it survives sanitising).  With EMPTY details the
    // entry used to stay in the written map and was read back as the details of the status.  Every
    // code x {no message, message} x {no details, details} x the entry with 1-2 values (ASCII-looking
    // text that is valid base64, text that is not, binary through the typed API) x every way a
    // status is written (add_header into a fresh map, to_header_map = the trailers of a server
    // stream, into_http) and read back with from_header_map; plus add_header into a target map that
    // already holds such a header.  The oracle is strict: no details header for empty details, the
    // details read back are the status's own.
    {
        fn det_md(values: &[&[u8]], raw_text: bool) -> MetadataMap {
            let mut md = MetadataMap::new();
            md.append(MetadataKey::from_static("x-keep"), MetadataValue::from_static("1"));
            for v in values {
                if raw_text {
                    // as a peer or a careless caller would file it: the header text itself
                    md.as_mut().append(HeaderName::from_static("grpc-status-details-bin"), HeaderValue::from_bytes(v).unwrap());
                } else {
                    md.append_bin(MetadataKey::from_bytes(b"grpc-status-details-bin").unwrap(), MetadataValue::from_bytes(v));
                }
            }
            md
        }
        let entries: Vec<(Vec<&[u8]>, bool)> = vec![
            (vec![&b"user"[..]], true),                       // valid unpadded base64 of [0xba, 0xab, 0x2b]: the witness
            (vec![&b"AQ"[..]], true),                         // base64 of [1]
            (vec![&b"not base64!"[..]], true),                // undecodable: used to degrade the status to UNKNOWN
            (vec![&b"QUJD"[..], &b"REVG"[..]], true),         // two values: the first one used to be read
            (vec![&b"\x00\xff\x07"[..]], false),              // binary through the typed API (stored as base64)
            (vec![&b""[..], &b"\x80\x81"[..]], false),         // an empty binary value first
        ];
        for code in 0..17u32 {
            for msg in ["", "no"] {
                for det in [&b""[..], &b"\x01\x02"[..]] {
                    // every code on the witness entry; the other entries on three codes (OK, a common one, the last)
                    for (i, (vals, raw)) in entries.iter().enumerate() {
                        if i > 0 && ![0u32, 7, 16].contains(&code) {
                            continue;
                        }
                        for sink in [Sink::Fresh, Sink::Trailers, Sink::IntoHttp] {
                            case_written_tag(&mut out, sink, code, msg, det, det_md(vals, *raw), HeaderMap::new(), Some("F-C04e"));
                        }
                    }
                }
            }
        }
        // the same header stale in the TARGET map of add_header (with and without an entry in the
        // metadata as well): removed / replaced likewise
        for (code, msg, det) in [(7u32, "no", &b""[..]), (7, "", b""), (3, "m", b"\x01"), (0, "", b"")] {
            for md_too in [false, true] {
                let mut pre = HeaderMap::new();
                pre.insert("x-pre", HeaderValue::from_static("stays"));
                pre.append("grpc-status-details-bin", HeaderValue::from_static("c3RhbGU"));
                pre.append("grpc-status-details-bin", HeaderValue::from_static("!!"));
                let md = if md_too { det_md(&[&b"user"[..]], true) } else { MetadataMap::new() };
                case_written_tag(&mut out, Sink::Into, code, msg, det, md, pre, Some("F-C04e"));
            }
        }
    }
    // F-C04d (fixed 08dc8d0b): many VALUES under one name through the trailers of a server stream
    for (names, dups, msg) in [(0usize, 24574usize, "m"), (0, 24574, ""), (0, 24573, "m"), (0, 30000, "m"), (24574, 0, ""), (1, 24573, "")] {
        case_capacity(&mut out, Sink::Trailers, names, dups, msg, b"", HeaderMap::new(), Some("F-C04d"));
    }
    // the capacity of http::HeaderMap (24576 names): every sink, on both sides of the boundary
    for (sink, names, msg, det) in [
        (Sink::Trailers, 24573usize, "m", &b"d"[..]),
        (Sink::Trailers, 24574, "", b""),
        (Sink::Trailers, 24574, "m", b""),
        (Sink::Trailers, 24574, "m", b"d"),
        (Sink::Trailers, 24575, "", b""),
        (Sink::Trailers, 24575, "m", b""),
        (Sink::Trailers, 24576, "", b""),
        (Sink::Fresh, 24572, "m", b"d"),
        (Sink::Fresh, 24574, "m", b""),
        (Sink::Fresh, 24574, "m", b"d"),
        (Sink::Fresh, 24575, "", b""),
        (Sink::Fresh, 24575, "m", b""),
        (Sink::Fresh, 24576, "", b""),
        (Sink::IntoHttp, 24573, "m", b""),
        (Sink::IntoHttp, 24573, "m", b"d"),
        (Sink::IntoHttp, 24574, "", b""),
        (Sink::IntoHttp, 24574, "m", b""),
        (Sink::IntoHttp, 24575, "", b""),
    ] {
        case_capacity(&mut out, sink, names, 0, msg, det, HeaderMap::new(), None);
    }
    for (names, pre_name) in [(24575usize, "grpc-status"), (24574, "grpc-status"), (24575, "zz"), (24574, "zz"), (24576, "k00000"), (24575, "k00000")] {
        let mut pre = HeaderMap::new();
        pre.insert(HeaderName::from_static(pre_name), HeaderValue::from_static("9"));
        case_capacity(&mut out, Sink::Into, names, 0, "", b"", pre, None);
    }
    case_capacity(&mut out, Sink::Fresh, 24570, 40000, "m", b"d", HeaderMap::new(), None);

    case_tables(&mut out, a.thorough);
    for r in (0..=16u32).chain([255, 65536]) {
        case_reset(&mut out, r, false);
        case_reset(&mut out, r, true);
        case_reset_chain(&mut out, r);
    }
    // genuine hyper errors inside error chains
    for r in (0..=14u32).chain([255]) {
        for late in [false, true] {
            case_from_error_hyper(&mut out, HyperHow::Reset(r, late), &[]);
        }
        case_from_error_hyper(&mut out, HyperHow::Reset(r, false), &[5]);
        case_from_error_hyper(&mut out, HyperHow::Reset(r, true), &[5, 5, 5]);
    }
    for wrap in [&[][..], &[5][..], &[5, 5][..], &[2][..], &[5, 2][..]] {
        case_from_error_hyper(&mut out, HyperHow::KeepAlive, wrap);
        case_from_error_hyper(&mut out, HyperHow::ConnDropped, wrap);
        case_from_error_hyper(&mut out, HyperHow::Reset(7, false), wrap);
    }
    // error chains: every single node, every pair, random longer chains
    let node_pool: Vec<(u8, u32)> = (0..17u32).map(|c| (0u8, c)).chain([(1, 0), (2, 0), (5, 0)]).chain((0..=14u32).map(|r| (3u8, r))).chain([(3u8, 255u32)]).collect();
    for a1 in &node_pool {
        case_from_error(&mut out, vec![*a1]);
        for a2 in [(5u8, 0u32), (0, 5), (1, 0), (2, 0), (3, 8)] {
            case_from_error(&mut out, vec![a2, *a1]);
        }
    }
    for _ in 0..(if a.thorough { 2000 } else { 300 }) {
        let n = r.range(2, 5) as usize;
        let ch: Vec<(u8, u32)> = (0..n).map(|_| *r.pick(&node_pool)).collect();
        case_from_error(&mut out, ch);
    }
    for h in 100..=599u16 {
        case_infer(&mut out, h, None);
    }

    let (n_rt, n_host, n_inf, n_sink) = if a.thorough { (2500, 5000, 2000, 800) } else { (800, 1000, 600, 250) };
    for _ in 0..n_rt {
        let code = r.below(17) as u32;
        let msg = gen_message(&mut r);
        let det = gen_details(&mut r);
        let md = gen_metadata(&mut r, true);
        case_roundtrip(&mut out, code, &msg, &det, md, false);
    }
    for sink in [Sink::Trailers, Sink::IntoHttp, Sink::Into] {
        for _ in 0..n_sink {
            let code = r.below(17) as u32;
            let msg = gen_message(&mut r);
            let det = gen_details(&mut r);
            let md = gen_metadata(&mut r, true);
            let pre = if sink == Sink::Into { gen_pre(&mut r) } else { HeaderMap::new() };
            case_written(&mut out, sink, code, &msg, &det, md, pre, false);
        }
    }
    let extra_keys = ["x-a", "x-b-bin", "te", "content-type", "grpc-encoding"];
    for _ in 0..n_host {
        let mut e: Vec<(String, Vec<u8>)> = vec![];
        if r.chance(9, 10) {
            e.push(("grpc-status".into(), gen_value(&mut r, CODE_VALUES, b"0123456789 -x")));
        }
        if r.chance(1, 8) {
            e.push(("grpc-status".into(), gen_value(&mut r, CODE_VALUES, b"0123456789")));
        }
        if r.chance(2, 3) {
            if r.chance(1, 4) {
                e.push(("grpc-message".into(), gen_long_value(&mut r, b'a', &[b"", b"%ff", b"%", b"%zz", b"%c3", b"%41"])));
            } else {
                e.push(("grpc-message".into(), gen_value(&mut r, MSG_VALUES, b"%0123456789abcdefABCDEFgG z\xc3\xa9\xff")));
            }
        }
        if r.chance(2, 3) {
            if r.chance(1, 4) {
                e.push(("grpc-status-details-bin".into(), gen_long_value(&mut r, b'A', &[b"", b"!", b"=", b"A", b"=="])));
            } else {
                e.push(("grpc-status-details-bin".into(), gen_value(&mut r, DET_VALUES, b"ABCDQRZabcz019+/= !")));
            }
        }
        for _ in 0..r.below(3) {
            e.push((r.pick(&extra_keys).to_string(), gen_ascii_value(&mut r).into_bytes()));
        }
        // shuffle
        for i in (1..e.len()).rev() {
            let j = r.below(i as u64 + 1) as usize;
            e.swap(i, j);
        }
        case_hostile(&mut out, e, false);
    }
    // status inference: any HTTP status 100..=599 (half uniformly, half from the table's own
    // entries and their neighbours) x trailers with / without a grpc-status
    let https = [200u16, 200, 200, 400, 401, 403, 404, 429, 500, 502, 503, 504, 302, 100, 204, 399, 402, 405, 428, 430, 501, 505, 599];
    for _ in 0..n_inf {
        let mut t = HeaderMap::new();
        if r.chance(2, 3) {
            t.append("grpc-status", HeaderValue::from_bytes(&gen_value(&mut r, CODE_VALUES, b"0123456789")).unwrap());
            if r.chance(1, 10) {
                t.append("grpc-status", HeaderValue::from_bytes(&gen_value(&mut r, CODE_VALUES, b"0123456789")).unwrap());
            }
        }
        if r.chance(1, 2) {
            if let Ok(v) = HeaderValue::from_bytes(&gen_value(&mut r, MSG_VALUES, b"%0123456789abcdef z")) {
                t.append("grpc-message", v);
            }
        }
        if r.chance(1, 3) {
            if let Ok(v) = HeaderValue::from_bytes(&gen_value(&mut r, DET_VALUES, b"ABCDQRZabcz019+/=")) {
                t.append("grpc-status-details-bin", v);
            }
        }
        if r.chance(1, 3) {
            t.append("x-a", HeaderValue::from_static("v"));
        }
        let http = if r.chance(1, 2) { r.range(100, 599) as u16 } else { *r.pick(&https) };
        case_infer(&mut out, http, Some(t));
    }

    out.finish(
        IMPORTS,
        "roundtrip / trailers / into_http / add_header.into: random statuses (17 codes x messages over a hostile alphabet x details of every length mod 3 x metadata of 0..60 entries incl. reserved names and repeated values) written by Status::add_header into a fresh map, by Status::to_header_map through EncodeBody::new_server, by Status::into_http, by add_header into a random existing map, and read back; non-trivial = any of message/details/metadata non-empty; capacity.*: metadata of 24572..24576 distinct names / up to 40000 values of one name around the capacity of http::HeaderMap; hostile: arbitrary status header maps (malformed codes, percent escapes, base64), non-trivial = >= 2 headers; infer: every HTTP status 100..599 without trailers plus random trailers (with and without grpc-status) x any HTTP status; tables: h2 reasons, Code::from_i32/from_bytes/to_h2; from_error: synthetic chains and chains around genuine hyper errors; reset.*: a real RST_STREAM through the Channel. Distinct = distinct (kind, model expression).",
        json!({}),
    );
}
