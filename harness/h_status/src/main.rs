//! C04 correspondence harness: Status <-> headers, Code tables, status inference.
use bytes::Bytes;
use http::{HeaderMap, HeaderName, HeaderValue};
use serde_json::json;
use tonic::metadata::{MetadataKey, MetadataMap, MetadataValue};
use tonic::{Code, Status};
use vcommon::body::{spin, Ev, ScriptBody};
use vcommon::*;

const IMPORTS: &str = "From Verif Require Import Lib.Bytes Lib.Obs Lib.HeaderMap Model.Status.";

const MSG_PREFIX: &str = "Error deserializing status message header: ";
const DET_PREFIX: &str = "Error deserializing status details header: ";
const HTTP_PREFIX: &str = "grpc-status header missing, mapped from HTTP status code ";

fn canon_msg(m: &str) -> Vec<u8> {
    for p in [MSG_PREFIX, DET_PREFIX, HTTP_PREFIX] {
        if m.starts_with(p) {
            return p.as_bytes().to_vec();
        }
    }
    m.as_bytes().to_vec()
}
fn status_tr(st: &Status) -> Tr {
    Tr::L(vec![
        Tr::n(st.code() as i32 as u32),
        Tr::B(canon_msg(st.message())),
        Tr::b(st.details()),
        hm_tr(&st.metadata().clone().into_headers()),
    ])
}
fn status_coq(code: u32, msg: &[u8], details: &[u8], md: &HeaderMap) -> String {
    format!(
        "(mkStatus {} {} {} {})",
        code,
        coq_bytes(msg),
        coq_bytes(details),
        coq_hm(md)
    )
}

// ------------------------------------------------------------------ generators
fn gen_message(r: &mut Rng) -> String {
    let pieces: &[&str] = &[
        "a", "Z", "0", " ", "%", "\"", "#", "<", ">", "?", "{", "}", "`", "\u{7f}", "\u{0}", "\n", "\t",
        "\u{1f}", "é", "ß", "€", "語", "😀", "\u{10FFFF}", "%41", "%zz", "+", "/", "=", ":", "~", "|",
    ];
    let n = match r.below(10) {
        0 => 0,
        1..=6 => r.range(1, 8),
        7 | 8 => r.range(9, 30),
        _ => r.range(100, 300),
    };
    (0..n).map(|_| *r.pick(pieces)).collect()
}
fn gen_details(r: &mut Rng) -> Vec<u8> {
    let n = match r.below(10) {
        0 | 1 => 0,
        2..=7 => r.range(1, 9),
        8 => r.range(10, 40),
        _ => r.range(90, 200),
    } as usize;
    r.bytes(n)
}
const KEYS: &[&str] = &[
    "x-a", "x-b", "x-trace-id", "authorization", "x-payload-bin", "x-other-bin", "te", "user-agent",
    "content-type", "grpc-message", "grpc-message-type", "grpc-status", "grpc-timeout",
    "grpc-encoding", "grpc-accept-encoding",
];
fn gen_ascii_value(r: &mut Rng) -> String {
    let n = r.range(0, 12) as usize;
    (0..n).map(|_| r.range(0x20, 0x7e) as u8 as char).collect()
}
fn gen_metadata(r: &mut Rng, allow_details_key: bool) -> MetadataMap {
    let mut m = MetadataMap::new();
    let n = match r.below(6) {
        0 => 0,
        1..=3 => r.range(1, 3),
        _ => r.range(4, 7),
    };
    for _ in 0..n {
        let mut k = *r.pick(KEYS);
        if allow_details_key && r.chance(1, 25) {
            k = "grpc-status-details-bin";
        }
        if k.ends_with("-bin") {
            let len = r.range(0, 7) as usize;
            let v = MetadataValue::from_bytes(&r.bytes(len));
            m.append_bin(MetadataKey::from_bytes(k.as_bytes()).unwrap(), v);
        } else {
            let v: MetadataValue<_> = match gen_ascii_value(r).parse() {
                Ok(v) => v,
                Err(_) => continue,
            };
            m.append(MetadataKey::from_bytes(k.as_bytes()).unwrap(), v);
        }
    }
    m
}

fn is_status_key(k: &str) -> bool {
    matches!(
        k,
        "te" | "user-agent" | "content-type" | "grpc-message" | "grpc-message-type" | "grpc-status"
            | "grpc-status-details-bin"
    )
}

// ------------------------------------------------------------------ kind: roundtrip
fn case_roundtrip(out: &mut Out, code: u32, msg: &str, details: &[u8], md: MetadataMap, corpus: bool) {
    let mdh = md.clone().into_headers();
    let st = Status::with_details_and_metadata(
        Code::from_i32(code as i32),
        msg.to_string(),
        Bytes::copy_from_slice(details),
        md,
    );
    let model = format!("obs_roundtrip {}", status_coq(code, msg.as_bytes(), details, &mdh));
    let mut oracle = None;
    let res = catch(std::panic::AssertUnwindSafe(|| {
        let mut hm = HeaderMap::new();
        match st.add_header(&mut hm) {
            Err(_) => (Tr::L(vec![Tr::n(0u8)]), Some("add_header returned Err (illegal header value)".to_string())),
            Ok(()) => {
                let back = Status::from_header_map(&hm);
                let mut why = None;
                match &back {
                    None => why = Some("status not found in the headers it was written to".to_string()),
                    Some(b) => {
                        let has_details_key = mdh.contains_key("grpc-status-details-bin");
                        if b.code() as i32 as u32 != code {
                            why = Some(format!("code {} read back as {}", code, b.code() as i32));
                        } else if b.message() != msg {
                            why = Some("message changed".to_string());
                        } else if !has_details_key && b.details() != details {
                            why = Some("details changed".to_string());
                        } else {
                            let bm = b.metadata().clone().into_headers();
                            for k in mdh.keys() {
                                if is_status_key(k.as_str()) {
                                    continue;
                                }
                                let a: Vec<_> = mdh.get_all(k).iter().collect();
                                let c: Vec<_> = bm.get_all(k).iter().collect();
                                if a != c {
                                    why = Some(format!("metadata {} changed", k));
                                }
                            }
                            for k in bm.keys() {
                                if !mdh.contains_key(k) {
                                    why = Some(format!("metadata {} appeared", k));
                                }
                            }
                        }
                        if hm.get_all("grpc-status").iter().count() != 1 {
                            why = Some("not exactly one grpc-status".to_string());
                        }
                    }
                }
                (
                    Tr::L(vec![Tr::n(1u8), hm_tr(&hm), Tr::opt(back.as_ref().map(status_tr))]),
                    why,
                )
            }
        }
    }));
    let obs = match res {
        Ok((t, why)) => {
            oracle = why;
            t
        }
        Err(p) => {
            oracle = Some(format!("panic: {}", p));
            Tr::L(vec![Tr::n(99u8)])
        }
    };
    out.hist("roundtrip.msg_len", bucket(msg.len()));
    out.hist("roundtrip.details_len_mod3", details.len() % 3);
    out.hist("roundtrip.md_entries", mdh.len());
    out.push(Case {
        kind: if corpus { "corpus.roundtrip".into() } else { "roundtrip".into() },
        input: json!({"code": code, "msg": hex(msg.as_bytes()), "details": hex(details), "md": hm_json(&mdh)}),
        model,
        impl_obs: obs,
        oracle,
        nontrivial: !msg.is_empty() || !details.is_empty() || !mdh.is_empty(),
    });
}
fn bucket(n: usize) -> String {
    match n {
        0 => "0".into(),
        1..=8 => "1-8".into(),
        9..=64 => "9-64".into(),
        _ => ">64".into(),
    }
}

// ---- independent re-implementations used only by the oracle (written from the specifications of
// the base64 Indifferent-padding decoder and of percent-decoding, not from tonic's code path)
fn b64_val(c: u8) -> Option<u32> {
    match c {
        b'A'..=b'Z' => Some((c - b'A') as u32),
        b'a'..=b'z' => Some((c - b'a') as u32 + 26),
        b'0'..=b'9' => Some((c - b'0') as u32 + 52),
        b'+' => Some(62),
        b'/' => Some(63),
        _ => None,
    }
}
fn indep_b64(v: &[u8]) -> Option<Vec<u8>> {
    // padding may only close the last group of at most four bytes, after >= 2 symbols
    let n = v.len();
    let last = if n == 0 { 0 } else if n % 4 == 0 { 4 } else { n % 4 };
    let (head, tail) = v.split_at(n - last);
    let mut out = vec![];
    for q in head.chunks(4) {
        let x: Option<Vec<u32>> = q.iter().map(|c| b64_val(*c)).collect();
        let x = x?;
        let w = (x[0] << 18) | (x[1] << 12) | (x[2] << 6) | x[3];
        out.extend_from_slice(&[(w >> 16) as u8, (w >> 8) as u8, w as u8]);
    }
    let syms: Vec<u8> = tail.iter().cloned().take_while(|c| *c != b'=').collect();
    if tail[syms.len()..].iter().any(|c| *c != b'=') {
        return None;
    }
    if tail.len() > syms.len() && syms.len() < 2 {
        return None;
    }
    let x: Option<Vec<u32>> = syms.iter().map(|c| b64_val(*c)).collect();
    let x = x?;
    match x.len() {
        0 => {
            if !tail.is_empty() {
                return None;
            }
        }
        1 => return None,
        2 => {
            if x[1] & 0xf != 0 {
                return None;
            }
            out.push(((x[0] << 2) | (x[1] >> 4)) as u8);
        }
        3 => {
            if x[2] & 0x3 != 0 {
                return None;
            }
            out.push(((x[0] << 2) | (x[1] >> 4)) as u8);
            out.push((((x[1] & 0xf) << 4) | (x[2] >> 2)) as u8);
        }
        _ => {
            let w = (x[0] << 18) | (x[1] << 12) | (x[2] << 6) | x[3];
            out.extend_from_slice(&[(w >> 16) as u8, (w >> 8) as u8, w as u8]);
        }
    }
    Some(out)
}
fn indep_pct(v: &[u8]) -> Vec<u8> {
    fn hv(c: u8) -> Option<u8> {
        (c as char).to_digit(16).map(|d| d as u8)
    }
    let mut out = vec![];
    let mut i = 0;
    while i < v.len() {
        if v[i] == b'%' && i + 2 < v.len() + 0 && i + 2 <= v.len() - 1 {
            if let (Some(a), Some(b)) = (hv(v[i + 1]), hv(v[i + 2])) {
                out.push(a * 16 + b);
                i += 3;
                continue;
            }
        }
        out.push(v[i]);
        i += 1;
    }
    out
}

// ------------------------------------------------------------------ kind: hostile
const CODE_VALUES: &[&[u8]] = &[
    b"0", b"1", b"2", b"9", b"10", b"16", b"17", b"", b"007", b"00", b"-1", b"+1", b" 1", b"1 ", b"2x",
    b"16 ", b"99", b"100", b"\xff", b"\xc3\xa9", b"1\t", b"0x1", b"15", b"3", b"12", b"13",
];
const MSG_VALUES: &[&[u8]] = &[
    b"", b"ok", b"a%20b", b"%", b"%4", b"%G1", b"%ff", b"%C3%A9", b"%C3%28", b"%E2%82%AC", b"%e2%82%ac",
    b"%F0%9F%98%80", b"%ED%A0%80", b"%F4%90%80%80", b"%C0%AF", b"a%", b"%%", b"%25", b"%2", b"\xe9",
    b"\xc3\xa9", b"\xff\xfe", b"100%", b"%41%42%43", b"\t", b"a b",
];
const DET_VALUES: &[&[u8]] = &[
    b"", b"QQ", b"QQ=", b"QQ==", b"QQ===", b"QR", b"Q", b"QU JD", b"!!!", b"=", b"==", b"A=", b"AA=A",
    b"AAAA", b"AAA=", b"AAA", b"AAAAA", b"AAAAAA", b"AAAAAA==", b"AAAAAAA", b"AAAAAAA=", b"/+/+", b"-_-_",
    b"QUJD", b"QUJDRA", b"QUJDRA==", b"QUJDRA=", b"QUJD=", b"QUJD====", b"Zm9vYg==", b"Zm9vYh==", b"Zm9vYmE=",
    b"Zm9vYmF=", b"\xff\xff\xff\xff", b"AA\nA", b"AAAA\n",
];
fn gen_value(r: &mut Rng, pool: &[&[u8]], alphabet: &[u8]) -> Vec<u8> {
    if r.chance(2, 3) {
        r.pick(pool).to_vec()
    } else {
        let n = r.range(0, 12) as usize;
        (0..n).map(|_| *r.pick(alphabet)).collect()
    }
}
fn case_hostile(out: &mut Out, entries: Vec<(String, Vec<u8>)>, corpus: bool) {
    let mut hm = HeaderMap::new();
    for (k, v) in &entries {
        if let (Ok(k), Ok(v)) = (HeaderName::from_bytes(k.as_bytes()), HeaderValue::from_bytes(v)) {
            hm.append(k, v);
        }
    }
    let model = format!("obs_from_headers {}", coq_hm(&hm));
    let res = catch(std::panic::AssertUnwindSafe(|| Status::from_header_map(&hm)));
    let (obs, oracle) = match res {
        Err(p) => (Tr::L(vec![Tr::n(99u8)]), Some(format!("panic reading headers: {}", p))),
        Ok(st) => {
            let mut why = None;
            if let (Some(st), Some(cv)) = (&st, hm.get("grpc-status")) {
                let canonical: Vec<String> = (0..17).map(|i| i.to_string()).collect();
                let ok = canonical.iter().any(|c| c.as_bytes() == cv.as_bytes());
                if !ok && st.code() != Code::Unknown {
                    why = Some("malformed grpc-status did not become UNKNOWN".to_string());
                }
            }
            // undecodable fields degrade to UNKNOWN; decodable ones are read exactly
            if let Some(st) = &st {
                let msg_ok = match hm.get("grpc-message") {
                    Some(m) => match String::from_utf8(indep_pct(m.as_bytes())) {
                        Ok(t) => Some(t),
                        Err(_) => None,
                    },
                    None => Some(String::new()),
                };
                let det_ok = match hm.get("grpc-status-details-bin") {
                    Some(d) => indep_b64(d.as_bytes()),
                    None => Some(vec![]),
                };
                match (&msg_ok, &det_ok) {
                    (Some(m), Some(d)) => {
                        if st.message() != m {
                            why = Some("decodable grpc-message not read exactly".to_string());
                        }
                        if st.details() != &d[..] {
                            why = Some("decodable grpc-status-details-bin not read exactly".to_string());
                        }
                    }
                    _ => {
                        if st.code() != Code::Unknown {
                            why = Some("undecodable message/details did not degrade to UNKNOWN".to_string());
                        }
                    }
                }
            }
            if st.is_some() != hm.contains_key("grpc-status") {
                why = Some("presence of status does not match presence of grpc-status".to_string());
            }
            (Tr::opt(st.as_ref().map(status_tr)), why)
        }
    };
    out.hist("hostile.entries", hm.len());
    out.push(Case {
        kind: if corpus { "corpus.hostile".into() } else { "hostile".into() },
        input: json!({"headers": hm_json(&hm)}),
        model,
        impl_obs: obs,
        oracle,
        nontrivial: hm.len() >= 2,
    });
}

// ------------------------------------------------------------------ kind: infer (through Streaming)
#[derive(Default, Clone)]
struct RawDecoder;
impl tonic::codec::Decoder for RawDecoder {
    type Item = Vec<u8>;
    type Error = Status;
    fn decode(&mut self, src: &mut tonic::codec::DecodeBuf<'_>) -> Result<Option<Vec<u8>>, Status> {
        use bytes::Buf;
        let mut v = vec![0u8; src.remaining()];
        src.copy_to_slice(&mut v);
        Ok(Some(v))
    }
}
fn case_infer(out: &mut Out, http: u16, trailers: Option<HeaderMap>) {
    let model = format!(
        "obs_infer_stream {} {}",
        coq_opt(&trailers, |t| coq_hm(t)),
        http
    );
    let evs: Vec<Ev<Status>> = trailers.clone().into_iter().map(Ev::Trailers).collect();
    let res = catch(std::panic::AssertUnwindSafe(|| {
        let (body, _) = ScriptBody::new(evs);
        let mut s = tonic::codec::Streaming::new_response(
            RawDecoder,
            body,
            http::StatusCode::from_u16(http).unwrap(),
            None,
            None,
        );
        spin(async { s.message().await }, 1000)
    }));
    let (obs, oracle) = match res {
        Err(p) => (Tr::L(vec![Tr::n(99u8)]), Some(format!("panic: {}", p))),
        Ok(Err(())) => (Tr::L(vec![Tr::n(98u8)]), Some("hang".to_string())),
        Ok(Ok(Ok(None))) => (Tr::L(vec![Tr::n(0u8)]), None),
        Ok(Ok(Ok(Some(_)))) => (Tr::L(vec![Tr::n(97u8)]), Some("message from an empty body".into())),
        Ok(Ok(Err(st))) => {
            // direct oracle for the no-trailers case: the gRPC HTTP mapping table
            let mut why = None;
            if trailers.is_none() {
                let want = match http {
                    400 => Code::Internal,
                    401 => Code::Unauthenticated,
                    403 => Code::PermissionDenied,
                    404 => Code::Unimplemented,
                    429 | 502 | 503 | 504 => Code::Unavailable,
                    _ => Code::Unknown,
                };
                if st.code() != want {
                    why = Some(format!("HTTP {} classified as {:?}, table says {:?}", http, st.code(), want));
                }
            }
            (Tr::L(vec![Tr::n(2u8), status_tr(&st)]), why)
        }
    };
    let oracle = match (&oracle, http, &trailers) {
        (None, 200, None) => None,
        (None, h, None) if h != 200 && obs == Tr::L(vec![Tr::n(0u8)]) => {
            Some(format!("HTTP {} without grpc-status gave a clean end", h))
        }
        _ => oracle,
    };
    out.push(Case {
        kind: if trailers.is_some() { "infer.trailers".into() } else { "infer.http".into() },
        input: json!({"http": http, "trailers": trailers.as_ref().map(hm_json)}),
        model,
        impl_obs: obs,
        oracle,
        nontrivial: true,
    });
}

// ------------------------------------------------------------------ kind: tables
fn case_tables(out: &mut Out, thorough: bool) {
    // h2 reason -> code
    let reasons: Vec<u32> = (0..=40).chain([255, 256, 65535, 1 << 20, u32::MAX]).collect();
    for n in reasons {
        let st = Status::from(h2::Error::from(h2::Reason::from(n)));
        let want = match n {
            0 | 1 | 2 | 3 | 4 | 9 | 10 => Some(Code::Internal),
            7 => Some(Code::Unavailable),
            8 => Some(Code::Cancelled),
            11 => Some(Code::ResourceExhausted),
            12 => Some(Code::PermissionDenied),
            5 | 6 | 13 => None, // INTERNAL or UNKNOWN are both acceptable readings of the property
            _ => Some(Code::Unknown),
        };
        let oracle = match want {
            Some(w) if st.code() != w => Some(format!("h2 reason {} -> {:?}, expected {:?}", n, st.code(), w)),
            None if !(st.code() == Code::Internal || st.code() == Code::Unknown) => {
                Some(format!("h2 reason {} -> {:?}", n, st.code()))
            }
            _ => None,
        };
        out.push(Case {
            kind: "table.h2".into(),
            input: json!({"reason": n}),
            model: format!("Nn (code_from_h2 {})", n),
            impl_obs: Tr::n(st.code() as i32 as u32),
            oracle,
            nontrivial: true,
        });
    }
    for c in 0..17u32 {
        let e = h2::Error::from(Status::new(Code::from_i32(c as i32), "x"));
        let r: u32 = e.reason().map(|r| r.into()).unwrap_or(9999);
        out.push(Case {
            kind: "table.to_h2".into(),
            input: json!({"code": c}),
            model: format!("Nn (to_h2_error {})", c),
            impl_obs: Tr::n(r),
            oracle: None,
            nontrivial: true,
        });
    }
    // Code::from_i32
    let mut ints: Vec<i64> = (-3..=20).collect();
    ints.extend([i32::MIN as i64, i32::MAX as i64, 255, 256, -17, 1000]);
    for i in ints {
        let c = Code::from_i32(i as i32);
        let want = if (0..=16).contains(&i) { i as u32 } else { 2 };
        out.push(Case {
            kind: "table.from_i32".into(),
            input: json!({"i": i}),
            model: format!("Nn (code_from_i32 ({})%Z)", i),
            impl_obs: Tr::n(c as i32 as u32),
            oracle: if c as i32 as u32 != want { Some(format!("from_i32({}) = {:?}", i, c)) } else { None },
            nontrivial: true,
        });
    }
    // Code::from_bytes: all strings over a small alphabet up to length 3 (thorough) / 2
    let alpha: &[u8] = b"0123456789 -+a\xff";
    let maxlen = if thorough { 3 } else { 2 };
    let mut strs: Vec<Vec<u8>> = vec![vec![]];
    let mut frontier: Vec<Vec<u8>> = vec![vec![]];
    for _ in 0..maxlen {
        let mut next = vec![];
        for s in &frontier {
            for a in alpha {
                let mut t = s.clone();
                t.push(*a);
                next.push(t);
            }
        }
        strs.extend(next.iter().cloned());
        frontier = next;
    }
    for s in strs {
        let c = Code::from_bytes(&s);
        let canonical = std::str::from_utf8(&s)
            .ok()
            .and_then(|t| t.parse::<u32>().ok().filter(|n| *n <= 16 && n.to_string() == t));
        let want = canonical.unwrap_or(2);
        out.push(Case {
            kind: "table.from_bytes".into(),
            input: json!({"bytes": hex(&s)}),
            model: format!("Nn (code_from_bytes {})", coq_bytes(&s)),
            impl_obs: Tr::n(c as i32 as u32),
            oracle: if c as i32 as u32 != want { Some(format!("from_bytes({:?}) = {:?}", s, c)) } else { None },
            nontrivial: true,
        });
    }
}

// ------------------------------------------------------------------ kind: from_error (error chains)
#[derive(Debug)]
struct Wrap(Option<Box<dyn std::error::Error + Send + Sync>>);
impl std::fmt::Display for Wrap {
    fn fmt(&self, f: &mut std::fmt::Formatter<'_>) -> std::fmt::Result {
        write!(f, "wrapper")
    }
}
impl std::error::Error for Wrap {
    fn source(&self) -> Option<&(dyn std::error::Error + 'static)> {
        self.0.as_ref().map(|e| &**e as &(dyn std::error::Error + 'static))
    }
}
/// node encoding: (kind, arg): 0 Status(code) | 1 TimeoutExpired | 2 ConnectError | 3 h2 error with reason | 5 other wrapper
fn build_chain(nodes: &[(u8, u32)]) -> Option<Box<dyn std::error::Error + Send + Sync>> {
    let (first, rest) = nodes.split_first()?;
    let inner = build_chain(rest);
    Some(match first.0 {
        0 => Box::new(Status::new(Code::from_i32(first.1 as i32), "chain")),
        1 => Box::new(tonic::TimeoutExpired(())),
        2 => Box::new(tonic::ConnectError(inner.unwrap_or_else(|| Box::new(Wrap(None))))),
        3 => Box::new(h2::Error::from(h2::Reason::from(first.1))),
        _ => Box::new(Wrap(inner)),
    })
}
fn chain_coq(nodes: &[(u8, u32)]) -> String {
    coq_list(nodes, |n| match n.0 {
        0 => format!("EStatus {}", n.1),
        1 => "ETimeout".into(),
        2 => "EConnect".into(),
        3 => format!("EH2 (Some {})", n.1),
        _ => "EOther".into(),
    })
}
fn case_from_error(out: &mut Out, nodes: Vec<(u8, u32)>) {
    // Status, TimeoutExpired and h2::Error have no source: the chain ends at the first of them
    let end = nodes.iter().position(|n| matches!(n.0, 0 | 1 | 3)).map(|i| i + 1).unwrap_or(nodes.len());
    let nodes: Vec<(u8, u32)> = nodes[..end].to_vec();
    let model = format!("Nn (from_error_code {})", chain_coq(&nodes));
    let res = catch(std::panic::AssertUnwindSafe(|| {
        build_chain(&nodes).map(|e| Status::from_error(e).code() as i32 as u32)
    }));
    let (obs, mut oracle) = match res {
        Err(p) => (Tr::n(99u8), Some(format!("panic: {}", p))),
        Ok(None) => return,
        Ok(Some(c)) => (Tr::n(c), None),
    };
    // direct oracle for the simplest chains: a bare h2 error is classified by the gRPC table
    if let [(3, r)] = nodes[..] {
        let want = match r {
            0 | 1 | 2 | 3 | 4 | 9 | 10 => Some(13),
            7 => Some(14),
            8 => Some(1),
            11 => Some(8),
            12 => Some(7),
            5 | 6 | 13 => None,
            _ => Some(2),
        };
        if let (Some(w), Tr::N(c)) = (want, &obs) {
            if *c != w as u128 {
                oracle = Some(format!("from_error(h2 reason {}) = code {}, table says {}", r, c, w));
            }
        }
    }
    if let [(2, _), ..] = nodes[..] {
        if obs != Tr::n(14u8) {
            oracle = Some("a ConnectError was not classified UNAVAILABLE".into());
        }
    }
    out.push(Case {
        kind: "table.from_error".into(),
        input: json!({"chain": nodes}),
        model,
        impl_obs: obs,
        oracle,
        nontrivial: nodes.len() >= 2,
    });
}

// ------------------------------------------------------------------ kind: reset (a real RST_STREAM through hyper)
struct PipeConnector(std::sync::Arc<std::sync::Mutex<Option<tokio::io::DuplexStream>>>);
impl tower_service::Service<http::Uri> for PipeConnector {
    type Response = hyper_util::rt::TokioIo<tokio::io::DuplexStream>;
    type Error = std::io::Error;
    type Future = std::future::Ready<Result<Self::Response, Self::Error>>;
    fn poll_ready(&mut self, _: &mut std::task::Context<'_>) -> std::task::Poll<Result<(), Self::Error>> {
        std::task::Poll::Ready(Ok(()))
    }
    fn call(&mut self, _: http::Uri) -> Self::Future {
        std::future::ready(match self.0.lock().unwrap().take() {
            Some(io) => Ok(hyper_util::rt::TokioIo::new(io)),
            None => Err(std::io::Error::new(std::io::ErrorKind::Other, "no more pipes")),
        })
    }
}
#[derive(Default, Clone)]
struct RawEncoder;
impl tonic::codec::Encoder for RawEncoder {
    type Item = Vec<u8>;
    type Error = Status;
    fn encode(&mut self, item: Vec<u8>, dst: &mut tonic::codec::EncodeBuf<'_>) -> Result<(), Status> {
        use bytes::BufMut;
        dst.put_slice(&item);
        Ok(())
    }
}
#[derive(Default, Clone)]
struct RawCodec;
impl tonic::codec::Codec for RawCodec {
    type Encode = Vec<u8>;
    type Decode = Vec<u8>;
    type Encoder = RawEncoder;
    type Decoder = RawDecoder;
    fn encoder(&mut self) -> RawEncoder {
        RawEncoder
    }
    fn decoder(&mut self) -> RawDecoder {
        RawDecoder
    }
}
/// the peer answers the call's stream with RST_STREAM(reason), before (`late` = false) or after
/// the response headers; the client is the full tonic Channel stack
fn case_reset(out: &mut Out, reason: u32, late: bool) {
    let rt = tokio::runtime::Builder::new_current_thread().enable_all().build().unwrap();
    let res: Result<Result<u32, String>, String> = catch(std::panic::AssertUnwindSafe(|| {
        rt.block_on(async move {
            let (c, s) = tokio::io::duplex(1 << 16);
            tokio::spawn(async move {
                let mut conn = match h2::server::handshake(s).await {
                    Ok(c) => c,
                    Err(_) => return,
                };
                while let Some(Ok((_req, mut respond))) = conn.accept().await {
                    if late {
                        let resp = http::Response::builder()
                            .status(200)
                            .header("content-type", "application/grpc")
                            .body(())
                            .unwrap();
                        if let Ok(mut send) = respond.send_response(resp, false) {
                            send.send_reset(h2::Reason::from(reason));
                        }
                    } else {
                        respond.send_reset(h2::Reason::from(reason));
                    }
                }
            });
            let ep = tonic::transport::Endpoint::from_static("http://pipe.test");
            let ch = ep.connect_with_connector_lazy(PipeConnector(std::sync::Arc::new(std::sync::Mutex::new(Some(c)))));
            let mut g = tonic::client::Grpc::new(ch);
            let fut = async {
                g.ready().await.map_err(|e| format!("not ready: {}", e))?;
                let r = g
                    .unary::<Vec<u8>, Vec<u8>, _>(
                        tonic::Request::new(vec![1, 2, 3]),
                        http::uri::PathAndQuery::from_static("/p.S/M"),
                        RawCodec,
                    )
                    .await;
                match r {
                    Ok(_) => Err("call succeeded although the stream was reset".to_string()),
                    Err(st) => Ok(st.code() as i32 as u32),
                }
            };
            match tokio::time::timeout(std::time::Duration::from_secs(20), fut).await {
                Ok(r) => r,
                Err(_) => Err("hang".to_string()),
            }
        })
    }));
    let (obs, oracle) = match res {
        Err(p) => (Tr::n(99u8), Some(format!("panic: {}", p))),
        Ok(Err(e)) => (Tr::n(98u8), Some(e)),
        Ok(Ok(c)) => {
            let want = match reason {
                0 | 1 | 2 | 3 | 4 | 9 | 10 => Some(13),
                7 => Some(14),
                8 => Some(1),
                11 => Some(8),
                12 => Some(7),
                5 | 6 | 13 => None,
                _ => Some(2),
            };
            let why = match want {
                Some(w) if w != c => Some(format!("stream reset with HTTP/2 error {} seen as code {}, table says {}", reason, c, w)),
                None if c != 13 && c != 2 => Some(format!("stream reset with HTTP/2 error {} seen as code {}", reason, c)),
                _ => None,
            };
            (Tr::n(c), why)
        }
    };
    out.push(Case {
        kind: if late { "reset.after_headers".into() } else { "reset.before_headers".into() },
        input: json!({"reason": reason, "late": late}),
        model: format!("Nn (reset_stream_code {})", reason),
        impl_obs: obs,
        oracle,
        nontrivial: true,
    });
}

fn main() {
    let a = args();
    let mut out = Out::new(&a.out);
    let mut r = Rng::new(a.seed);

    if let Some(f) = &a.replay {
        // re-run exactly one stored case (the `input` of a replay file) on the implementation
        let v: serde_json::Value = serde_json::from_str(&std::fs::read_to_string(f).unwrap()).unwrap();
        let c = if v.get("first_disagreement").is_some() { &v["first_disagreement"] } else { &v };
        let (kind, inp) = (c["kind"].as_str().unwrap_or(""), &c["input"]);
        if kind.ends_with("roundtrip") {
            let mut md = MetadataMap::new();
            for (k, val) in hm_from_json(&inp["md"]).iter() {
                md.as_mut().append(k.clone(), val.clone());
            }
            case_roundtrip(
                &mut out,
                inp["code"].as_u64().unwrap() as u32,
                &String::from_utf8(unhex(inp["msg"].as_str().unwrap())).unwrap(),
                &unhex(inp["details"].as_str().unwrap()),
                md,
                false,
            );
        } else if kind.ends_with("hostile") {
            let e = hm_from_json(&inp["headers"])
                .iter()
                .map(|(k, v)| (k.as_str().to_string(), v.as_bytes().to_vec()))
                .collect();
            case_hostile(&mut out, e, false);
        } else if kind.starts_with("infer") {
            let t = if inp["trailers"].is_null() { None } else { Some(hm_from_json(&inp["trailers"])) };
            case_infer(&mut out, inp["http"].as_u64().unwrap() as u16, t);
        } else {
            case_tables(&mut out, true);
        }
        out.finish(IMPORTS, "replay of one stored case", json!({}));
        return;
    }

    // corpus: witnesses of the fixed findings and hand-picked boundary cases, always first
    for d in DET_VALUES {
        case_hostile(&mut out, vec![("grpc-status".into(), b"3".to_vec()), ("grpc-status-details-bin".into(), d.to_vec())], true);
    }
    for m in MSG_VALUES {
        case_hostile(&mut out, vec![("grpc-status".into(), b"5".to_vec()), ("grpc-message".into(), m.to_vec())], true);
    }
    for c in CODE_VALUES {
        case_hostile(&mut out, vec![("grpc-status".into(), c.to_vec())], true);
    }
    case_roundtrip(&mut out, 5, "a:b c%\u{7f}é", b"\x00\x01\x02\x03", MetadataMap::new(), true);
    for c in 0..17 {
        case_roundtrip(&mut out, c, "", b"", MetadataMap::new(), true);
    }

    case_tables(&mut out, a.thorough);
    for r in (0..=16u32).chain([255, 65536]) {
        case_reset(&mut out, r, false);
        case_reset(&mut out, r, true);
    }
    // error chains: every single node, every pair, random longer chains
    let node_pool: Vec<(u8, u32)> = (0..17u32).map(|c| (0u8, c)).chain([(1, 0), (2, 0), (5, 0)]).chain((0..=14u32).map(|r| (3u8, r))).chain([(3u8, 255u32)]).collect();
    for a1 in &node_pool {
        case_from_error(&mut out, vec![*a1]);
        for a2 in [(5u8, 0u32), (0, 5), (1, 0), (2, 0), (3, 8)] {
            case_from_error(&mut out, vec![a2, *a1]);
        }
    }
    for _ in 0..(if a.thorough { 3000 } else { 300 }) {
        let n = r.range(2, 5) as usize;
        let ch: Vec<(u8, u32)> = (0..n).map(|_| *r.pick(&node_pool)).collect();
        case_from_error(&mut out, ch);
    }
    for h in 100..=599u16 {
        case_infer(&mut out, h, None);
    }

    let (n_rt, n_host, n_inf) = if a.thorough { (20000, 20000, 4000) } else { (1200, 1200, 300) };
    for _ in 0..n_rt {
        let code = r.below(17) as u32;
        let msg = gen_message(&mut r);
        let det = gen_details(&mut r);
        let md = gen_metadata(&mut r, true);
        case_roundtrip(&mut out, code, &msg, &det, md, false);
    }
    let extra_keys = ["x-a", "x-b-bin", "te", "content-type", "grpc-encoding"];
    for _ in 0..n_host {
        let mut e: Vec<(String, Vec<u8>)> = vec![];
        if r.chance(9, 10) {
            e.push(("grpc-status".into(), gen_value(&mut r, CODE_VALUES, b"0123456789 -x")));
        }
        if r.chance(1, 8) {
            e.push(("grpc-status".into(), gen_value(&mut r, CODE_VALUES, b"0123456789")));
        }
        if r.chance(2, 3) {
            e.push(("grpc-message".into(), gen_value(&mut r, MSG_VALUES, b"%0123456789abcdefABCDEFgG z\xc3\xa9\xff")));
        }
        if r.chance(2, 3) {
            e.push(("grpc-status-details-bin".into(), gen_value(&mut r, DET_VALUES, b"ABCDQRZabcz019+/= !")));
        }
        for _ in 0..r.below(3) {
            e.push((r.pick(&extra_keys).to_string(), gen_ascii_value(&mut r).into_bytes()));
        }
        // shuffle
        for i in (1..e.len()).rev() {
            let j = r.below(i as u64 + 1) as usize;
            e.swap(i, j);
        }
        case_hostile(&mut out, e, false);
    }
    let https = [200u16, 200, 200, 400, 401, 404, 429, 500, 503, 302, 100, 204];
    for _ in 0..n_inf {
        let mut t = HeaderMap::new();
        if r.chance(4, 5) {
            t.append("grpc-status", HeaderValue::from_bytes(&gen_value(&mut r, CODE_VALUES, b"0123456789")).unwrap());
        }
        if r.chance(1, 2) {
            if let Ok(v) = HeaderValue::from_bytes(&gen_value(&mut r, MSG_VALUES, b"%0123456789abcdef z")) {
                t.append("grpc-message", v);
            }
        }
        if r.chance(1, 3) {
            if let Ok(v) = HeaderValue::from_bytes(&gen_value(&mut r, DET_VALUES, b"ABCDQRZabcz019+/=")) {
                t.append("grpc-status-details-bin", v);
            }
        }
        if r.chance(1, 3) {
            t.append("x-a", HeaderValue::from_static("v"));
        }
        case_infer(&mut out, *r.pick(&https), Some(t));
    }

    out.finish(
        IMPORTS,
        "roundtrip: random statuses (17 codes x messages over a hostile alphabet x details of every length mod 3 x metadata incl. reserved names), non-trivial = any of message/details/metadata non-empty; hostile: arbitrary status header maps (malformed codes, percent escapes, base64), non-trivial = >= 2 headers; infer: every HTTP status 100..599 without trailers plus random trailers; tables: h2 reasons, Code::from_i32/from_bytes/to_h2. Distinct = distinct (kind, model expression).",
        json!({}),
    );
}
