//! C14 correspondence harness: a real tonic `Channel` (lazy and eager) over a scripted
//! connector, against a real in-process tonic server whose connections the script can sever.
//!
//! One case = (lazy|eager, connector latency, initial reachability, history) where the history is a
//! list of steps over {connect fails r, connect succeeds, established connection dropped, Call}.
//! Environment steps change what the connector will answer / kill the live connection; `Call`
//! issues one unary call (`grpc.health.v1.Health/Check`) once the runtime is quiescent (paused
//! tokio clock: a virtual sleep only returns when no task can make progress).
use hyper_util::rt::TokioIo;
use serde_json::{json, Value};
use std::future::Future;
use std::pin::Pin;
use std::sync::atomic::{AtomicUsize, Ordering};
use std::sync::{Arc, Mutex};
use std::task::{Context, Poll, Waker};
use std::time::Duration;
use tokio::io::{AsyncRead, AsyncWrite, DuplexStream, ReadBuf};
use tokio::sync::mpsc;
use tonic::transport::server::Connected;
use tonic::transport::{Endpoint, Server, Uri};
use tonic_health::pb::health_client::HealthClient;
use tonic_health::pb::HealthCheckRequest;
use vcommon::*;

const IMPORTS: &str = "From Verif Require Import Lib.Obs Model.Reconnect.";

static PANICS: AtomicUsize = AtomicUsize::new(0);

// ------------------------------------------------------------------ history
#[derive(Clone, Copy, Debug, PartialEq, Eq)]
enum Step {
    Fail(u32),
    Succeed,
    Drop,
    /// outside the property's quantifier: the peer drops the connection and the call is issued
    /// before the client's connection task has run (not a quiescent point)
    DropRacy,
    Call,
}
impl Step {
    fn coq(&self) -> String {
        match self {
            Step::Fail(r) => format!("Env (ConnectFails {})", r),
            Step::Succeed => "Env ConnectSucceeds".into(),
            Step::Drop => "Env ConnectionDropped".into(),
            Step::DropRacy => "EnvRacyDrop true".into(),
            Step::Call => "Call".into(),
        }
    }
    fn json(&self) -> Value {
        match self {
            Step::Fail(r) => json!({"fail": r}),
            Step::Succeed => json!("succeed"),
            Step::Drop => json!("drop"),
            Step::DropRacy => json!("drop_racy"),
            Step::Call => json!("call"),
        }
    }
    fn from_json(v: &Value) -> Step {
        if let Some(r) = v.get("fail") {
            return Step::Fail(r.as_u64().unwrap() as u32);
        }
        match v.as_str().unwrap() {
            "succeed" => Step::Succeed,
            "drop" => Step::Drop,
            "drop_racy" => Step::DropRacy,
            _ => Step::Call,
        }
    }
}

// ------------------------------------------------------------------ severable server-side io
struct PipeSt {
    io: Option<DuplexStream>,
    wakers: Vec<Waker>,
}
struct Pipe {
    st: Arc<Mutex<PipeSt>>,
}
fn sever(st: &Arc<Mutex<PipeSt>>) {
    let mut s = st.lock().unwrap();
    s.io = None; // drops the server end: the client reads EOF, its writes fail
    for w in s.wakers.drain(..) {
        w.wake();
    }
}
impl AsyncRead for Pipe {
    fn poll_read(self: Pin<&mut Self>, cx: &mut Context<'_>, buf: &mut ReadBuf<'_>) -> Poll<std::io::Result<()>> {
        let mut s = self.st.lock().unwrap();
        match s.io.as_mut() {
            None => Poll::Ready(Ok(())),
            Some(io) => {
                let r = Pin::new(io).poll_read(cx, buf);
                if r.is_pending() {
                    s.wakers.push(cx.waker().clone());
                }
                r
            }
        }
    }
}
impl AsyncWrite for Pipe {
    fn poll_write(self: Pin<&mut Self>, cx: &mut Context<'_>, b: &[u8]) -> Poll<std::io::Result<usize>> {
        let mut s = self.st.lock().unwrap();
        match s.io.as_mut() {
            None => Poll::Ready(Err(std::io::ErrorKind::BrokenPipe.into())),
            Some(io) => {
                let r = Pin::new(io).poll_write(cx, b);
                if r.is_pending() {
                    s.wakers.push(cx.waker().clone());
                }
                r
            }
        }
    }
    fn poll_flush(self: Pin<&mut Self>, cx: &mut Context<'_>) -> Poll<std::io::Result<()>> {
        let mut s = self.st.lock().unwrap();
        match s.io.as_mut() {
            None => Poll::Ready(Ok(())),
            Some(io) => Pin::new(io).poll_flush(cx),
        }
    }
    fn poll_shutdown(self: Pin<&mut Self>, cx: &mut Context<'_>) -> Poll<std::io::Result<()>> {
        let mut s = self.st.lock().unwrap();
        match s.io.as_mut() {
            None => Poll::Ready(Ok(())),
            Some(io) => Pin::new(io).poll_shutdown(cx),
        }
    }
}
impl Connected for Pipe {
    type ConnectInfo = ();
    fn connect_info(&self) {}
}

// ------------------------------------------------------------------ world + scripted connector
struct WorldSt {
    /// None = reachable, Some(reason) = connection attempts are refused
    down: Option<u32>,
    lat: u32,
    attempts: u64,
    current: Option<Arc<Mutex<PipeSt>>>,
    tx: mpsc::UnboundedSender<Result<Pipe, std::io::Error>>,
}
#[derive(Clone)]
struct World(Arc<Mutex<WorldSt>>);

#[derive(Clone)]
struct ScriptedConnector(World);
impl tower_service::Service<Uri> for ScriptedConnector {
    type Response = TokioIo<DuplexStream>;
    type Error = std::io::Error;
    type Future = Pin<Box<dyn Future<Output = Result<Self::Response, Self::Error>> + Send>>;
    fn poll_ready(&mut self, _cx: &mut Context<'_>) -> Poll<Result<(), Self::Error>> {
        Poll::Ready(Ok(()))
    }
    fn call(&mut self, _uri: Uri) -> Self::Future {
        let w = self.0.clone();
        let (k, down, lat) = {
            let mut s = w.0.lock().unwrap();
            s.attempts += 1;
            (s.attempts, s.down, s.lat)
        };
        Box::pin(async move {
            for _ in 0..lat {
                tokio::task::yield_now().await; // one Pending poll each
            }
            match down {
                Some(r) => Err(std::io::Error::new(
                    std::io::ErrorKind::ConnectionRefused,
                    format!("scripted refuse #{} r{}", k, r),
                )),
                None => {
                    let (c, s) = tokio::io::duplex(1 << 16);
                    let st = Arc::new(Mutex::new(PipeSt { io: Some(s), wakers: vec![] }));
                    let mut g = w.0.lock().unwrap();
                    g.current = Some(st.clone());
                    let _ = g.tx.send(Ok(Pipe { st }));
                    Ok(TokioIo::new(c))
                }
            }
        })
    }
}

// ------------------------------------------------------------------ observables
#[derive(Clone, Debug, PartialEq)]
enum Outcome {
    Ok,
    /// (grpc code, attempt number, reason) - attempt/reason parsed from "scripted refuse #k rR", 0/0 if absent
    Err(u32, u64, u32, String),
    Hang,
}
fn parse_refuse(msg: &str) -> (u64, u32) {
    if let Some(i) = msg.find("scripted refuse #") {
        let rest = &msg[i + "scripted refuse #".len()..];
        let k: String = rest.chars().take_while(|c| c.is_ascii_digit()).collect();
        let rest = &rest[k.len()..];
        if let Some(rest) = rest.strip_prefix(" r") {
            let r: String = rest.chars().take_while(|c| c.is_ascii_digit()).collect();
            return (k.parse().unwrap_or(0), r.parse().unwrap_or(0));
        }
    }
    (0, 0)
}
impl Outcome {
    fn tr(&self) -> Tr {
        match self {
            Outcome::Ok => Tr::tag(0, vec![]),
            Outcome::Err(c, k, r, _) => Tr::tag(1, vec![Tr::n(*c), Tr::n(*k), Tr::n(*r)]),
            Outcome::Hang => Tr::tag(2, vec![]),
        }
    }
    fn json(&self) -> Value {
        match self {
            Outcome::Ok => json!("ok"),
            Outcome::Err(c, k, r, m) => json!({"code": c, "attempt": k, "reason": r, "message": m}),
            Outcome::Hang => json!("hang"),
        }
    }
}
struct Obs {
    /// None: lazy (nothing to report); Some(Ok): eager connect returned a channel
    eager: Option<Outcome>,
    calls: Vec<Outcome>,
    attempts: u64,
    panics: usize,
}

async fn settle() {
    // paused clock: the sleep completes only once every other task is idle
    tokio::time::sleep(Duration::from_millis(50)).await;
}

async fn run_case(lazy: bool, lat: u32, down0: Option<u32>, hist: &[Step]) -> Obs {
    let p0 = PANICS.load(Ordering::SeqCst);
    let (tx, rx) = mpsc::unbounded_channel();
    let world = World(Arc::new(Mutex::new(WorldSt { down: down0, lat, attempts: 0, current: None, tx })));
    let (_rep, health) = tonic_health::server::health_reporter();
    let server = tokio::spawn(
        Server::builder()
            .add_service(health)
            .serve_with_incoming(tokio_stream::wrappers::UnboundedReceiverStream::new(rx)),
    );
    let ep = Endpoint::from_static("http://scripted.invalid");
    let conn = ScriptedConnector(world.clone());
    let mut obs = Obs { eager: None, calls: vec![], attempts: 0, panics: 0 };
    let ch = if lazy {
        Some(ep.connect_with_connector_lazy(conn))
    } else {
        match tokio::time::timeout(Duration::from_secs(3600), ep.connect_with_connector(conn)).await {
            Err(_) => {
                obs.eager = Some(Outcome::Hang);
                None
            }
            Ok(Ok(ch)) => {
                obs.eager = Some(Outcome::Ok);
                Some(ch)
            }
            Ok(Err(e)) => {
                let text = format!("{} / {:?}", e, e);
                let st = tonic::Status::from_error(Box::new(e));
                let (k, r) = parse_refuse(&format!("{} {}", st.message(), text));
                obs.eager = Some(Outcome::Err(st.code() as i32 as u32, k, r, st.message().to_string()));
                None
            }
        }
    };
    if let Some(ch) = ch {
        let mut client = HealthClient::new(ch);
        for s in hist {
            match s {
                Step::Fail(r) => world.0.lock().unwrap().down = Some(*r),
                Step::Succeed => world.0.lock().unwrap().down = None,
                Step::Drop | Step::DropRacy => {
                    let cur = world.0.lock().unwrap().current.take();
                    if let Some(c) = cur {
                        sever(&c);
                    }
                    if *s == Step::DropRacy {
                        continue; // no settling: the next step runs before anybody noticed
                    }
                }
                Step::Call => {
                    let req = HealthCheckRequest { service: String::new() };
                    let o = match tokio::time::timeout(Duration::from_secs(3600), client.check(req)).await {
                        Err(_) => Outcome::Hang,
                        // the real server's answer: the overall health "" is SERVING (= 1)
                        Ok(Ok(resp)) if resp.get_ref().status == 1 => Outcome::Ok,
                        Ok(Ok(resp)) => Outcome::Err(999, 0, 0, format!("unexpected response {:?}", resp.get_ref())),
                        Ok(Err(st)) => {
                            let (k, r) = parse_refuse(st.message());
                            Outcome::Err(st.code() as i32 as u32, k, r, st.message().to_string())
                        }
                    };
                    obs.calls.push(o);
                }
            }
            settle().await;
        }
    }
    obs.attempts = world.0.lock().unwrap().attempts;
    server.abort();
    obs.panics = PANICS.load(Ordering::SeqCst) - p0;
    obs
}

fn run_blocking(lazy: bool, lat: u32, down0: Option<u32>, hist: &[Step]) -> Obs {
    let rt = tokio::runtime::Builder::new_current_thread()
        .enable_time()
        .start_paused(true)
        .build()
        .unwrap();
    let o = rt.block_on(run_case(lazy, lat, down0, hist));
    drop(rt);
    o
}

// ------------------------------------------------------------------ direct oracle
/// Model-independent check of the property on what the implementation did.
fn oracle(lazy: bool, down0: Option<u32>, hist: &[Step], o: &Obs) -> Option<String> {
    if o.panics > 0 {
        return Some(format!("{} panic(s) inside the channel's tasks", o.panics));
    }
    let quiescent = !hist.contains(&Step::DropRacy);
    // eager: an initial failure is returned by connect() itself, immediately (one attempt)
    if !lazy {
        match (&o.eager, down0) {
            (Some(Outcome::Hang), _) => return Some("eager connect() hangs".into()),
            (Some(Outcome::Ok), None) => {}
            (Some(Outcome::Err(c, k, r, _)), Some(r0)) => {
                if *c != 14 {
                    return Some(format!("eager connect error maps to code {} not UNAVAILABLE", c));
                }
                if *k != 1 || *r != r0 || o.attempts != 1 {
                    return Some("eager connect error is not the error of the first and only attempt".into());
                }
                if !o.calls.is_empty() {
                    return Some("calls on a channel that was never returned".into());
                }
                return None;
            }
            (Some(Outcome::Ok), Some(_)) => return Some("eager connect() returned a channel although the endpoint refused".into()),
            (Some(Outcome::Err(..)), None) => return Some("eager connect() failed although the endpoint was reachable".into()),
            (None, _) => return Some("eager connect() reported nothing".into()),
        }
    }
    // replay the environment independently of the model: only reachability and liveness of the
    // connection, no Reconnect state
    let mut down = down0;
    let mut have_conn = !lazy; // eager success left a live connection
    let mut racy_pending = false;
    let mut seen_attempts: Vec<u64> = vec![];
    let mut i = 0;
    let n_calls = hist.iter().filter(|s| **s == Step::Call).count();
    if o.calls.len() != n_calls {
        return Some("a call did not produce an outcome".into());
    }
    for s in hist {
        match s {
            Step::Fail(r) => down = Some(*r),
            Step::Succeed => down = None,
            Step::Drop => have_conn = false,
            Step::DropRacy => {
                if have_conn {
                    racy_pending = true;
                }
                have_conn = false;
            }
            Step::Call => {
                let out = &o.calls[i];
                i += 1;
                match out {
                    Outcome::Hang => return Some(format!("call {} hangs", i)),
                    Outcome::Ok => {
                        if racy_pending {
                            racy_pending = false;
                        }
                        if !have_conn && down.is_some() {
                            return Some(format!("call {} succeeded although no connection can exist", i));
                        }
                        have_conn = true;
                    }
                    Outcome::Err(c, k, r, m) => {
                        if racy_pending {
                            // outside the quantifier: one transport error is tolerated, but it must
                            // still be definite and in the UNAVAILABLE class or a transport error
                            racy_pending = false;
                            if *k != 0 {
                                seen_attempts.push(*k);
                            }
                            continue;
                        }
                        if have_conn || down.is_none() {
                            return Some(format!(
                                "call {} failed ({} {:?}) although the endpoint is reachable: no recovery",
                                i, c, m
                            ));
                        }
                        if *c != 14 {
                            return Some(format!("call {} failed with code {} ({:?}), not UNAVAILABLE", i, c, m));
                        }
                        if Some(*r) != down {
                            return Some(format!("call {} got the error of an older refusal (reason {})", i, r));
                        }
                        if *k == 0 {
                            return Some(format!("call {}: UNAVAILABLE without the connect error ({:?})", i, m));
                        }
                        if seen_attempts.contains(k) {
                            return Some(format!("the failure of attempt #{} was reported to more than one call", k));
                        }
                        if let Some(last) = seen_attempts.last() {
                            if k <= last {
                                return Some(format!("call {} got the stale failure of attempt #{}", i, k));
                            }
                        }
                        seen_attempts.push(*k);
                    }
                }
            }
        }
    }
    let _ = quiescent;
    None
}

fn obs_tr(o: &Obs) -> Tr {
    Tr::L(vec![
        Tr::opt(o.eager.as_ref().map(|e| e.tr())),
        Tr::L(o.calls.iter().map(|c| c.tr()).collect()),
        Tr::n(o.attempts),
    ])
}

fn push_case(out: &mut Out, kind: &str, lazy: bool, lat: u32, down0: Option<u32>, hist: &[Step]) {
    let o = run_blocking(lazy, lat, down0, hist);
    // how the race of a non-quiescent drop was resolved by the runtime is a schedule parameter of
    // the model, read off the implementation: the call that follows at once was CANCELLED by hyper
    // iff the client's connection task had not run yet
    let mut steps_coq = vec![];
    let mut ci = 0;
    for (p, s) in hist.iter().enumerate() {
        let mut c = s.coq();
        if *s == Step::DropRacy && hist.get(p + 1) == Some(&Step::Call) {
            if let Some(Outcome::Err(1, 0, _, _)) = o.calls.get(ci) {
                c = "EnvRacyDrop false".into();
            }
        }
        if *s == Step::Call {
            ci += 1;
        }
        steps_coq.push(c);
    }
    let model = format!(
        "obs_run {} {} {} {}",
        coq_bool(lazy),
        lat,
        match down0 {
            None => "Up".to_string(),
            Some(r) => format!("(Down {})", r),
        },
        coq_list(&steps_coq, |s| s.clone())
    );
    let n_calls = hist.iter().filter(|s| **s == Step::Call).count();
    out.hist("history_len", hist.len());
    out.hist("calls", n_calls);
    out.hist("mode", if lazy { "lazy" } else { "eager" });
    out.hist("latency", lat);
    out.hist("attempts", o.attempts);
    out.hist(
        "outcomes",
        format!(
            "ok={} err={}",
            o.calls.iter().filter(|c| **c == Outcome::Ok).count().min(4),
            o.calls.iter().filter(|c| matches!(c, Outcome::Err(..))).count().min(4)
        ),
    );
    let orc = oracle(lazy, down0, hist, &o);
    out.push(Case {
        kind: kind.to_string(),
        input: json!({"lazy": lazy, "lat": lat, "down0": down0, "history": hist.iter().map(|s| s.json()).collect::<Vec<_>>(),
                      "impl": {"eager": o.eager.as_ref().map(|e| e.json()), "calls": o.calls.iter().map(|c| c.json()).collect::<Vec<_>>(), "attempts": o.attempts}}),
        model,
        impl_obs: obs_tr(&o),
        oracle: orc,
        nontrivial: n_calls >= 1 && hist.len() >= 2,
    });
}

/// event script -> history with a call at the quiescent point after every event
fn with_calls(script: &[Step], leading_call: bool) -> Vec<Step> {
    let mut h = vec![];
    if leading_call {
        h.push(Step::Call);
    }
    for s in script {
        h.push(*s);
        h.push(Step::Call);
    }
    h
}

fn all_seqs(alpha: &[Step], len: usize) -> Vec<Vec<Step>> {
    let mut r: Vec<Vec<Step>> = vec![vec![]];
    for _ in 0..len {
        let mut n = vec![];
        for s in &r {
            for a in alpha {
                let mut t = s.clone();
                t.push(*a);
                n.push(t);
            }
        }
        r = n;
    }
    r
}

fn main() {
    let a = args();
    std::panic::set_hook(Box::new(|_| {
        PANICS.fetch_add(1, Ordering::SeqCst);
    }));
    if std::env::args().any(|x| x == "--explore") {
        explore();
        return;
    }
    let mut out = Out::new(&a.out);
    if let Some(f) = &a.replay {
        let v: Value = serde_json::from_str(&std::fs::read_to_string(f).unwrap()).unwrap();
        let i = &v["input"];
        let hist: Vec<Step> = i["history"].as_array().unwrap().iter().map(Step::from_json).collect();
        push_case(
            &mut out,
            v["kind"].as_str().unwrap_or("replay"),
            i["lazy"].as_bool().unwrap(),
            i["lat"].as_u64().unwrap() as u32,
            i["down0"].as_u64().map(|x| x as u32),
            &hist,
        );
        out.finish(IMPORTS, "replay of one stored case", json!({}));
        return;
    }
    let mut r = Rng::new(a.seed);
    use Step::*;

    // corpus: hand-picked histories
    let corpus: Vec<(bool, u32, Option<u32>, Vec<Step>)> = vec![
        (true, 0, Some(3), vec![Call, Call, Succeed, Call, Call]),
        (true, 0, None, vec![Call, Drop, Call, Fail(5), Drop, Call, Call, Succeed, Call]),
        (false, 0, Some(3), vec![Call]),
        (false, 0, None, vec![Call, Fail(4), Call, Drop, Call, Call, Succeed, Call]),
        (false, 2, None, vec![Drop, Fail(9), Call, Fail(8), Call, Succeed, Call, Drop, Drop, Call]),
        (true, 3, Some(1), vec![Call, Fail(2), Call, Succeed, Call, Drop, Fail(6), Call, Succeed, Call]),
        (true, 0, None, vec![]),
        (false, 0, None, vec![]),
        (true, 1, None, vec![Succeed, Drop, Fail(2), Succeed, Call]),
    ];
    for (lazy, lat, d0, h) in &corpus {
        push_case(&mut out, "corpus.history", *lazy, *lat, *d0, h);
    }
    // what the stack does off the quiescent points (documented, outside the quantifier)
    for lazy in [true, false] {
        for h in [
            vec![Call, DropRacy, Call, Call],
            vec![Call, Fail(7), DropRacy, Call, Call, Succeed, Call],
            vec![DropRacy, Call],
        ] {
            push_case(&mut out, "corpus.racy", lazy, 0, None, &h);
        }
    }

    // exhaustive: every script over {fail, succeed, drop} up to the bound, a call after every event
    let max = if a.thorough { 8 } else { 6 };
    let alpha = [Fail(0), Succeed, Drop];
    for len in 0..=max {
        for (idx, mut s) in all_seqs(&alpha, len).into_iter().enumerate() {
            // distinct reasons so that a stale error is recognisable
            for (j, e) in s.iter_mut().enumerate() {
                if let Fail(_) = e {
                    *e = Fail(10 + j as u32);
                }
            }
            for lazy in [true, false] {
                // initial reachability and latency vary with the index so that all combinations
                // occur at every length; the shortest lengths get all of them
                let combos: Vec<(Option<u32>, u32, bool)> = if len <= (if a.thorough { 6 } else { 4 }) {
                    vec![(None, 0, false), (Some(1), 0, false), (None, 1, true), (Some(2), 2, true)]
                } else {
                    let k = idx % 4;
                    vec![(if k & 1 == 0 { None } else { Some(1) }, (k as u32) % 3, k >= 2)]
                };
                for (d0, lat, lead) in combos {
                    if !lazy && d0.is_some() && len > 0 {
                        continue; // eager + initially refused: no channel, one case (len 0) suffices
                    }
                    let h = with_calls(&s, lead);
                    push_case(&mut out, "script.exhaustive", lazy, lat, d0, &h);
                }
            }
        }
    }
    // random histories with calls at arbitrary positions (several in a row, none between faults)
    let n = if a.thorough { 15000 } else { 700 };
    for _ in 0..n {
        let len = r.range(1, if a.thorough { 16 } else { 10 }) as usize;
        let mut h = vec![];
        for j in 0..len {
            h.push(match r.below(7) {
                0 => Fail(20 + j as u32),
                1 => Succeed,
                2 => Drop,
                _ => Call,
            });
        }
        let lazy = r.chance(1, 2);
        let d0 = if r.chance(1, 3) { Some(r.range(1, 5) as u32) } else { None };
        let lat = r.below(4) as u32;
        push_case(&mut out, "history.random", lazy, lat, d0, &h);
    }

    out.finish(
        IMPORTS,
        "script.exhaustive: ALL scripts over {connect fails, connect succeeds, connection dropped} up to length 6 (thorough 8) x lazy/eager, a unary call at the quiescent point after every event (and optionally before the first), initial reachability and connector latency (0..2 Pending polls) varied; history.random: random histories with calls at arbitrary positions; corpus.racy: calls issued before the client noticed the drop (outside the property's quantifier, behaviour recorded and modelled). Real Endpoint::connect_with_connector[_lazy] + Buffer worker + Reconnect + hyper h2 client against a real tonic Server over tokio duplex pipes, paused clock. Non-trivial = at least one call and two steps. Distinct = distinct (kind, model expression).",
        json!({}),
    );
}

fn explore() {
    use Step::*;
    let cases: Vec<(bool, u32, Option<u32>, Vec<Step>)> = vec![
        (true, 0, Some(3), vec![Call, Call, Succeed, Call, Call]),
        (true, 0, None, vec![Call, Drop, Call, Fail(5), Drop, Call, Call, Succeed, Call]),
        (false, 0, Some(3), vec![Call]),
        (false, 0, None, vec![Call, Fail(4), Call, Drop, Call, Call, Succeed, Call]),
        (true, 0, None, vec![Call, DropRacy, Call, Call]),
        (true, 0, None, vec![Call, Fail(7), DropRacy, Call, Call, Succeed, Call]),
        (false, 0, None, vec![DropRacy, Call, Call]),
        (true, 2, None, vec![Call, DropRacy, Call, Call]),
    ];
    for (lazy, lat, d0, h) in cases {
        let o = run_blocking(lazy, lat, d0, &h);
        println!(
            "lazy={} lat={} down0={:?} hist={:?}\n   eager={:?}\n   calls={:?}\n   attempts={} panics={} oracle={:?}",
            lazy, lat, d0, h, o.eager, o.calls, o.attempts, o.panics, oracle(lazy, d0, &h, &o)
        );
    }
}
