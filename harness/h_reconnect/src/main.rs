//! C14 correspondence harness: a real tonic `Channel` (lazy and eager) over a scripted
//! connector, against a real in-process tonic server whose connections the script can sever.
//!
//! One case = (lazy|eager, connector latency, initial reachability, history) where the history is a
//! list of steps over {connect fails r, connect succeeds, established connection dropped, Calls k}.
//! Environment steps change what the connector will answer / kill the live connection; `Calls k`
//! issues k unary calls (`grpc.health.v1.Health/Check`) TOGETHER once the runtime is quiescent
//! (paused tokio clock: a virtual sleep only returns when no task can make progress): k tasks are
//! spawned in order, each enqueues its request in the tower Buffer before the worker runs, so
//! k-1 requests are queued while the first one is being served (possibly connecting).
//! Two further connector outcomes (audit M4, kinds `*.handshake`): the transport connects but the
//! peer closes at once (the HTTP/2 handshake fails: a connect failure, STRICTLY UNAVAILABLE - this is
//! the fixed finding F-C14a) / the peer answers with bytes that are not HTTP/2 (hyper's handshake
//! only writes, so a connection is established and dies under the request: like a racy drop,
//! outside the quantifier; CANCELLED or UNAVAILABLE accepted - observation F-C14b).
use hyper_util::rt::TokioIo;
use serde_json::{json, Value};
use std::future::Future;
use std::pin::Pin;
use std::sync::atomic::{AtomicUsize, Ordering};
use std::sync::{Arc, Mutex};
use std::task::{Context, Poll, Waker};
use std::time::Duration;
use tokio::io::{AsyncRead, AsyncWrite, DuplexStream, ReadBuf};
use tokio::sync::mpsc;
use tonic::transport::server::Connected;
use tonic::transport::{Endpoint, Server, Uri};
use tonic_health::pb::health_client::HealthClient;
use tonic_health::pb::HealthCheckRequest;
use vcommon::*;

const IMPORTS: &str = "From Verif Require Import Lib.Obs Model.Reconnect.";

static PANICS: AtomicUsize = AtomicUsize::new(0);

// ------------------------------------------------------------------ history
#[derive(Clone, Copy, Debug, PartialEq, Eq)]
enum Net {
    Up,
    Down(u32),
    /// the connector returns an io on which the HTTP/2 handshake fails: reads and writes fail with
    /// the io error the reason stands for (reason % 32 == 31: the other end is simply closed)
    Dead(u32),
    /// the connector returns an io whose other end writes an HTTP/1.1 error and closes
    Garbage,
}
impl Net {
    fn coq(&self) -> String {
        match self {
            Net::Up => "Up".into(),
            Net::Down(r) => format!("(Down {})", r),
            Net::Dead(r) => format!("(UpDead {})", r),
            Net::Garbage => "UpGarbage".into(),
        }
    }
    fn json(&self) -> Value {
        match self {
            Net::Up => json!("up"),
            Net::Down(r) => json!({"down": r}),
            Net::Dead(r) => json!({"dead": r}),
            Net::Garbage => json!("garbage"),
        }
    }
    fn from_json(v: &Value) -> Net {
        if let Some(r) = v.get("down") {
            return Net::Down(r.as_u64().unwrap() as u32);
        }
        if let Some(r) = v.get("dead") {
            return Net::Dead(r.as_u64().unwrap() as u32);
        }
        match v.as_str().unwrap_or("up") {
            "garbage" => Net::Garbage,
            _ => Net::Up,
        }
    }
    fn plain(&self) -> bool {
        matches!(self, Net::Up | Net::Down(_) | Net::Dead(_))
    }
}
#[derive(Clone, Copy, Debug, PartialEq, Eq)]
enum Step {
    /// environment: what the connector answers from now on
    Set(Net),
    Drop,
    /// outside the property's quantifier: the peer drops the connection and the next calls are
    /// issued before the client's connection task has run (not a quiescent point)
    DropRacy,
    /// k calls issued together
    Calls(u32),
}
const CALL: Step = Step::Calls(1);
impl Step {
    fn coq(&self) -> String {
        match self {
            Step::Set(Net::Up) => "Env ConnectSucceeds".into(),
            Step::Set(Net::Down(r)) => format!("Env (ConnectFails {})", r),
            Step::Set(Net::Dead(r)) => format!("Env (ConnectSucceedsDead {})", r),
            Step::Set(Net::Garbage) => "Env ConnectSucceedsGarbage".into(),
            Step::Drop => "Env ConnectionDropped".into(),
            Step::DropRacy => "EnvRacyDrop true".into(),
            Step::Calls(1) => "Call".into(),
            Step::Calls(k) => format!("Calls {}", k),
        }
    }
    fn json(&self) -> Value {
        match self {
            Step::Set(n) => json!({"set": n.json()}),
            Step::Drop => json!("drop"),
            Step::DropRacy => json!("drop_racy"),
            Step::Calls(k) => json!({"calls": k}),
        }
    }
    fn from_json(v: &Value) -> Step {
        if let Some(n) = v.get("set") {
            return Step::Set(Net::from_json(n));
        }
        if let Some(k) = v.get("calls") {
            return Step::Calls(k.as_u64().unwrap() as u32);
        }
        match v.as_str().unwrap() {
            "drop" => Step::Drop,
            _ => Step::DropRacy,
        }
    }
}
fn n_calls(h: &[Step]) -> usize {
    h.iter().map(|s| if let Step::Calls(k) = s { *k as usize } else { 0 }).sum()
}

// ------------------------------------------------------------------ severable server-side io
struct PipeSt {
    io: Option<DuplexStream>,
    wakers: Vec<Waker>,
}
struct Pipe {
    st: Arc<Mutex<PipeSt>>,
}
fn sever(st: &Arc<Mutex<PipeSt>>) {
    let mut s = st.lock().unwrap();
    s.io = None; // drops the server end: the client reads EOF, its writes fail
    for w in s.wakers.drain(..) {
        w.wake();
    }
}
impl AsyncRead for Pipe {
    fn poll_read(self: Pin<&mut Self>, cx: &mut Context<'_>, buf: &mut ReadBuf<'_>) -> Poll<std::io::Result<()>> {
        let mut s = self.st.lock().unwrap();
        match s.io.as_mut() {
            None => Poll::Ready(Ok(())),
            Some(io) => {
                let r = Pin::new(io).poll_read(cx, buf);
                if r.is_pending() {
                    s.wakers.push(cx.waker().clone());
                }
                r
            }
        }
    }
}
impl AsyncWrite for Pipe {
    fn poll_write(self: Pin<&mut Self>, cx: &mut Context<'_>, b: &[u8]) -> Poll<std::io::Result<usize>> {
        let mut s = self.st.lock().unwrap();
        match s.io.as_mut() {
            None => Poll::Ready(Err(std::io::ErrorKind::BrokenPipe.into())),
            Some(io) => {
                let r = Pin::new(io).poll_write(cx, b);
                if r.is_pending() {
                    s.wakers.push(cx.waker().clone());
                }
                r
            }
        }
    }
    fn poll_flush(self: Pin<&mut Self>, cx: &mut Context<'_>) -> Poll<std::io::Result<()>> {
        let mut s = self.st.lock().unwrap();
        match s.io.as_mut() {
            None => Poll::Ready(Ok(())),
            Some(io) => Pin::new(io).poll_flush(cx),
        }
    }
    fn poll_shutdown(self: Pin<&mut Self>, cx: &mut Context<'_>) -> Poll<std::io::Result<()>> {
        let mut s = self.st.lock().unwrap();
        match s.io.as_mut() {
            None => Poll::Ready(Ok(())),
            Some(io) => Pin::new(io).poll_shutdown(cx),
        }
    }
}
impl Connected for Pipe {
    type ConnectInfo = ();
    fn connect_info(&self) {}
}

// ------------------------------------------------------------------ shapes of the underlying error
// The reason of a failure also fixes WHAT fails underneath (Model: cause_of_reason):
// reason % 32 = 0..19 an io::Error of that kind, 20 a custom error type, 21 a boxed String,
// 22.. io::ErrorKind::Other; (reason / 32) % 3 = number of wrapper errors around it.
type BoxError = Box<dyn std::error::Error + Send + Sync>;
const KINDS: [std::io::ErrorKind; 20] = {
    use std::io::ErrorKind::*;
    [
        NotFound, PermissionDenied, ConnectionRefused, ConnectionReset, ConnectionAborted, NotConnected,
        AddrInUse, AddrNotAvailable, BrokenPipe, AlreadyExists, WouldBlock, InvalidInput, InvalidData,
        TimedOut, WriteZero, Interrupted, Unsupported, UnexpectedEof, OutOfMemory, Other,
    ]
};
#[derive(Debug)]
struct CustomErr(String);
impl std::fmt::Display for CustomErr {
    fn fmt(&self, f: &mut std::fmt::Formatter<'_>) -> std::fmt::Result {
        write!(f, "custom: {}", self.0)
    }
}
impl std::error::Error for CustomErr {}
#[derive(Debug)]
struct Wrapper(BoxError);
impl std::fmt::Display for Wrapper {
    fn fmt(&self, f: &mut std::fmt::Formatter<'_>) -> std::fmt::Result {
        write!(f, "wrapped: {}", self.0)
    }
}
impl std::error::Error for Wrapper {
    fn source(&self) -> Option<&(dyn std::error::Error + 'static)> {
        Some(&*self.0)
    }
}
fn shape_name(r: u32) -> String {
    let k = match r % 32 {
        k @ 0..=19 => format!("io::{:?}", KINDS[k as usize]),
        20 => "custom".to_string(),
        21 => "string".to_string(),
        31 => "io::Other|closed".to_string(),
        _ => "io::Other".to_string(),
    };
    format!("{} depth{}", k, (r / 32) % 3)
}
/// the connector's own error for a refusal
fn shaped_error(r: u32, text: String) -> BoxError {
    let mut e: BoxError = match r % 32 {
        k @ 0..=19 => Box::new(std::io::Error::new(KINDS[k as usize], text)),
        20 => Box::new(CustomErr(text)),
        21 => text.into(),
        _ => Box::new(std::io::Error::new(std::io::ErrorKind::Other, text)),
    };
    for _ in 0..(r / 32) % 3 {
        e = Box::new(Wrapper(e));
    }
    e
}
/// the io error a scripted io fails with (what hyper's handshake then reports)
fn shaped_io_error(r: u32) -> std::io::Error {
    let text = format!("scripted io failure r{}", r);
    let mut e = match r % 32 {
        k @ 0..=19 => std::io::Error::new(KINDS[k as usize], text),
        20 => std::io::Error::new(std::io::ErrorKind::Other, CustomErr(text)),
        21 => std::io::Error::other(text),
        _ => std::io::Error::new(std::io::ErrorKind::Other, text),
    };
    for _ in 0..(r / 32) % 3 {
        e = std::io::Error::new(e.kind(), Wrapper(Box::new(e)));
    }
    e
}
/// client-side io: a duplex pipe, or one on which every read and write fails
struct ScriptedIo {
    inner: DuplexStream,
    fail: Option<u32>,
}
impl AsyncRead for ScriptedIo {
    fn poll_read(mut self: Pin<&mut Self>, cx: &mut Context<'_>, buf: &mut ReadBuf<'_>) -> Poll<std::io::Result<()>> {
        match self.fail {
            Some(r) => Poll::Ready(Err(shaped_io_error(r))),
            None => Pin::new(&mut self.inner).poll_read(cx, buf),
        }
    }
}
impl AsyncWrite for ScriptedIo {
    fn poll_write(mut self: Pin<&mut Self>, cx: &mut Context<'_>, b: &[u8]) -> Poll<std::io::Result<usize>> {
        match self.fail {
            Some(r) => Poll::Ready(Err(shaped_io_error(r))),
            None => Pin::new(&mut self.inner).poll_write(cx, b),
        }
    }
    fn poll_flush(mut self: Pin<&mut Self>, cx: &mut Context<'_>) -> Poll<std::io::Result<()>> {
        match self.fail {
            Some(r) => Poll::Ready(Err(shaped_io_error(r))),
            None => Pin::new(&mut self.inner).poll_flush(cx),
        }
    }
    fn poll_shutdown(mut self: Pin<&mut Self>, cx: &mut Context<'_>) -> Poll<std::io::Result<()>> {
        Pin::new(&mut self.inner).poll_shutdown(cx)
    }
}

// ------------------------------------------------------------------ world + scripted connector
/// how the connector enforces the tower Service protocol (`call` only after a Ready poll_ready)
#[derive(Clone, Copy, Debug, PartialEq, Eq)]
enum Mode {
    /// a `call` without a preceding Ready poll_ready is recorded
    Record,
    /// ... and panics, like tower's own middleware does
    Panic,
    /// the scripted connector wrapped in a real `tower::limit::ConcurrencyLimit` (max 1), which
    /// panics "poll_ready must be called first" on such a call
    Limit,
}
impl Mode {
    fn name(&self) -> &'static str {
        match self {
            Mode::Record => "record",
            Mode::Panic => "panic",
            Mode::Limit => "concurrency_limit",
        }
    }
    fn from_name(s: &str) -> Mode {
        match s {
            "panic" => Mode::Panic,
            "concurrency_limit" => Mode::Limit,
            _ => Mode::Record,
        }
    }
}
struct WorldSt {
    net: Net,
    lat: u32,
    /// Pending answers of the connector's poll_ready per cycle, and how many are left in this one
    prl: u32,
    pr_left: u32,
    /// poll_ready has returned Ready since the last call
    ready: bool,
    /// calls without a Ready poll_ready since the previous call
    misuse: u64,
    panic_on_misuse: bool,
    /// observation runs: Some((g, r)) = after g more successful cycles poll_ready answers Err
    brk: Option<(u32, u32)>,
    attempts: u64,
    current: Option<Arc<Mutex<PipeSt>>>,
    tx: mpsc::UnboundedSender<Result<Pipe, std::io::Error>>,
}
#[derive(Clone)]
struct World(Arc<Mutex<WorldSt>>);

#[derive(Clone)]
struct ScriptedConnector(World);
impl tower_service::Service<Uri> for ScriptedConnector {
    type Response = TokioIo<ScriptedIo>;
    type Error = BoxError;
    type Future = Pin<Box<dyn Future<Output = Result<Self::Response, Self::Error>> + Send>>;
    fn poll_ready(&mut self, cx: &mut Context<'_>) -> Poll<Result<(), Self::Error>> {
        let mut s = self.0 .0.lock().unwrap();
        if s.pr_left > 0 {
            s.pr_left -= 1;
            cx.waker().wake_by_ref();
            return Poll::Pending;
        }
        if let Some((0, r)) = s.brk {
            // tower: a service whose poll_ready errs is dead
            return Poll::Ready(Err(Box::new(std::io::Error::new(
                std::io::ErrorKind::Other,
                format!("scripted refuse #0 r{}", r),
            ))));
        }
        s.ready = true;
        Poll::Ready(Ok(()))
    }
    fn call(&mut self, _uri: Uri) -> Self::Future {
        let w = self.0.clone();
        let (k, net, lat) = {
            let mut s = w.0.lock().unwrap();
            if !s.ready {
                s.misuse += 1;
                if s.panic_on_misuse {
                    drop(s);
                    panic!("scripted connector: poll_ready must be called first");
                }
            }
            s.ready = false;
            s.pr_left = s.prl;
            if let Some((g, r)) = s.brk {
                if g > 0 {
                    s.brk = Some((g - 1, r));
                }
            }
            s.attempts += 1;
            (s.attempts, s.net, s.lat)
        };
        Box::pin(async move {
            for _ in 0..lat {
                tokio::task::yield_now().await; // one Pending poll each
            }
            match net {
                Net::Down(r) => Err(shaped_error(r, format!("scripted refuse #{} r{}", k, r))),
                Net::Dead(r) => {
                    let (c, s) = tokio::io::duplex(1 << 16);
                    drop(s);
                    Ok(TokioIo::new(ScriptedIo { inner: c, fail: if r % 32 == 31 { None } else { Some(r) } }))
                }
                Net::Garbage => {
                    let (c, mut s) = tokio::io::duplex(1 << 16);
                    tokio::spawn(async move {
                        use tokio::io::AsyncWriteExt;
                        let _ = s.write_all(b"HTTP/1.1 400 Bad Request\r\nconnection: close\r\n\r\n").await;
                        drop(s);
                    });
                    Ok(TokioIo::new(ScriptedIo { inner: c, fail: None }))
                }
                Net::Up => {
                    let (c, s) = tokio::io::duplex(1 << 16);
                    let st = Arc::new(Mutex::new(PipeSt { io: Some(s), wakers: vec![] }));
                    let mut g = w.0.lock().unwrap();
                    g.current = Some(st.clone());
                    let _ = g.tx.send(Ok(Pipe { st }));
                    Ok(TokioIo::new(ScriptedIo { inner: c, fail: None }))
                }
            }
        })
    }
}

// ------------------------------------------------------------------ observables
#[derive(Clone, Debug, PartialEq)]
enum Outcome {
    Ok,
    /// (grpc code, attempt number, reason, message) - attempt/reason parsed from
    /// "scripted refuse #k rR", 0/0 if absent
    Err(u32, u64, u32, String),
    Hang,
}
fn parse_refuse(msg: &str) -> (u64, u32) {
    if let Some(i) = msg.find("scripted refuse #") {
        let rest = &msg[i + "scripted refuse #".len()..];
        let k: String = rest.chars().take_while(|c| c.is_ascii_digit()).collect();
        let rest = &rest[k.len()..];
        if let Some(rest) = rest.strip_prefix(" r") {
            let r: String = rest.chars().take_while(|c| c.is_ascii_digit()).collect();
            return (k.parse().unwrap_or(0), r.parse().unwrap_or(0));
        }
    }
    (0, 0)
}
impl Outcome {
    fn tr(&self) -> Tr {
        match self {
            Outcome::Ok => Tr::tag(0, vec![]),
            Outcome::Err(c, k, r, _) => Tr::tag(1, vec![Tr::n(*c), Tr::n(*k), Tr::n(*r)]),
            Outcome::Hang => Tr::tag(2, vec![]),
        }
    }
    fn json(&self) -> Value {
        match self {
            Outcome::Ok => json!("ok"),
            Outcome::Err(c, k, r, m) => json!({"code": c, "attempt": k, "reason": r, "message": m}),
            Outcome::Hang => json!("hang"),
        }
    }
}
struct Obs {
    /// None: lazy (nothing to report); Some(Ok): eager connect returned a channel
    eager: Option<Outcome>,
    calls: Vec<Outcome>,
    attempts: u64,
    misuse: u64,
    panics: usize,
}

async fn settle() {
    // paused clock: the sleep completes only once every other task is idle
    tokio::time::sleep(Duration::from_millis(50)).await;
}

async fn one_call(mut client: HealthClient<tonic::transport::Channel>) -> Outcome {
    let req = HealthCheckRequest { service: String::new() };
    match tokio::time::timeout(Duration::from_secs(3600), client.check(req)).await {
        Err(_) => Outcome::Hang,
        // the real server's answer: the overall health "" is SERVING (= 1)
        Ok(Ok(resp)) if resp.get_ref().status == 1 => Outcome::Ok,
        Ok(Ok(resp)) => Outcome::Err(999, 0, 0, format!("unexpected response {:?}", resp.get_ref())),
        Ok(Err(st)) => {
            let (k, r) = parse_refuse(st.message());
            Outcome::Err(st.code() as i32 as u32, k, r, st.message().to_string())
        }
    }
}

async fn build_channel<C>(ep: Endpoint, conn: C, lazy: bool) -> Result<tonic::transport::Channel, tonic::transport::Error>
where
    C: tower_service::Service<Uri, Response = TokioIo<ScriptedIo>, Error = BoxError> + Send + 'static,
    C::Future: Send,
{
    if lazy {
        Ok(ep.connect_with_connector_lazy(conn))
    } else {
        ep.connect_with_connector(conn).await
    }
}

#[allow(clippy::too_many_arguments)]
async fn run_case(lazy: bool, lat: u32, prl: u32, mode: Mode, brk: Option<(u32, u32)>, net0: Net, hist: &[Step]) -> Obs {
    let p0 = PANICS.load(Ordering::SeqCst);
    let (tx, rx) = mpsc::unbounded_channel();
    let world = World(Arc::new(Mutex::new(WorldSt {
        net: net0,
        lat,
        prl,
        pr_left: prl,
        ready: false,
        misuse: 0,
        panic_on_misuse: mode == Mode::Panic,
        brk,
        attempts: 0,
        current: None,
        tx,
    })));
    let (_rep, health) = tonic_health::server::health_reporter();
    let server = tokio::spawn(
        Server::builder()
            .add_service(health)
            .serve_with_incoming(tokio_stream::wrappers::UnboundedReceiverStream::new(rx)),
    );
    let ep = Endpoint::from_static("http://scripted.invalid");
    let conn = ScriptedConnector(world.clone());
    let mut obs = Obs { eager: None, calls: vec![], attempts: 0, misuse: 0, panics: 0 };
    // built in its own task: a panic of a strict connector inside an eager connect() is an
    // observation (counted by the panic hook), not the end of the harness
    let task = if mode == Mode::Limit {
        tokio::spawn(build_channel(ep, tower::limit::ConcurrencyLimit::new(conn, 1), lazy))
    } else {
        tokio::spawn(build_channel(ep, conn, lazy))
    };
    let built = tokio::time::timeout(Duration::from_secs(3600), task).await;
    let ch = if lazy {
        built.ok().and_then(|r| r.ok()).and_then(|r| r.ok())
    } else {
        match built {
            Err(_) => {
                obs.eager = Some(Outcome::Hang);
                None
            }
            Ok(Err(_)) => {
                obs.eager = Some(Outcome::Err(998, 0, 0, "eager connect() panicked".into()));
                None
            }
            Ok(Ok(r)) => match r {
            Ok(ch) => {
                obs.eager = Some(Outcome::Ok);
                Some(ch)
            }
            Err(e) => {
                // connect() returns a transport::Error, not a Status; its class is what
                // Status::from_error (used by every generated client) makes of it
                let text = format!("{} / {:?}", e, e);
                let st = tonic::Status::from_error(Box::new(e));
                let (k, r) = parse_refuse(&format!("{} {}", st.message(), text));
                obs.eager = Some(Outcome::Err(st.code() as i32 as u32, k, r, st.message().to_string()));
                None
            }
            },
        }
    };
    if let Some(ch) = ch {
        settle().await;
        let client = HealthClient::new(ch);
        for s in hist {
            match s {
                Step::Set(n) => world.0.lock().unwrap().net = *n,
                Step::Drop | Step::DropRacy => {
                    let cur = world.0.lock().unwrap().current.take();
                    if let Some(c) = cur {
                        sever(&c);
                    }
                    if *s == Step::DropRacy {
                        continue; // no settling: the next step runs before anybody noticed
                    }
                }
                Step::Calls(k) => {
                    // spawned in order on the single-threaded runtime: they run in order, each
                    // enqueues its request and waits; only then does the Buffer worker run
                    let hs: Vec<_> = (0..*k).map(|_| tokio::spawn(one_call(client.clone()))).collect();
                    for h in hs {
                        obs.calls.push(h.await.unwrap_or(Outcome::Hang));
                    }
                }
            }
            settle().await;
        }
    }
    obs.attempts = world.0.lock().unwrap().attempts;
    obs.misuse = world.0.lock().unwrap().misuse;
    server.abort();
    obs.panics = PANICS.load(Ordering::SeqCst) - p0;
    obs
}

fn run_blocking(lazy: bool, lat: u32, prl: u32, mode: Mode, net0: Net, hist: &[Step]) -> Obs {
    run_blocking_brk(lazy, lat, prl, mode, None, net0, hist)
}
fn run_blocking_brk(lazy: bool, lat: u32, prl: u32, mode: Mode, brk: Option<(u32, u32)>, net0: Net, hist: &[Step]) -> Obs {
    let rt = tokio::runtime::Builder::new_current_thread()
        .enable_time()
        .start_paused(true)
        .build()
        .unwrap();
    let o = rt.block_on(run_case(lazy, lat, prl, mode, brk, net0, hist));
    drop(rt);
    o
}

// ------------------------------------------------------------------ direct oracle
/// Model-independent check of the property on what the implementation did.  It replays only the
/// ENVIRONMENT (what the connector answers, whether a usable connection exists) and demands of
/// every call, in queue order: a response if a connection exists or can be made; otherwise an
/// UNAVAILABLE error that is the failure of a fresh attempt made for this very call (attempt
/// number = invocations so far + 1, reason = the refusal in force); in total exactly one
/// connector invocation per call that found no connection.
fn oracle(lazy: bool, net0: Net, hist: &[Step], o: &Obs) -> Option<String> {
    #[derive(PartialEq, Clone, Copy)]
    enum Conn {
        No,
        Live,
        /// established to a peer that is not HTTP/2: usable-looking until the next quiescent point
        Doomed,
        /// dropped by the peer off a quiescent point: the runtime decides who runs first
        MaybeLive,
    }
    if o.misuse > 0 {
        return Some(format!(
            "connector called without poll_ready: {} call(s) of the connector were not preceded by a Ready poll_ready (tower Service contract)",
            o.misuse
        ));
    }
    if o.panics > 0 {
        return Some(format!("{} panic(s) inside the channel's tasks", o.panics));
    }
    let mut attempts: u64 = 0;
    let mut conn = Conn::No;
    if !lazy {
        attempts = 1;
        match (&o.eager, net0) {
            (Some(Outcome::Hang), _) => return Some("eager connect() hangs".into()),
            (None, _) => return Some("eager connect() reported nothing".into()),
            (Some(Outcome::Ok), Net::Up) => conn = Conn::Live,
            (Some(Outcome::Ok), Net::Garbage) => {} // hyper's client handshake only writes: cannot know
            (Some(Outcome::Ok), _) => {
                return Some("eager connect() returned a channel although no connection could be made".into())
            }
            (Some(Outcome::Err(..)), Net::Up) | (Some(Outcome::Err(..)), Net::Garbage) => {
                return Some("eager connect() failed although the endpoint accepted".into())
            }
            (Some(Outcome::Err(c, k, r, _)), Net::Down(r0)) => {
                if *c != 14 {
                    return Some(format!("eager connect error maps to code {} not UNAVAILABLE", c));
                }
                if *k != 1 || *r != r0 || o.attempts != 1 || !o.calls.is_empty() {
                    return Some("eager connect error is not the error of the first and only attempt".into());
                }
                return None;
            }
            (Some(Outcome::Err(c, ..)), Net::Dead(_)) => {
                if *c != 14 {
                    return Some(format!("handshake-fault(dead): eager connect error maps to code {} not UNAVAILABLE", c));
                }
                if o.attempts != 1 || !o.calls.is_empty() {
                    return Some("eager connect failure not immediate".into());
                }
                return None;
            }
        }
    }
    if o.calls.len() != n_calls(hist) {
        return Some("a call did not produce an outcome".into());
    }
    let mut net = net0;
    let mut i = 0;
    let mut last_reported: u64 = 0;
    for s in hist {
        match s {
            Step::Set(n) => {
                net = *n;
                if conn == Conn::MaybeLive {
                    conn = Conn::No; // the step settled
                }
            }
            Step::Drop => conn = Conn::No,
            Step::DropRacy => {
                if conn == Conn::Live {
                    conn = Conn::MaybeLive;
                }
            }
            Step::Calls(k) => {
                for j in 0..*k {
                    let out = &o.calls[i];
                    i += 1;
                    if *out == Outcome::Hang {
                        return Some(format!("call {} hangs", i));
                    }
                    if conn == Conn::MaybeLive {
                        // resolved by the first call of the batch: CANCELLED by hyper = nobody
                        // had noticed the drop; anything else must be what a noticed drop gives
                        conn = if j == 0 && matches!(out, Outcome::Err(1, 0, _, _)) { Conn::Doomed } else { Conn::No };
                    }
                    match conn {
                        Conn::Live => {
                            if *out != Outcome::Ok {
                                return Some(format!("call {} failed ({:?}) although a connection exists: no recovery", i, out));
                            }
                        }
                        // a call in flight on an established connection that the peer kills (racy drop,
                        // or a peer that is not HTTP/2): outside the quantifier; it must still be
                        // definite, and CANCELLED (hyper) or UNAVAILABLE
                        Conn::Doomed => match out {
                            Outcome::Err(1, ..) | Outcome::Err(14, ..) => {}
                            _ => return Some(format!("call {} on a dying connection: {:?}, neither CANCELLED nor UNAVAILABLE", i, out)),
                        },
                        Conn::No | Conn::MaybeLive => {
                            attempts += 1;
                            match (net, out) {
                                (Net::Up, Outcome::Ok) => conn = Conn::Live,
                                (Net::Up, _) => {
                                    return Some(format!(
                                        "call {} failed ({:?}) although the endpoint is reachable: no recovery",
                                        i, out
                                    ))
                                }
                                (_, Outcome::Ok) => {
                                    return Some(format!("call {} succeeded although no connection can be made", i))
                                }
                                (Net::Down(r0), Outcome::Err(c, k, r, m)) => {
                                    if *c != 14 {
                                        return Some(format!(
                                            "call {} failed with code {} ({:?}), not UNAVAILABLE, while the connector refuses (underlying error: {})",
                                            i, c, m, shape_name(r0)
                                        ));
                                    }
                                    if *r != r0 {
                                        return Some(format!("call {} got the error of an older refusal (reason {})", i, r));
                                    }
                                    if *k <= last_reported {
                                        return Some(format!(
                                            "the failure of attempt #{} was reported again (call {}): replayed onto a later call",
                                            k, i
                                        ));
                                    }
                                    if *k != attempts {
                                        return Some(format!(
                                            "call {} got the failure of attempt #{}, not of the attempt it triggered (#{})",
                                            i, k, attempts
                                        ));
                                    }
                                    last_reported = *k;
                                }
                                (Net::Dead(_), Outcome::Err(c, _, _, m)) => {
                                    if *c != 14 {
                                        return Some(format!(
                                            "handshake-fault(dead): call {} failed with code {} ({:?}), not UNAVAILABLE, while no connection can be made",
                                            i, c, m
                                        ));
                                    }
                                }
                                (Net::Garbage, Outcome::Err(c, _, _, m)) => {
                                    // hyper's handshake only writes: the connection is established
                                    // and dies under this request (observation F-C14b)
                                    conn = Conn::Doomed;
                                    if *c != 1 && *c != 14 {
                                        return Some(format!(
                                            "call {} on a connection to a peer that is not HTTP/2 failed with code {} ({:?}), neither CANCELLED nor UNAVAILABLE",
                                            i, c, m
                                        ));
                                    }
                                }
                                (_, Outcome::Hang) => unreachable!(),
                            }
                        }
                    }
                }
                if conn == Conn::Doomed || conn == Conn::MaybeLive {
                    conn = Conn::No; // quiescent point after the batch
                }
            }
        }
    }
    if o.attempts != attempts {
        return Some(format!(
            "{} connector invocations, but the calls that found no connection (plus the eager connect) account for {}",
            o.attempts, attempts
        ));
    }
    None
}

fn obs_tr(o: &Obs) -> Tr {
    Tr::L(vec![
        Tr::opt(o.eager.as_ref().map(|e| e.tr())),
        Tr::L(o.calls.iter().map(|c| c.tr()).collect()),
        Tr::n(o.attempts),
        Tr::n(o.misuse),
    ])
}

fn push_case(out: &mut Out, kind: &str, lazy: bool, lat: u32, net0: Net, hist: &[Step]) {
    // the connector's protocol parameters rotate with the case number: Pending answers of its
    // poll_ready per cycle 0..2, enforcement mode record / panic / real ConcurrencyLimit
    let c = out.count();
    let mode = [Mode::Record, Mode::Panic, Mode::Limit][(c % 3) as usize];
    let prl = ((c / 3) % 3) as u32;
    push_case_with(out, kind, lazy, lat, prl, mode, net0, hist)
}
#[allow(clippy::too_many_arguments)]
fn push_case_with(out: &mut Out, kind: &str, lazy: bool, lat: u32, prl: u32, mode: Mode, net0: Net, hist: &[Step]) {
    let o = run_blocking(lazy, lat, prl, mode, net0, hist);
    // how the race of a non-quiescent drop was resolved by the runtime is a schedule parameter of
    // the model, read off the implementation: the call that follows at once was CANCELLED by hyper
    // iff the client's connection task had not run yet
    let mut steps_coq = vec![];
    let mut ci = 0;
    for (p, s) in hist.iter().enumerate() {
        let mut c = s.coq();
        if *s == Step::DropRacy {
            if let Some(Step::Calls(k)) = hist.get(p + 1) {
                if *k > 0 {
                    if let Some(Outcome::Err(1, 0, _, _)) = o.calls.get(ci) {
                        c = "EnvRacyDrop false".into();
                    }
                }
            }
        }
        if let Step::Calls(k) = s {
            ci += *k as usize;
        }
        steps_coq.push(c);
    }
    let model = format!(
        "obs_run {} {} {} {} {}",
        coq_bool(lazy),
        lat,
        prl,
        net0.coq(),
        coq_list(&steps_coq, |s| s.clone())
    );
    let nc = n_calls(hist);
    out.hist("history_len", hist.len());
    out.hist("calls", nc.min(12));
    out.hist("largest_batch", hist.iter().map(|s| if let Step::Calls(k) = s { *k } else { 0 }).max().unwrap_or(0));
    out.hist("mode", if lazy { "lazy" } else { "eager" });
    out.hist("latency", lat);
    out.hist("connector_poll_ready_pendings", prl);
    out.hist("connector_mode", mode.name());
    for s in hist.iter().chain(std::iter::once(&Step::Set(net0))) {
        match s {
            Step::Set(Net::Down(r)) => out.hist("refusal_error", shape_name(*r)),
            Step::Set(Net::Dead(r)) => out.hist("handshake_io_error", shape_name(*r)),
            _ => {}
        }
    }
    out.hist("attempts", o.attempts.min(12));
    out.hist(
        "outcomes",
        format!(
            "ok={} err={}",
            o.calls.iter().filter(|c| **c == Outcome::Ok).count().min(4),
            o.calls.iter().filter(|c| matches!(c, Outcome::Err(..))).count().min(4)
        ),
    );
    for c in &o.calls {
        if let Outcome::Err(code, ..) = c {
            out.hist("error_codes", code);
        }
    }
    let orc = oracle(lazy, net0, hist, &o);
    out.push(Case {
        kind: kind.to_string(),
        input: json!({"lazy": lazy, "lat": lat, "prl": prl, "mode": mode.name(), "net0": net0.json(), "history": hist.iter().map(|s| s.json()).collect::<Vec<_>>(),
                      "impl": {"eager": o.eager.as_ref().map(|e| e.json()), "calls": o.calls.iter().map(|c| c.json()).collect::<Vec<_>>(), "attempts": o.attempts, "misuse": o.misuse}}),
        model,
        impl_obs: obs_tr(&o),
        oracle: orc,
        nontrivial: nc >= 1 && hist.len() >= 2,
    });
}

// ------------------------------------------------------------------ observation: connector poll_ready errs
/// A connector whose poll_ready answers Err after `good` successful cycles (audit2 N-C14-2).
/// tower's contract: such a service is dead; Reconnect::poll_ready passes the error on and the
/// Buffer worker fails for good.  NOT covered by the property: the model is exact (tie), the
/// oracle only demands definite outcomes, no panic, no hang.
#[allow(clippy::too_many_arguments)]
fn push_break_case(out: &mut Out, lazy: bool, lat: u32, prl: u32, mode: Mode, good: u32, reason: u32, net0: Net, hist: &[Step]) {
    let o = run_blocking_brk(lazy, lat, prl, mode, Some((good, reason)), net0, hist);
    let model = format!(
        "obs_run_breaking {} {} {} {} {} {} {}",
        coq_bool(lazy),
        lat,
        prl,
        good,
        reason,
        net0.coq(),
        coq_list(hist, |s| s.coq())
    );
    let mut orc = None;
    if o.panics > 0 {
        orc = Some(format!("{} panic(s) inside the channel's tasks", o.panics));
    } else if o.misuse > 0 {
        orc = Some("connector called without poll_ready".to_string());
    } else if o.eager == Some(Outcome::Hang) || o.calls.contains(&Outcome::Hang) {
        orc = Some("a call (or connect) hangs".to_string());
    } else if o.eager != None && !matches!(o.eager, Some(Outcome::Ok)) && !o.calls.is_empty() {
        orc = Some("calls on a channel that was never returned".to_string());
    } else if matches!(o.eager, None | Some(Outcome::Ok)) && o.calls.len() != n_calls(hist) {
        orc = Some("a call did not produce an outcome".to_string());
    }
    out.hist("break_after_good_cycles", good);
    for c in &o.calls {
        if let Outcome::Err(code, _, _, m) = c {
            out.hist("break_outcomes", format!("{} {}", code, if m.starts_with("Service was not ready") { "Service was not ready" } else { "" }));
        }
    }
    out.push(Case {
        kind: "observe.connector_not_ready".to_string(),
        input: json!({"lazy": lazy, "lat": lat, "prl": prl, "mode": mode.name(), "break_after": good, "reason": reason,
                      "net0": net0.json(), "history": hist.iter().map(|s| s.json()).collect::<Vec<_>>(),
                      "impl": {"eager": o.eager.as_ref().map(|e| e.json()), "calls": o.calls.iter().map(|c| c.json()).collect::<Vec<_>>(), "attempts": o.attempts}}),
        model,
        impl_obs: obs_tr(&o),
        oracle: orc,
        nontrivial: true,
    });
}

// ------------------------------------------------------------------ loopback TCP (audit2 N-C14-1)
// Real `Endpoint::connect()` / `connect_lazy()` (hyper-util's HttpConnector) against a peer on
// 127.0.0.1: nothing listening / accepts and closes / accepts, writes an HTTP/1.1 answer and
// closes / a real tonic server that is shut down and restarted on the same port.  Real clock, real
// io: quiescent points are real sleeps.
#[derive(Clone, Copy, Debug, PartialEq, Eq)]
enum Peer {
    Refuse,
    Close,
    Garbage,
    Healthy,
}
impl Peer {
    fn name(&self) -> &'static str {
        match self {
            Peer::Refuse => "refuse",
            Peer::Close => "accept_close",
            Peer::Garbage => "accept_garbage",
            Peer::Healthy => "healthy",
        }
    }
    fn from_name(s: &str) -> Peer {
        match s {
            "refuse" => Peer::Refuse,
            "accept_close" => Peer::Close,
            "accept_garbage" => Peer::Garbage,
            _ => Peer::Healthy,
        }
    }
    /// what the connector would answer, in the model's vocabulary.  Over TCP hyper's write-only
    /// client handshake cannot fail synchronously, so accept-and-close is an ESTABLISHED connection
    /// that dies under the first request, exactly like the non-HTTP/2 peer: UpGarbage
    fn net(&self) -> &'static str {
        match self {
            Peer::Refuse => "(Down 2)",
            Peer::Close | Peer::Garbage => "UpGarbage",
            Peer::Healthy => "Up",
        }
    }
    fn ev(&self) -> &'static str {
        match self {
            Peer::Refuse => "Env (ConnectFails 2)",
            Peer::Close | Peer::Garbage => "Env ConnectSucceedsGarbage",
            Peer::Healthy => "Env ConnectSucceeds",
        }
    }
}
#[derive(Clone, Copy, Debug, PartialEq, Eq)]
enum TcpStep {
    /// the peer changes (its listener and every established connection go away first)
    Peer(Peer),
    Call,
}
struct PeerCtl {
    port: u16,
    task: Option<tokio::task::JoinHandle<()>>,
    shutdown: Option<tokio::sync::oneshot::Sender<()>>,
}
async fn bind_port(port: u16) -> tokio::net::TcpListener {
    for _ in 0..200 {
        if let Ok(l) = tokio::net::TcpListener::bind(("127.0.0.1", port)).await {
            return l;
        }
        tokio::time::sleep(Duration::from_millis(10)).await;
    }
    panic!("cannot bind 127.0.0.1:{}", port);
}
impl PeerCtl {
    async fn set(&mut self, p: Peer) {
        if let Some(tx) = self.shutdown.take() {
            let _ = tx.send(()); // graceful shutdown of the tonic server
            if let Some(mut t) = self.task.take() {
                if tokio::time::timeout(Duration::from_secs(2), &mut t).await.is_err() {
                    t.abort();
                    let _ = t.await;
                }
            }
        } else if let Some(t) = self.task.take() {
            t.abort();
            let _ = t.await;
        }
        match p {
            Peer::Refuse => {}
            Peer::Close | Peer::Garbage => {
                let l = bind_port(self.port).await;
                self.task = Some(tokio::spawn(async move {
                    loop {
                        if let Ok((mut s, _)) = l.accept().await {
                            if p == Peer::Garbage {
                                use tokio::io::AsyncWriteExt;
                                let _ = s.write_all(b"HTTP/1.1 400 Bad Request\r\nconnection: close\r\n\r\n").await;
                            }
                            drop(s);
                        }
                    }
                }));
            }
            Peer::Healthy => {
                let l = bind_port(self.port).await;
                let (tx, rx) = tokio::sync::oneshot::channel::<()>();
                let (_rep, health) = tonic_health::server::health_reporter();
                self.task = Some(tokio::spawn(async move {
                    let _ = Server::builder()
                        .add_service(health)
                        .serve_with_incoming_shutdown(tokio_stream::wrappers::TcpListenerStream::new(l), async {
                            let _ = rx.await;
                        })
                        .await;
                }));
                self.shutdown = Some(tx);
            }
        }
    }
}
async fn tcp_settle() {
    tokio::time::sleep(Duration::from_millis(40)).await;
}
struct TcpObs {
    eager: Option<Outcome>,
    calls: Vec<Outcome>,
    panics: usize,
}
async fn run_tcp(lazy: bool, peer0: Peer, steps: &[TcpStep]) -> TcpObs {
    let p0 = PANICS.load(Ordering::SeqCst);
    // pick a free port
    let port = {
        let l = tokio::net::TcpListener::bind(("127.0.0.1", 0)).await.unwrap();
        l.local_addr().unwrap().port()
    };
    let mut ctl = PeerCtl { port, task: None, shutdown: None };
    ctl.set(peer0).await;
    tcp_settle().await;
    let ep = Endpoint::from_shared(format!("http://127.0.0.1:{}", port)).unwrap();
    let mut obs = TcpObs { eager: None, calls: vec![], panics: 0 };
    let ch = if lazy {
        Some(ep.connect_lazy())
    } else {
        match tokio::time::timeout(Duration::from_secs(5), ep.connect()).await {
            Err(_) => {
                obs.eager = Some(Outcome::Hang);
                None
            }
            Ok(Ok(ch)) => {
                obs.eager = Some(Outcome::Ok);
                Some(ch)
            }
            Ok(Err(e)) => {
                let st = tonic::Status::from_error(Box::new(e));
                obs.eager = Some(Outcome::Err(st.code() as i32 as u32, 0, 0, st.message().to_string()));
                None
            }
        }
    };
    if let Some(ch) = ch {
        tcp_settle().await;
        let mut client = HealthClient::new(ch);
        for s in steps {
            match s {
                TcpStep::Peer(p) => ctl.set(*p).await,
                TcpStep::Call => {
                    let req = HealthCheckRequest { service: String::new() };
                    let o = match tokio::time::timeout(Duration::from_secs(5), client.check(req)).await {
                        Err(_) => Outcome::Hang,
                        Ok(Ok(resp)) if resp.get_ref().status == 1 => Outcome::Ok,
                        Ok(Ok(resp)) => Outcome::Err(999, 0, 0, format!("unexpected response {:?}", resp.get_ref())),
                        Ok(Err(st)) => Outcome::Err(st.code() as i32 as u32, 0, 0, st.message().to_string()),
                    };
                    obs.calls.push(o);
                }
            }
            tcp_settle().await;
        }
    }
    ctl.set(Peer::Refuse).await;
    obs.panics = PANICS.load(Ordering::SeqCst) - p0;
    obs
}
fn push_tcp_case(out: &mut Out, lazy: bool, peer0: Peer, steps: &[TcpStep]) {
    let rt = tokio::runtime::Builder::new_current_thread().enable_all().build().unwrap();
    let o = rt.block_on(run_tcp(lazy, peer0, steps));
    drop(rt);
    // oracle: replay of the environment only.  Strict where the property speaks: nothing listening
    // = a refused connect = UNAVAILABLE (calls and eager connect); a healthy peer = a response, also
    // right after a restart (recovery without rebuilding the channel).  accept-and-close /
    // accept-and-garbage over TCP are connections that are ESTABLISHED and die with the request in
    // flight (the in-flight-drop class, outside the quantifier): definite, CANCELLED or UNAVAILABLE.
    let mut orc: Option<String> = None;
    let mut canon: Vec<u32> = vec![];
    let mut eager_canon: Option<u32> = None;
    let mut peer = peer0;
    let mut model_net0 = peer0.net().to_string();
    if o.panics > 0 {
        orc = Some(format!("{} panic(s) inside the channel's tasks", o.panics));
    }
    let mut built = true;
    if !lazy {
        match (&o.eager, peer0) {
            (Some(Outcome::Ok), Peer::Healthy) | (Some(Outcome::Ok), Peer::Close) | (Some(Outcome::Ok), Peer::Garbage) => eager_canon = Some(0),
            (Some(Outcome::Err(14, ..)), Peer::Refuse) => {
                eager_canon = Some(14);
                built = false;
            }
            (Some(Outcome::Err(c, ..)), Peer::Close) | (Some(Outcome::Err(c, ..)), Peer::Garbage) if *c == 14 => {
                // the kernel delivered the reset before hyper's first write: then it IS a failed
                // handshake (a connect failure, UNAVAILABLE) - a schedule parameter of the model
                eager_canon = Some(14);
                model_net0 = "(UpDead 31)".to_string();
                built = false;
            }
            (e, p) => {
                orc = orc.or(Some(format!("tcp: eager connect() against peer {} gave {:?}", p.name(), e)));
                eager_canon = Some(match e {
                    Some(Outcome::Ok) => 0,
                    Some(Outcome::Err(c, ..)) => *c,
                    _ => 1000,
                });
                built = matches!(e, Some(Outcome::Ok));
            }
        }
    }
    let mut i = 0;
    let mut model_steps: Vec<String> = vec![];
    for s in steps {
        match s {
            TcpStep::Peer(p) => {
                peer = *p;
                model_steps.push("Env ConnectionDropped".into());
                model_steps.push(p.ev().into());
            }
            TcpStep::Call => {
                model_steps.push("Call".into());
                if !built {
                    continue;
                }
                let out_i = o.calls.get(i).cloned().unwrap_or(Outcome::Hang);
                i += 1;
                let c = match (&out_i, peer) {
                    (Outcome::Ok, Peer::Healthy) => 0,
                    (Outcome::Err(14, ..), Peer::Refuse) => 14,
                    (Outcome::Err(1, ..), Peer::Close) | (Outcome::Err(14, ..), Peer::Close) => 1,
                    (Outcome::Err(1, ..), Peer::Garbage) | (Outcome::Err(14, ..), Peer::Garbage) => 1,
                    // over TCP the client usually READS the non-HTTP/2 bytes before the request is
                    // cancelled: h2 raises a connection error (FRAME_SIZE_ERROR) and the call gets
                    // what C04's HTTP/2 table makes of it: INTERNAL "h2 protocol error: .." since the
                    // fix of F-C04c (UNKNOWN before it).  Recorded (histogram tcp_outcomes), same class:
                    // an established connection killed by the peer with the request in flight
                    (Outcome::Err(2 | 13, _, _, m), Peer::Garbage) if m.starts_with("h2 protocol error") => 1,
                    (x, p) => {
                        let why = match p {
                            Peer::Healthy => format!("tcp: call {} failed ({:?}) although a healthy server listens: no recovery", i, x),
                            Peer::Refuse => format!("tcp: call {} = {:?} while nothing listens (a refused connect must be UNAVAILABLE)", i, x),
                            _ => format!("tcp: call {} on a connection the peer ({}) kills = {:?}, neither CANCELLED nor UNAVAILABLE", i, p.name(), x),
                        };
                        orc = orc.or(Some(why));
                        match x {
                            Outcome::Ok => 0,
                            Outcome::Err(c, ..) => *c,
                            Outcome::Hang => 1000,
                        }
                    }
                };
                canon.push(c);
            }
        }
    }
    for c in &o.calls {
        match c {
            Outcome::Err(code, _, _, m) => out.hist("tcp_outcomes", format!("{} {}", code, m.chars().take(40).collect::<String>())),
            Outcome::Ok => out.hist("tcp_outcomes", "ok"),
            Outcome::Hang => out.hist("tcp_outcomes", "hang"),
        }
    }
    if let Some(Outcome::Err(code, _, _, m)) = &o.eager {
        out.hist("tcp_eager_errors", format!("{} {}", code, m.chars().take(40).collect::<String>()));
    }
    let impl_obs = Tr::L(vec![
        Tr::opt(eager_canon.map(Tr::n)),
        Tr::L(canon.iter().map(|c| Tr::n(*c)).collect()),
    ]);
    let model = format!("obs_run_codes {} {} {}", coq_bool(lazy), model_net0, coq_list(&model_steps, |s| s.clone()));
    out.push(Case {
        kind: "tcp.loopback".to_string(),
        input: json!({"lazy": lazy, "peer0": peer0.name(),
                      "steps": steps.iter().map(|s| match s { TcpStep::Peer(p) => json!({"peer": p.name()}), TcpStep::Call => json!("call") }).collect::<Vec<_>>(),
                      "impl": {"eager": o.eager.as_ref().map(|e| e.json()), "calls": o.calls.iter().map(|c| c.json()).collect::<Vec<_>>()}}),
        model,
        impl_obs,
        oracle: orc,
        nontrivial: true,
    });
}

// ------------------------------------------------------------------ balanced channels (seed r5-C14)
// `Channel::balance_list` / `Channel::balance_channel`: tower's p2c Balance in front of one lazy
// `Connection` (= Reconnect) per endpoint, all behind the same Buffer worker.  Balance polls the
// chosen endpoint's poll_ready AGAIN right before dispatch (ReadyCache::check_ready_index), so
// Reconnect::poll_ready runs at least twice before `call` - a usage a plain channel never produces.
// The endpoints' connector is fixed by tonic (Endpoint::http_connector: hyper-util's HttpConnector),
// so these kinds run over real 127.0.0.1 sockets and the real clock: a refused connect is Pending
// at least once before it fails.
#[derive(Clone, Copy, Debug, PartialEq, Eq)]
enum BalStep {
    /// a healthy tonic server starts listening on endpoint e's port
    Up(usize),
    /// endpoint e's server (and its connections) go away: nothing listens, connects are refused
    Down(usize),
    /// balance_channel only: Change::Insert(e, endpoint e) / Change::Remove(e) through the Sender
    Insert(usize),
    Remove(usize),
    Call,
}
impl BalStep {
    fn json(&self) -> Value {
        match self {
            BalStep::Up(e) => json!({"up": e}),
            BalStep::Down(e) => json!({"down": e}),
            BalStep::Insert(e) => json!({"insert": e}),
            BalStep::Remove(e) => json!({"remove": e}),
            BalStep::Call => json!("call"),
        }
    }
    fn from_json(v: &Value) -> BalStep {
        for (k, f) in [
            ("up", BalStep::Up as fn(usize) -> BalStep),
            ("down", BalStep::Down),
            ("insert", BalStep::Insert),
            ("remove", BalStep::Remove),
        ] {
            if let Some(e) = v.get(k) {
                return f(e.as_u64().unwrap() as usize);
            }
        }
        BalStep::Call
    }
}
/// real-time bound of one call on a balanced channel (a hang is reported after it)
const BAL_CALL_BOUND: Duration = Duration::from_secs(12);
/// one endpoint's peer.  While it is down its port stays RESERVED by a bound socket that does not
/// listen (connects are refused by the kernel, nobody else can take the port)
struct BalPeer {
    port: u16,
    reserved: Option<tokio::net::TcpSocket>,
    /// the running server: its own thread and runtime (stop signal, "everything is gone" signal)
    server: Option<(tokio::sync::oneshot::Sender<()>, tokio::sync::oneshot::Receiver<()>)>,
}
async fn reserve_port(port: u16) -> tokio::net::TcpSocket {
    for _ in 0..2000 {
        let s = tokio::net::TcpSocket::new_v4().unwrap();
        s.set_reuseaddr(true).unwrap();
        if s.bind(std::net::SocketAddr::from(([127, 0, 0, 1], port))).is_ok() {
            return s;
        }
        tokio::time::sleep(Duration::from_millis(10)).await;
    }
    panic!("cannot bind 127.0.0.1:{}", port);
}
impl BalPeer {
    async fn new() -> BalPeer {
        let s = reserve_port(0).await;
        let port = s.local_addr().unwrap().port();
        BalPeer { port, reserved: Some(s), server: None }
    }
    fn is_up(&self) -> bool {
        self.server.is_some()
    }
    /// a healthy tonic server on a runtime (and thread) of its own, so that `down` can take away
    /// the listener AND every connection, whatever state they are in (like a killed process)
    async fn up(&mut self) {
        if self.is_up() {
            return;
        }
        let s = match self.reserved.take() {
            Some(s) => s,
            None => reserve_port(self.port).await,
        };
        let (stop_tx, stop_rx) = tokio::sync::oneshot::channel::<()>();
        let (gone_tx, gone_rx) = tokio::sync::oneshot::channel::<()>();
        let (ready_tx, ready_rx) = tokio::sync::oneshot::channel::<()>();
        std::thread::spawn(move || {
            let rt = tokio::runtime::Builder::new_current_thread().enable_all().build().unwrap();
            rt.block_on(async move {
                let l = s.listen(1024).unwrap();
                let _ = ready_tx.send(());
                let (_rep, health) = tonic_health::server::health_reporter();
                tokio::select! {
                    _ = Server::builder().add_service(health).serve_with_incoming(tokio_stream::wrappers::TcpListenerStream::new(l)) => {}
                    _ = stop_rx => {}
                }
            });
            drop(rt); // the listener, every connection task and its socket are gone now
            let _ = gone_tx.send(());
        });
        let _ = ready_rx.await;
        self.server = Some((stop_tx, gone_rx));
    }
    async fn down(&mut self) {
        if let Some((stop, gone)) = self.server.take() {
            let _ = stop.send(());
            let _ = gone.await;
        }
        if self.reserved.is_none() {
            self.reserved = Some(reserve_port(self.port).await);
        }
    }
}
/// lets every task that can run (server, Buffer worker, hyper connection tasks) run and the io
/// driver deliver what the kernel has: everything lives on ONE current-thread runtime, each sleep
/// is at least one turn of the reactor
async fn bal_settle() {
    for _ in 0..4 {
        tokio::time::sleep(Duration::from_millis(10)).await;
    }
}
struct BalObs {
    calls: Vec<Outcome>,
    panics: usize,
}
/// mode 0: balance_list over endpoints 0..n; mode 1: balance_channel, endpoints come and go
/// through the Sender (steps Insert / Remove)
async fn run_balance(n: usize, dynamic: bool, up0: &[bool], steps: &[BalStep]) -> BalObs {
    let p0 = PANICS.load(Ordering::SeqCst);
    let mut peers = vec![];
    for e in 0..n {
        let mut p = BalPeer::new().await;
        if up0[e] {
            p.up().await;
        }
        peers.push(p);
    }
    bal_settle().await;
    let eps: Vec<Endpoint> = peers.iter().map(|p| Endpoint::from_shared(format!("http://127.0.0.1:{}", p.port)).unwrap()).collect();
    let (ch, tx) = if dynamic {
        let (ch, tx) = tonic::transport::Channel::balance_channel::<usize>(16);
        (ch, Some(tx))
    } else {
        (tonic::transport::Channel::balance_list(eps.clone().into_iter()), None)
    };
    bal_settle().await;
    let mut client = HealthClient::new(ch);
    let mut obs = BalObs { calls: vec![], panics: 0 };
    for s in steps {
        match s {
            BalStep::Up(e) => peers[*e].up().await,
            BalStep::Down(e) => peers[*e].down().await,
            BalStep::Insert(e) => {
                let _ = tx.as_ref().unwrap().send(tonic::transport::channel::Change::Insert(*e, eps[*e].clone())).await;
            }
            BalStep::Remove(e) => {
                let _ = tx.as_ref().unwrap().send(tonic::transport::channel::Change::Remove(*e)).await;
            }
            BalStep::Call => {
                let req = HealthCheckRequest { service: String::new() };
                let o = match tokio::time::timeout(BAL_CALL_BOUND, client.check(req)).await {
                    Err(_) => Outcome::Hang,
                    Ok(Ok(resp)) if resp.get_ref().status == 1 => Outcome::Ok,
                    Ok(Ok(resp)) => Outcome::Err(999, 0, 0, format!("unexpected response {:?}", resp.get_ref())),
                    Ok(Err(st)) => Outcome::Err(st.code() as i32 as u32, 0, 0, st.message().to_string()),
                };
                let hang = o == Outcome::Hang;
                obs.calls.push(o);
                if hang {
                    break; // one bound per case is enough
                }
            }
        }
        bal_settle().await;
    }
    drop(client);
    for p in peers.iter_mut() {
        p.down().await;
    }
    obs.panics = PANICS.load(Ordering::SeqCst) - p0;
    obs
}

/// Model-independent oracle of the balanced kinds: a replay of the ENVIRONMENT only (which
/// endpoints are in the balancer's set, which of them have a listening server).
///  - every call completes within the real-time bound, with a response or UNAVAILABLE, no panic;
///  - no response while no endpoint of the set is reachable;
///  - a failure while EVERY endpoint of the set is reachable must be an outstanding one: an
///    endpoint that was unreachable at an earlier call may hold the failure of the attempt made
///    then (Balance readies all its endpoints, the call is answered by one of them); each such
///    failure is reported at most once.  With ONE endpoint nothing is ever outstanding (the
///    failure goes to the call during which the attempt was made): the first call after the
///    endpoint is reachable again must succeed.
fn balance_oracle(n: usize, dynamic: bool, up0: &[bool], steps: &[BalStep], o: &BalObs) -> Option<String> {
    if o.panics > 0 {
        return Some(format!("balance: {} panic(s) inside the channel's tasks", o.panics));
    }
    let mut up = up0.to_vec();
    let mut inset = vec![!dynamic; n];
    // endpoints that may hold an undelivered failure (always a superset of those that do)
    let mut owe = vec![false; n];
    // failures that may still be reported in the current all-reachable period
    let mut allowed: Option<usize> = None;
    // several endpoints only: an endpoint that was reachable at an earlier call may own a
    // connection (established, or a connect that Balance has not polled to its end) that the peer
    // kills when it goes away; a request dispatched on it is a call in flight on a dying
    // connection - outside the quantifier, as in tcp.loopback: CANCELLED is accepted for it
    let mut seen_up = vec![false; n];
    let mut i = 0;
    for s in steps {
        match s {
            BalStep::Up(e) => {
                up[*e] = true;
                allowed = None;
            }
            BalStep::Down(e) => {
                up[*e] = false;
                allowed = None;
            }
            BalStep::Insert(e) => {
                inset[*e] = true;
                owe[*e] = false;
                seen_up[*e] = false;
                allowed = None;
            }
            BalStep::Remove(e) => {
                inset[*e] = false;
                owe[*e] = false;
                seen_up[*e] = false;
                if let Some(a) = allowed {
                    allowed = Some(a.min(owe.iter().filter(|x| **x).count()));
                }
            }
            BalStep::Call => {
                let out = match o.calls.get(i) {
                    Some(c) => c,
                    None => return Some(format!("balance: call {} did not produce an outcome", i + 1)),
                };
                i += 1;
                let down: Vec<usize> = (0..n).filter(|e| inset[*e] && !up[*e]).collect();
                let reachable = (0..n).any(|e| inset[e] && up[e]);
                match out {
                    Outcome::Hang => {
                        return Some(format!(
                            "balance: call {} did not complete within {:?} (hang) - endpoints of the set: {} reachable, {} unreachable",
                            i,
                            BAL_CALL_BOUND,
                            (0..n).filter(|e| inset[*e] && up[*e]).count(),
                            down.len()
                        ))
                    }
                    Outcome::Ok => {
                        if !reachable {
                            return Some(format!("balance: call {} succeeded although no endpoint is reachable", i));
                        }
                    }
                    Outcome::Err(14, ..) => {
                        if down.is_empty() {
                            let a = allowed.unwrap_or_else(|| owe.iter().filter(|x| **x).count());
                            if a == 0 {
                                return Some(format!(
                                    "balance: call {} failed (UNAVAILABLE) although every endpoint is reachable and no failure is outstanding: no recovery / a failure reported twice",
                                    i
                                ));
                            }
                            allowed = Some(a - 1);
                            if a == 1 {
                                owe.iter_mut().for_each(|x| *x = false);
                            }
                        } else {
                            let cand: Vec<usize> = (0..n).filter(|e| inset[*e] && (!up[*e] || owe[*e])).collect();
                            if cand.len() == 1 {
                                owe[cand[0]] = false; // delivered to this very call
                                continue;
                            }
                        }
                    }
                    Outcome::Err(1, ..) if n >= 2 && down.iter().any(|e| seen_up[*e]) => {}
                    Outcome::Err(c, _, _, m) => {
                        return Some(format!("balance: call {} failed with code {} ({:?}), not UNAVAILABLE", i, c, m));
                    }
                }
                for e in 0..n {
                    if inset[e] && up[e] {
                        seen_up[e] = true;
                    }
                }
                if inset.iter().filter(|x| **x).count() >= 2 {
                    for e in down {
                        owe[e] = true;
                    }
                }
            }
        }
    }
    None
}
fn push_balance_case(out: &mut Out, kind: &str, n: usize, dynamic: bool, up0: &[bool], steps: &[BalStep]) {
    let rt = tokio::runtime::Builder::new_current_thread().enable_all().build().unwrap();
    let o = rt.block_on(run_balance(n, dynamic, up0, steps));
    drop(rt);
    let orc = balance_oracle(n, dynamic, up0, steps, &o);
    for c in &o.calls {
        match c {
            Outcome::Err(code, _, _, m) => out.hist("balance_outcomes", format!("{} {}", code, m.chars().take(40).collect::<String>())),
            Outcome::Ok => out.hist("balance_outcomes", "ok"),
            Outcome::Hang => out.hist("balance_outcomes", "hang"),
        }
    }
    out.hist("balance_endpoints", n);
    let code = |c: &Outcome| match c {
        Outcome::Ok => 0,
        Outcome::Err(c, ..) => *c,
        Outcome::Hang => 1000,
    };
    let (model, impl_obs) = if n == 1 && !dynamic {
        // ONE endpoint: exact.  The model's Balance driver polls Reconnect::poll_ready until Ready,
        // once more (check_ready_index), then calls
        let mut ms: Vec<String> = vec![];
        for s in steps {
            match s {
                BalStep::Up(_) => ms.push("Env ConnectSucceeds".into()),
                BalStep::Down(_) => {
                    ms.push("Env ConnectionDropped".into());
                    ms.push("Env (ConnectFails 2)".into());
                }
                BalStep::Call => ms.push("Call".into()),
                _ => {}
            }
        }
        (
            format!("obs_balance_codes 1 {} {}", if up0[0] { "Up" } else { "(Down 2)" }, coq_list(&ms, |s| s.clone())),
            Tr::L(o.calls.iter().map(|c| Tr::n(code(c))).collect()),
        )
    } else {
        // several endpoints: which endpoint answers is tower's p2c choice and a race of connects -
        // not modelled.  Compared: calls while NO endpoint of the set is reachable (the model's
        // balanced driver on an unreachable endpoint); the others are canonicalised to 0 when
        // the oracle admits them
        let mut up = up0.to_vec();
        let mut inset = vec![!dynamic; n];
        let mut canon = vec![];
        let mut i = 0;
        let mut ms: Vec<String> = vec![];
        for s in steps {
            match s {
                BalStep::Up(e) => {
                    up[*e] = true;
                    ms.push(format!("BUp {}", e));
                }
                BalStep::Down(e) => {
                    up[*e] = false;
                    ms.push(format!("BDown {}", e));
                }
                BalStep::Insert(e) => {
                    inset[*e] = true;
                    ms.push(format!("BInsert {}", e));
                }
                BalStep::Remove(e) => {
                    inset[*e] = false;
                    ms.push(format!("BRemove {}", e));
                }
                BalStep::Call => {
                    ms.push("BCall".into());
                    if let Some(c) = o.calls.get(i) {
                        let reachable = (0..n).any(|e| inset[e] && up[e]);
                        // (a CANCELLED the oracle admits - a request on a dying connection - counts as the failure it is)
                        let admitted = matches!(c, Outcome::Ok | Outcome::Err(14, ..)) || (orc.is_none() && matches!(c, Outcome::Err(1, ..)));
                        canon.push(if admitted { if reachable { 0 } else { 14 } } else { code(c) });
                    }
                    i += 1;
                }
            }
        }
        (
            format!(
                "obs_balance_set_codes {} {} {}",
                coq_list(&inset_init(n, dynamic), |b| coq_bool(*b).to_string()),
                coq_list(up0, |b| coq_bool(*b).to_string()),
                coq_list(&ms, |s| s.clone())
            ),
            Tr::L(canon.iter().map(|c| Tr::n(*c)).collect()),
        )
    };
    out.push(Case {
        kind: kind.to_string(),
        input: json!({"balance": {"endpoints": n, "dynamic": dynamic, "up0": up0},
                      "steps": steps.iter().map(|s| s.json()).collect::<Vec<_>>(),
                      "impl": {"calls": o.calls.iter().map(|c| c.json()).collect::<Vec<_>>()}}),
        model,
        impl_obs,
        oracle: orc,
        nontrivial: true,
    });
}
fn inset_init(n: usize, dynamic: bool) -> Vec<bool> {
    vec![!dynamic; n]
}

/// event script -> history with `k` calls at the quiescent point after every event
fn with_calls(script: &[Step], leading_call: bool, k: impl Fn(usize) -> u32) -> Vec<Step> {
    let mut h = vec![];
    if leading_call {
        h.push(Step::Calls(k(0)));
    }
    for (j, s) in script.iter().enumerate() {
        h.push(*s);
        h.push(Step::Calls(k(j + 1)));
    }
    h
}

fn all_seqs(alpha: &[Step], len: usize) -> Vec<Vec<Step>> {
    let mut r: Vec<Vec<Step>> = vec![vec![]];
    for _ in 0..len {
        let mut n = vec![];
        for s in &r {
            for a in alpha {
                let mut t = s.clone();
                t.push(*a);
                n.push(t);
            }
        }
        r = n;
    }
    r
}
/// distinct refusal reasons so that a stale error is recognisable
/// (the reason also selects the underlying error: kind = reason % 32, wrapping depth = reason / 32 % 3,
/// so stepping by 13 walks through kinds and depths)
fn distinct_reasons(s: &mut [Step], base: u32) {
    for (j, e) in s.iter_mut().enumerate() {
        match e {
            Step::Set(Net::Down(_)) => *e = Step::Set(Net::Down(base + 13 * j as u32)),
            Step::Set(Net::Dead(_)) => *e = Step::Set(Net::Dead(base + 7 + 13 * j as u32)),
            _ => {}
        }
    }
}

/// F-C14c: with `connect_timeout` the timeout connector stands in front of tonic's own connector;
/// its timeout must reach the caller as a connect error (UNAVAILABLE), lazily and eagerly.
fn connect_timeout_cases(out: &mut Out) {
    use std::time::Duration;
    for (lazy, ms) in [(true, 5u64), (true, 250), (false, 5), (false, 250)] {
        let rt = tokio::runtime::Builder::new_current_thread().enable_all().start_paused(true).build().unwrap();
        let codes: Vec<u32> = rt.block_on(async move {
            let never = || tower::service_fn(|_: http::Uri| async move {
                std::future::pending::<()>().await;
                Err::<hyper_util::rt::TokioIo<tokio::io::DuplexStream>, std::io::Error>(std::io::Error::other("never"))
            });
            let ep = tonic::transport::Endpoint::from_static("http://127.0.0.1:1").connect_timeout(Duration::from_millis(ms));
            let mut codes = vec![];
            if lazy {
                let ch = ep.connect_with_connector_lazy(never());
                let mut c = tonic_health::pb::health_client::HealthClient::new(ch);
                for _ in 0..2 {
                    let r = tokio::time::timeout(Duration::from_secs(3600), c.check(tonic_health::pb::HealthCheckRequest { service: String::new() })).await;
                    codes.push(match r { Err(_) => 1000, Ok(Ok(_)) => 0, Ok(Err(s)) => s.code() as i32 as u32 });
                }
            } else {
                let r = tokio::time::timeout(Duration::from_secs(3600), ep.connect_with_connector(never())).await;
                codes.push(match r { Err(_) => 1000, Ok(Ok(_)) => 0, Ok(Err(e)) => tonic::Status::from_error(Box::new(e)).code() as i32 as u32 });
            }
            codes
        });
        let want: Vec<u32> = codes.iter().map(|_| 14).collect();
        let orc = if codes == want { None } else { Some(format!("connect attempt ended by connect_timeout({} ms): codes {:?}, every one must be UNAVAILABLE (14; 1000 = hang)", ms, codes)) };
        out.push(Case {
            kind: "corpus.F-C14c.connect_timeout".to_string(),
            input: json!({"lazy": lazy, "connect_timeout_ms": ms, "connector": "never answers", "impl": {"codes": codes}}),
            model: format!("Nd [{}]", want.iter().map(|c| format!("Nn {}", c)).collect::<Vec<_>>().join(";")),
            impl_obs: Tr::L(codes.iter().map(|c| Tr::n(*c)).collect()),
            oracle: orc,
            nontrivial: true,
        });
    }
}

fn main() {
    let a = args();
    std::panic::set_hook(Box::new(|_| {
        PANICS.fetch_add(1, Ordering::SeqCst);
    }));
    if std::env::args().any(|x| x == "--explore") {
        explore();
        return;
    }
    let mut out = Out::new(&a.out);
    if let Some(f) = &a.replay {
        let v: Value = serde_json::from_str(&std::fs::read_to_string(f).unwrap()).unwrap();
        let i = &v["input"];
        if let Some(p0) = i.get("peer0") {
            let steps: Vec<TcpStep> = i["steps"]
                .as_array()
                .unwrap()
                .iter()
                .map(|s| match s.get("peer") {
                    Some(p) => TcpStep::Peer(Peer::from_name(p.as_str().unwrap())),
                    None => TcpStep::Call,
                })
                .collect();
            push_tcp_case(&mut out, i["lazy"].as_bool().unwrap(), Peer::from_name(p0.as_str().unwrap()), &steps);
            out.finish(IMPORTS, "replay of one stored case", json!({}));
            return;
        }
        if let Some(b) = i.get("balance") {
            let steps: Vec<BalStep> = i["steps"].as_array().unwrap().iter().map(BalStep::from_json).collect();
            let up0: Vec<bool> = b["up0"].as_array().unwrap().iter().map(|x| x.as_bool().unwrap()).collect();
            push_balance_case(
                &mut out,
                v["kind"].as_str().unwrap_or("balance.replay"),
                b["endpoints"].as_u64().unwrap() as usize,
                b["dynamic"].as_bool().unwrap(),
                &up0,
                &steps,
            );
            out.finish(IMPORTS, "replay of one stored case", json!({}));
            return;
        }
        if let Some(g) = i.get("break_after") {
            let hist: Vec<Step> = i["history"].as_array().unwrap().iter().map(Step::from_json).collect();
            push_break_case(
                &mut out,
                i["lazy"].as_bool().unwrap(),
                i["lat"].as_u64().unwrap() as u32,
                i["prl"].as_u64().unwrap_or(0) as u32,
                Mode::from_name(i["mode"].as_str().unwrap_or("record")),
                g.as_u64().unwrap() as u32,
                i["reason"].as_u64().unwrap_or(0) as u32,
                Net::from_json(&i["net0"]),
                &hist,
            );
            out.finish(IMPORTS, "replay of one stored case", json!({}));
            return;
        }
        let hist: Vec<Step> = i["history"].as_array().unwrap().iter().map(Step::from_json).collect();
        push_case_with(
            &mut out,
            v["kind"].as_str().unwrap_or("replay"),
            i["lazy"].as_bool().unwrap(),
            i["lat"].as_u64().unwrap() as u32,
            i["prl"].as_u64().unwrap_or(0) as u32,
            Mode::from_name(i["mode"].as_str().unwrap_or("record")),
            Net::from_json(&i["net0"]),
            &hist,
        );
        out.finish(IMPORTS, "replay of one stored case", json!({}));
        return;
    }
    let mut r = Rng::new(a.seed);
    use Step::*;
    let fail = |r: u32| Set(Net::Down(r));
    let succeed = Set(Net::Up);
    let dead = Set(Net::Dead(8));
    let garbage = Set(Net::Garbage);

    // corpus: hand-picked histories
    let corpus: Vec<(bool, u32, Net, Vec<Step>)> = vec![
        (true, 0, Net::Down(3), vec![CALL, CALL, succeed, CALL, CALL]),
        (true, 0, Net::Up, vec![CALL, Drop, CALL, fail(5), Drop, CALL, CALL, succeed, CALL]),
        (false, 0, Net::Down(3), vec![CALL]),
        (false, 0, Net::Up, vec![CALL, fail(4), CALL, Drop, CALL, CALL, succeed, CALL]),
        (false, 2, Net::Up, vec![Drop, fail(9), CALL, fail(8), CALL, succeed, CALL, Drop, Drop, CALL]),
        (true, 3, Net::Down(1), vec![CALL, fail(2), CALL, succeed, CALL, Drop, fail(6), CALL, succeed, CALL]),
        (true, 0, Net::Up, vec![]),
        (false, 0, Net::Up, vec![]),
        (true, 1, Net::Up, vec![succeed, Drop, fail(2), succeed, CALL]),
    ];
    for (lazy, lat, n0, h) in &corpus {
        push_case(&mut out, "corpus.history", *lazy, *lat, *n0, h);
    }
    // the connector's protocol: connect, call, peer drops, call - in every mode and with Pending answers
    for mode in [Mode::Record, Mode::Panic, Mode::Limit] {
        for prl in [0, 2] {
            for lazy in [true, false] {
                push_case_with(&mut out, "corpus.protocol", lazy, 1, prl, mode, Net::Up, &[CALL, Drop, CALL, Drop, fail(3), CALL, succeed, Calls(2)]);
            }
        }
    }
    // queued calls (audit M19)
    let conc: Vec<(bool, u32, Net, Vec<Step>)> = vec![
        (true, 0, Net::Down(3), vec![Calls(3), succeed, Calls(3)]),
        (true, 2, Net::Up, vec![Calls(3), Drop, fail(4), Calls(2), succeed, Calls(4)]),
        (false, 1, Net::Up, vec![Calls(2), Drop, Calls(3), fail(7), Drop, Calls(3), succeed, Calls(2)]),
        (true, 3, Net::Down(9), vec![Calls(5)]),
        (true, 0, Net::Up, vec![Calls(0), Calls(1), Calls(0)]),
    ];
    for (lazy, lat, n0, h) in &conc {
        push_case(&mut out, "corpus.concurrent", *lazy, *lat, *n0, h);
    }
    // what the stack does off the quiescent points (documented, outside the quantifier)
    for lazy in [true, false] {
        for h in [
            vec![CALL, DropRacy, CALL, CALL],
            vec![CALL, fail(7), DropRacy, CALL, CALL, succeed, CALL],
            vec![DropRacy, CALL],
            vec![CALL, DropRacy, Calls(3), CALL],
        ] {
            push_case(&mut out, "corpus.racy", lazy, 0, Net::Up, &h);
        }
    }
    // transport connects, HTTP/2 does not (audit M4)
    let hs: Vec<(bool, u32, Net, Vec<Step>)> = vec![
        (true, 0, Net::Dead(31), vec![CALL, CALL, succeed, CALL]),
        (true, 0, Net::Garbage, vec![CALL, CALL, succeed, CALL]),
        (false, 0, Net::Dead(31), vec![CALL]),
        (false, 0, Net::Dead(0), vec![CALL]),
        (false, 0, Net::Garbage, vec![CALL, succeed, CALL]),
        (false, 1, Net::Up, vec![CALL, dead, Drop, CALL, CALL, garbage, CALL, succeed, CALL]),
        (true, 2, Net::Garbage, vec![Calls(3), CALL]),
        (true, 1, Net::Dead(45), vec![Calls(2)]),
    ];
    for (lazy, lat, n0, h) in &hs {
        push_case(&mut out, "corpus.handshake", *lazy, *lat, *n0, h);
    }

    // every shape of the underlying error (20 io::ErrorKinds, custom type, boxed String, io Other;
    // wrapped 0, 1, 2 levels deep) x {the connector refuses, the handshake on its io fails} x
    // lazy/eager: while no connection can be made every call is UNAVAILABLE whatever lies beneath
    for shape in 0..96u32 {
        for lazy in [true, false] {
            push_case(&mut out, "script.error_kinds", lazy, shape % 2, Net::Down(shape), &[CALL, Calls(2), Set(Net::Dead(95 - shape)), CALL, succeed, CALL]);
            push_case(&mut out, "script.error_kinds", lazy, shape % 3, Net::Dead(shape), &[CALL, fail(shape + 96), CALL, succeed, CALL]);
            if !lazy {
                push_case(&mut out, "script.error_kinds", false, 0, Net::Up, &[CALL, Drop, Set(Net::Dead(shape)), CALL, Drop, fail(shape), CALL, succeed, CALL]);
            }
        }
    }

    // OBSERVATION (not covered by the property): the connector's poll_ready errs after g cycles
    for lazy in [true, false] {
        for good in 0..3u32 {
            for (mi, mode) in [Mode::Record, Mode::Panic, Mode::Limit].into_iter().enumerate() {
                let prl = (good + mi as u32) % 3;
                push_break_case(&mut out, lazy, 1, prl, mode, good, 7 + good, Net::Up, &[CALL, Drop, CALL, CALL, Drop, Calls(2), succeed, CALL]);
                push_break_case(&mut out, lazy, 0, prl, mode, good, 40 + good, Net::Down(3), &[CALL, CALL, succeed, CALL, Drop, CALL, CALL]);
            }
        }
    }
    // loopback TCP: real Endpoint::connect()/connect_lazy() against 127.0.0.1 (real clock)
    {
        use Peer::*;
        let c = TcpStep::Call;
        let p = TcpStep::Peer;
        for lazy in [true, false] {
            for peer0 in [Healthy, Refuse, Close, Garbage] {
                // shut down / restart on the same port
                push_tcp_case(&mut out, lazy, peer0, &[c, c, p(Healthy), c, p(Refuse), c, c, p(Healthy), c]);
                push_tcp_case(&mut out, lazy, peer0, &[c, p(Close), c, c, p(Healthy), c]);
                push_tcp_case(&mut out, lazy, peer0, &[c, p(Garbage), c, p(Refuse), c, p(Healthy), c, p(Healthy), c]);
            }
        }
        if a.thorough {
            let peers = [Healthy, Refuse, Close, Garbage];
            for lazy in [true, false] {
                for peer0 in peers {
                    for p1 in peers {
                        for p2 in peers {
                            push_tcp_case(&mut out, lazy, peer0, &[c, p(p1), c, c, p(p2), c, p(Healthy), c]);
                        }
                    }
                }
            }
        }
    }

    // balanced channels (seed r5-C14): real Channel::balance_list / balance_channel over 127.0.0.1
    {
        use BalStep::{Call as C, Down as D, Insert as I, Remove as R, Up as U};
        fn seqs(alpha: &[BalStep], len: usize) -> Vec<Vec<BalStep>> {
            let mut r: Vec<Vec<BalStep>> = vec![vec![]];
            for _ in 0..len {
                r = r.iter().flat_map(|s| alpha.iter().map(move |a| { let mut t = s.clone(); t.push(*a); t })).collect();
            }
            r
        }
        // k(j) calls after the j-th event (and before the first)
        fn calls_after(script: &[BalStep], k: impl Fn(usize) -> usize) -> Vec<BalStep> {
            let mut h = vec![BalStep::Call; k(0)];
            for (j, s) in script.iter().enumerate() {
                h.push(*s);
                h.extend(vec![BalStep::Call; k(j + 1)]);
            }
            h
        }
        // ONE endpoint: every script over {server starts, server goes away} up to length 3 (thorough 5)
        for up0 in [false, true] {
            for len in 0..=(if a.thorough { 4 } else { 3 }) {
                for (idx, s) in seqs(&[U(0), D(0)], len).into_iter().enumerate() {
                    push_balance_case(&mut out, "balance.list1", 1, false, &[up0], &calls_after(&s, |j| 1 + (idx + j) % 2));
                }
            }
        }
        // TWO endpoints
        let ups: &[[bool; 2]] = if a.thorough { &[[false, false], [true, false], [false, true], [true, true]] } else { &[[false, false], [true, false]] };
        for up0 in ups {
            push_balance_case(&mut out, "balance.list2", 2, false, up0, &[C, C, U(0), U(1), C, C, C, D(0), C, C, C, D(1), C, C, U(1), C, C, C]);
            for len in 0..=2 {
                if len == 1 && !a.thorough {
                    continue;
                }
                for (idx, s) in seqs(&[U(0), D(0), U(1), D(1)], len).into_iter().enumerate() {
                    push_balance_case(&mut out, "balance.list2", 2, false, up0, &calls_after(&s, |j| 2 + (idx + j) % 2));
                }
            }
        }
        // endpoints inserted / removed through the Sender (no call while the set is empty: tower's
        // Balance is then Pending by design - there is no endpoint to ask)
        let dynamic: Vec<([bool; 2], Vec<BalStep>)> = vec![
            ([false, false], vec![I(0), C, C, U(0), C, C, D(0), C, C]),
            ([false, true], vec![I(0), C, C, I(1), C, C, C, R(1), C, C, U(0), C, C, R(0), I(1), C, C]),
            ([true, false], vec![I(0), I(1), C, C, C, R(0), C, C, U(1), C, C, C, I(0), D(1), C, C, C]),
            ([false, false], vec![I(0), I(1), C, C, R(0), C, C, U(1), C, C, C, R(1), I(0), C, U(0), C, C]),
            ([false, false], vec![I(1), C, R(1), I(1), C, U(1), C, C, R(1), I(1), C, D(1), C, C]),
            ([true, true], vec![I(0), C, D(0), C, C, I(1), C, C, R(0), C, C, U(0), I(0), C, C]),
        ];
        for (up0, s) in &dynamic {
            push_balance_case(&mut out, "balance.channel", 2, true, up0, s);
        }
        for _ in 0..(if a.thorough { 20 } else { 8 }) {
            let up0 = [r.chance(1, 2), r.chance(1, 2)];
            let mut inset = [false, false];
            let mut s = vec![];
            for _ in 0..r.range(6, 14) {
                let e = r.below(2) as usize;
                let any = inset[0] || inset[1];
                match r.below(8) {
                    0 => s.push(U(e)),
                    1 => s.push(D(e)),
                    2 | 3 if !inset[e] => {
                        inset[e] = true;
                        s.push(I(e));
                    }
                    4 if inset[e] => {
                        inset[e] = false;
                        s.push(R(e));
                    }
                    _ if any => s.push(C),
                    _ => {}
                }
            }
            if !(inset[0] || inset[1]) {
                s.push(I(0));
            }
            s.push(C);
            s.push(C);
            push_balance_case(&mut out, "balance.channel", 2, true, &up0, &s);
        }
    }

    // exhaustive: every script over {fail, succeed, drop} up to the bound, a call after every event
    let max = if a.thorough { 8 } else { 6 };
    let alpha = [fail(0), succeed, Drop];
    for len in 0..=max {
        for (idx, mut s) in all_seqs(&alpha, len).into_iter().enumerate() {
            distinct_reasons(&mut s, 10);
            for lazy in [true, false] {
                // initial reachability and latency vary with the index so that all combinations
                // occur at every length; the shortest lengths get all of them
                let combos: Vec<(Net, u32, bool)> = if len <= (if a.thorough { 6 } else { 4 }) {
                    vec![(Net::Up, 0, false), (Net::Down(1), 0, false), (Net::Up, 1, true), (Net::Down(2), 2, true)]
                } else {
                    let k = idx % 4;
                    vec![(if k & 1 == 0 { Net::Up } else { Net::Down(1) }, (k as u32) % 3, k >= 2)]
                };
                for (n0, lat, lead) in combos {
                    if !lazy && n0 != Net::Up && len > 0 {
                        continue; // eager + initially refused: no channel, one case (len 0) suffices
                    }
                    let h = with_calls(&s, lead, |_| 1);
                    push_case(&mut out, "script.exhaustive", lazy, lat, n0, &h);
                }
            }
        }
    }
    // queued calls: every script up to a smaller bound, k = 2..4 calls queued together after every event
    let maxc = if a.thorough { 6 } else { 4 };
    for len in 0..=maxc {
        for (idx, mut s) in all_seqs(&alpha, len).into_iter().enumerate() {
            distinct_reasons(&mut s, 30);
            for lazy in [true, false] {
                for (n0, lat) in [(Net::Up, (idx % 3) as u32), (Net::Down(1), ((idx + 1) % 3) as u32)] {
                    if !lazy && n0 != Net::Up {
                        continue;
                    }
                    let h = with_calls(&s, true, |j| 2 + ((idx + j) % 3) as u32);
                    push_case(&mut out, "concurrent.k", lazy, lat, n0, &h);
                }
            }
        }
    }
    // random histories with calls at arbitrary positions (several in a row, none between faults,
    // batches of 0..4)
    let n = if a.thorough { 15000 } else { 700 };
    for _ in 0..n {
        let len = r.range(1, if a.thorough { 16 } else { 10 }) as usize;
        let mut h = vec![];
        for j in 0..len {
            h.push(match r.below(8) {
                0 => fail(96 * j as u32 + r.below(96) as u32),
                1 => succeed,
                2 => Drop,
                3 | 4 => Calls(r.range(0, 4) as u32),
                _ => CALL,
            });
        }
        let lazy = r.chance(1, 2);
        let n0 = if r.chance(1, 3) { Net::Down(960 + r.below(96) as u32) } else { Net::Up };
        let lat = r.below(4) as u32;
        push_case(&mut out, "history.random", lazy, lat, n0, &h);
    }
    // the wider alphabet: + {connect succeeds but the peer closes, connect succeeds but the peer is
    // not HTTP/2}; every script up to a small bound and random ones
    let alpha5 = [fail(0), succeed, Drop, dead, garbage];
    let maxh = if a.thorough { 4 } else { 3 };
    for len in 0..=maxh {
        for (idx, mut s) in all_seqs(&alpha5, len).into_iter().enumerate() {
            if len > 0 && s.iter().all(|e| matches!(e, Set(Net::Up) | Set(Net::Down(_)) | Drop)) {
                continue; // already in script.exhaustive
            }
            distinct_reasons(&mut s, 40);
            for lazy in [true, false] {
                for n0 in [Net::Up, Net::Dead((idx as u32 * 5) % 96), Net::Garbage] {
                    if len == 0 && n0 == Net::Up {
                        continue;
                    }
                    let h = with_calls(&s, true, |j| if (idx + j) % 5 == 0 { 2 } else { 1 });
                    push_case(&mut out, "script.handshake", lazy, (idx % 3) as u32, n0, &h);
                }
            }
        }
    }
    let nh = if a.thorough { 3000 } else { 300 };
    for _ in 0..nh {
        let len = r.range(1, 10) as usize;
        let mut h = vec![];
        for j in 0..len {
            h.push(match r.below(10) {
                0 => fail(96 * j as u32 + r.below(96) as u32),
                1 => succeed,
                2 => Drop,
                3 => Set(Net::Dead(96 * j as u32 + r.below(96) as u32)),
                4 => garbage,
                5 => Calls(r.range(0, 3) as u32),
                _ => CALL,
            });
        }
        let (ra, rb) = (960 + r.below(96) as u32, 960 + r.below(96) as u32);
        let n0 = *r.pick(&[Net::Up, Net::Down(ra), Net::Dead(rb), Net::Garbage]);
        push_case(&mut out, "history.random_handshake", r.chance(1, 2), r.below(3) as u32, n0, &h);
    }

    connect_timeout_cases(&mut out);

    out.finish(
        IMPORTS,
        "corpus.F-C14c.connect_timeout: Endpoint::connect_timeout set (virtual time) with a connector that never answers, connect_with_connector_lazy (two calls) and connect_with_connector (eager): the attempt can only end by the timeout, which must be an UNAVAILABLE-class connect error (fix fbf82474). script.exhaustive: ALL scripts over {connect fails, connect succeeds, connection dropped} up to length 6 (thorough 8) x lazy/eager, a unary call at the quiescent point after every event (and optionally before the first), initial reachability and connector latency (0..2 Pending polls) varied; concurrent.k: ALL such scripts up to length 4 (thorough 6) with 2..4 calls issued TOGETHER (queued in the tower Buffer) after every event; history.random: random histories with calls and batches of 0..4 at arbitrary positions; tcp.loopback: real Endpoint::connect()/connect_lazy() (hyper-util HttpConnector, real clock) against 127.0.0.1 peers {nothing listening, accepts and closes, accepts and answers HTTP/1.1, real tonic server shut down and restarted on the same port}, codes compared with the model (nothing listening = refusal, strictly UNAVAILABLE; accept-and-close/garbage = established connection dying with the request in flight, CANCELLED or UNAVAILABLE accepted; healthy = response, also after restart); balance.list1 / balance.list2 / balance.channel: real Channel::balance_list (1 and 2 endpoints) and Channel::balance_channel (endpoints inserted/removed through the Sender) over 127.0.0.1 (tower p2c Balance polls Reconnect::poll_ready again right before every dispatch; peers: nothing listening on a reserved port = refused after a Pending connect, healthy tonic server, started/stopped on the same port; real clock, 12 s bound per call): list1 = ALL scripts over {server starts, server goes away} up to length 3 (thorough 4) x initially up/down, 1..2 calls after every event, codes compared with the model's balanced driver (exact); list2 = all scripts over the two endpoints' events of length 0 and 2 (thorough 0..2, all four initial states) + a long one, channel = hand-written and random insert/remove/up/down scripts (model: calls while no endpoint of the set is reachable); oracle: every call completes within the bound with a response or UNAVAILABLE, no response while no endpoint is reachable, a failure while every endpoint is reachable only for a failure still outstanding from an earlier call (never with one endpoint: the first call after the endpoint is back succeeds), each reported once; observe.connector_not_ready: connector whose poll_ready errs after g cycles (outside the property: tower's contract makes the Buffer worker fail for good; model exact, oracle only definite/no panic/no hang); script.error_kinds: every shape of the error beneath the ConnectError (the reason selects it: 20 std::io::ErrorKinds, a custom error type, a boxed String, wrapped 0..2 levels deep) for refusals of the connector and for failures of the HTTP/2 handshake on a scripted io, lazy and eager - strictly UNAVAILABLE; all other kinds draw their reasons from the same space; script.handshake / history.random_handshake: the alphabet widened by {transport connects but the peer closes at once (handshake fails; strictly UNAVAILABLE, fixed finding F-C14a), transport connects but the peer is not HTTP/2 (established connection dies under the request, CANCELLED or UNAVAILABLE accepted as for racy drops)}; corpus.racy: calls issued before the client noticed the drop (outside the property's quantifier, behaviour recorded and modelled). The scripted connector enforces the tower Service protocol (its poll_ready answers Pending 0..2 times per cycle; a call without a Ready poll_ready is recorded / panics / runs under a real tower::limit::ConcurrencyLimit, rotating per case; corpus.protocol = drop-and-reconnect sequences in every mode). Real Endpoint::connect_with_connector[_lazy] + Buffer worker + Reconnect + hyper h2 client against a real tonic Server over tokio duplex pipes, paused clock. Non-trivial = at least one call and two steps. Distinct = distinct (kind, model expression).",
        json!({}),
    );
}

fn explore() {
    if std::env::args().any(|x| x == "--balance") {
        use BalStep::*;
        let rt = tokio::runtime::Builder::new_current_thread().enable_all().build().unwrap();
        let t0 = std::time::Instant::now();
        let show = |what: &str, o: &BalObs| {
            let v: Vec<String> = o.calls.iter().map(|c| match c { Outcome::Ok => "ok".into(), Outcome::Hang => "HANG".into(), Outcome::Err(c, _, _, m) => format!("{}:{}", c, m.chars().take(30).collect::<String>()) }).collect();
            println!("{} -> {:?} panics={} t={:?}", what, v, o.panics, t0.elapsed());
        };
        for up in [false, true] {
            let o = rt.block_on(run_balance(1, false, &[up], &[Call, Call, Up(0), Call, Call, Down(0), Call, Call, Up(0), Call]));
            show(&format!("list1 up0={}", up), &o);
        }
        for _ in 0..6 {
            let o = rt.block_on(run_balance(2, false, &[false, false], &[Call, Call, Up(0), Up(1), Call, Call, Call, Down(0), Call, Call, Call, Call, Down(1), Call, Call, Call]));
            show("list2 down,down", &o);
        }
        for _ in 0..8 {
            let st = [Call, Call, Call, Up(0), Call, Call, Down(0), Call, Call, Call, Up(1), Up(0), Call, Call, Down(1), Down(0), Call, Call, Call];
            let o = rt.block_on(run_balance(2, false, &[false, false], &st));
            show("list2 doomed", &o);
            println!("   oracle: {:?}", balance_oracle(2, false, &[false, false], &st, &o));
        }
        let o = rt.block_on(run_balance(2, true, &[false, true], &[Insert(0), Call, Call, Insert(1), Call, Call, Call, Remove(1), Call, Call, Up(0), Call, Remove(0), Insert(1), Call]));
        show("chan", &o);
        return;
    }
    {
        use Peer::*;
        let c = TcpStep::Call;
        let p = TcpStep::Peer;
        let rt = tokio::runtime::Builder::new_current_thread().enable_all().build().unwrap();
        for lazy in [true, false] {
            for peer0 in [Healthy, Refuse, Close, Garbage] {
                let steps = [c, c, p(Close), c, c, p(Garbage), c, c, p(Refuse), c, p(Healthy), c, p(Healthy), c];
                let o = rt.block_on(run_tcp(lazy, peer0, &steps));
                println!("TCP lazy={} peer0={:?}\n   eager={:?}\n   calls={:?} panics={}", lazy, peer0, o.eager, o.calls, o.panics);
            }
        }
        let h = [CALL, Step::Drop, CALL, CALL, Step::Set(Net::Up), CALL];
        for lazy in [true, false] {
            for good in 0..2 {
                let o = run_blocking_brk(lazy, 0, 1, Mode::Record, Some((good, 9)), Net::Up, &h);
                println!("BREAK lazy={} good={}\n   eager={:?}\n   calls={:?} attempts={} panics={}", lazy, good, o.eager, o.calls, o.attempts, o.panics);
            }
        }
        return;
    }
    #[allow(unreachable_code)]
    use Step::*;
    for mode in [Mode::Record, Mode::Panic, Mode::Limit] {
        for prl in [0, 2] {
            for lazy in [true, false] {
                let h = vec![CALL, Drop, CALL, Set(Net::Down(3)), Drop, CALL, Set(Net::Up), Calls(2)];
                let o = run_blocking(lazy, 1, prl, mode, Net::Up, &h);
                println!(
                    "mode={:?} prl={} lazy={}\n   eager={:?}\n   calls={:?}\n   attempts={} misuse={} panics={} oracle={:?}",
                    mode, prl, lazy, o.eager, o.calls, o.attempts, o.misuse, o.panics, oracle(lazy, Net::Up, &h, &o)
                );
            }
        }
    }
}
